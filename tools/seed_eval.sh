#!/bin/bash
# tools/seed_eval.sh <PID> [name]  — confirm a sub-agent's seeded change in a fresh scratch worktree and
# run every check against it (applied to /repo, then undone). Results go to /verif/seeded/<name>/.
PID="$1"; NAME="${2:-$1}"
SRC=/tmp/wt_$PID/seed_out
OUT=/verif/seeded/$NAME
SV=/tmp/sv_$NAME
set -u
mkdir -p "$OUT"
cp "$SRC/patch.diff" "$OUT/patch.diff" || exit 1
DEMO=$(ls "$SRC" | grep -E '^demo.*\.py$' | head -1)
cp "$SRC/$DEMO" "$OUT/$DEMO"; cp "$SRC/notes.md" "$OUT/notes.md" 2>/dev/null
sed -i "s#/tmp/wt_$PID#$SV#g" "$OUT/$DEMO"
git -C /repo worktree remove --force "$SV" 2>/dev/null; rm -rf "$SV"
git -C /repo worktree add -q --detach "$SV" HEAD || exit 1
run_demo() { (cd "$SV" && if echo "$DEMO" | grep -q test; then PYTHONPATH="$SV/src" timeout 900 /venv/bin/python -m pytest -q -p no:cacheprovider -x "$OUT/$DEMO" >/tmp/seed_demo_$NAME.log 2>&1; else PYTHONPATH="$SV/src" timeout 900 /venv/bin/python "$OUT/$DEMO" >/tmp/seed_demo_$NAME.log 2>&1; fi; echo $?); }
D0=$(run_demo)
git -C "$SV" apply "$OUT/patch.diff" || { echo "PATCH DOES NOT APPLY"; exit 1; }
D1=$(run_demo)
T=$(cd "$SV" && /venv/bin/python -m pytest -q -p no:cacheprovider --timeout=900 -n 12 2>&1 | tail -1)
git -C /repo worktree remove --force "$SV"; rm -rf "$SV"
# run the checks against the change applied to /repo itself
git -C /repo apply "$OUT/patch.diff" || { echo "PATCH DOES NOT APPLY TO /repo"; exit 1; }
FIRED=""
for p in C02 C03 C04 C05 C06 C07 C08 C09 C10 C11 C12 C13 C14 C15 C16 C17 C18 C19 C20; do
  (cd /verif && QSA_NOWRITE=1 ./check $p --tier quick > /tmp/seed_chk_${NAME}_$p.log 2>&1); rc=$?
  if [ $rc -ne 0 ]; then FIRED="$FIRED $p:$rc"; fi
done
git -C /repo checkout -- . ; git -C /repo status --short | grep -v '^??' | head -3
echo "SEED $NAME: demo_without=$D0 demo_with=$D1 tests='$T' fired=[$FIRED ]"
cat > "$OUT/result.txt" <<EOF
demo exit without change: $D0
demo exit with change: $D1
test suite with change: $T
checks raising (id:exit) on the change: $FIRED
EOF
