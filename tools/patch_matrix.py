#!/venv/bin/python
"""tools/patch_matrix.py benign|seeded [PID ...]: run every quick check against scratch copies of /repo/src
with each stored patch applied (never touches /repo; scratch copies live under $TMPDIR and are removed).

benign/<PID>/patchN.diff : every check must exit 0 (anything else is a false alarm / unrecognised idiom)
seeded/<PID>/patch.diff  : the check of <PID> must exit 1
"""
import glob
import os
import shutil
import subprocess
import sys
import tempfile
from concurrent.futures import ProcessPoolExecutor

sys.path.insert(0, "/verif")
PIDS = [f"C{i:02d}" for i in range(2, 21)]
if os.environ.get("PM_CHECKS"):  # restrict the checks that are run (e.g. PM_CHECKS="C02 C06"), for a quick regression of new rules
    PIDS = os.environ["PM_CHECKS"].split()


def job(args):
    kind, owner, patch, pid = args
    os.environ["QSA_NOWRITE"] = "1"
    from qsa.cli import run_property

    tmp = tempfile.mkdtemp(prefix="qsa-pm-")
    try:
        shutil.copytree("/repo/src", os.path.join(tmp, "src"))
        r = subprocess.run(["git", "apply", "--include=src/*", patch], cwd=tmp, capture_output=True, text=True)
        if r.returncode != 0:
            return kind, owner, patch, pid, -1, r.stderr[:200]
        code, ledger, msg = run_property(pid, tmp, "quick", 0, quiet=True, write_files=False)
        detail = ""
        if code != 0 and ledger is not None:
            detail = "; ".join(sorted({f"{o.rule}:{o.construct}" for o in ledger.obligations if o.status == "violation"}))[:300]
        if code == 2:
            detail = (msg or "")[:300]
        return kind, owner, patch, pid, code, detail
    finally:
        shutil.rmtree(tmp, ignore_errors=True)


def main():
    kind = sys.argv[1]
    owners = sys.argv[2:] or sorted(os.path.basename(d) for d in glob.glob(f"/verif/{kind}/C*"))
    jobs = []
    for o in owners:
        pats = sorted(glob.glob(f"/verif/{kind}/{o}/patch*.diff"))
        for p in pats:
            for pid in PIDS:
                jobs.append((kind, o, p, pid))
    res = {}
    with ProcessPoolExecutor(max_workers=16) as ex:
        for kind_, o, p, pid, code, detail in ex.map(job, jobs, chunksize=1):
            res.setdefault((o, os.path.basename(p)), {})[pid] = (code, detail)
    bad = 0
    for (o, p), row in sorted(res.items()):
        fired = {pid: cd for pid, cd in row.items() if cd[0] != 0}
        if kind == "benign":
            ok = not fired
        else:
            ok = row.get(o.split("-")[0], (0, ""))[0] == 1
        bad += not ok
        print(f"{'ok  ' if ok else 'BAD '} {kind}/{o}/{p}: " + (" ".join(f"{pid}:{cd[0]}" for pid, cd in sorted(fired.items())) or "silent"))
        if not ok or "-v" in os.environ.get("PM_FLAGS", ""):
            for pid, cd in sorted(fired.items()):
                print(f"       {pid}: {cd[1]}")
    print(f"{len(res)} patches, {bad} not as expected")
    return 1 if bad else 0


if __name__ == "__main__":
    sys.exit(main())
