import json, os, re
STYLE = "smallest possible change: a single token or line (operator, comparison, sign, index, constant, keyword argument, default, swapped arguments, dropped copy, one moved/deleted statement) in any function that takes part in the property; at most 3 changed lines, no camouflage"
info = {
 "C02-5": ("Canonical.validate_simulation tests the NaN baseline with `is np.nan` instead of np.isnan: a NaN that is not the singleton (restart file) is never replaced", "restart of a prepared, never-run simulation (JSON gives a fresh NaN float)", "C02 silent (C04 E2/E4 caught)", "C02 rule E (reference energy E_old on the abstract heap: first trial and after every completed trial)"),
 "C03-5": ("`move.to_add_atoms = None` indented into `if len(indices):` in the composite insertion branch", "composite insertion, a constituent vetoed for all attempts, the same move used alone afterwards", "caught as built", "C03 U4"),
 "C04-5": ("Canonical.validate_simulation calls super() first: last_results captured by reference before the starting energy is evaluated", "first run(), calculator holding results of another configuration, rejection before any acceptance", "caught as built", "C04 E1/E2"),
 "C05-5": ("composite deletion subtracts len(np.unique(deleted_indices)) (atoms) instead of labels (particles)", "composite exchange move, molecular species, accepted deletion", "caught as built", "C05 B3"),
 "C06-5": ("forced-move slots drawn with np.random.choice", "move with minimum_count >= 1", "caught as built", "C06 G1"),
 "C07-5": ("ExchangeContext.to_dict writes self.atoms.cell.volume under 'accessible_volume'", "accessible volume different from the cell volume, restart", "missed as built", "C07 T4 / C08 S5: the value written under a slot's key must read that slot"),
 "C08-5": ("DisplacementMove.to_dict writes default_label only `if self.default_label:`", "default_label == 0", "caught as built", "C08 S4 conditional"),
 "C09-5": ("add_move sums a SET comprehension of minimum counts", "two stored moves with equal non-zero minimum_count", "caught as built", "C09 M5"),
 "C10-5": ("Translation subtracts get_center_of_mass(indices) instead of the centroid", "group with unequal masses", "caught as built", "C10 G3"),
 "C11-5": ("BaseMove.__add__: `type(self) is type(other)` in the composite branch", "single + composite", "caught as built", "C11 D6 / C17 A2"),
 "C12-5": ("vetoed attempt restores only the moving rows", "FixCom and a check_move that vetoes", "caught as built", "C12 K1"),
 "C13-5": ("read-back through atoms.get_velocities() (divides by the atoms' masses, not shaped_masses)", "update_masses with masses different from atoms.get_masses()", "analysis-error as built", "C13 B applied (get_velocities modelled as momenta / masses on the atoms); C12 K3 accepts it as a constraint-filtered read-back"),
 "C14-5": ("first set_momenta of the refresh gets apply_constraint=False", "forced=True with a momentum constraint", "caught as built", "C14 MB[forced]"),
 "C15-5": ("_startup_done = True moved inside `if self.default_logger:`", "no logfile, leading run(0), another observer", "caught as built", "C15 O3"),
 "C16-5": ("truncate() moved after write_json", "restart file opened in 'a' mode", "caught as built", "C16 W4/W5"),
 "C17-5": ("CompositeMove.__add__: isinstance(self, type(other))", "specialised composite + plain mixed composite", "caught as built", "C17 A2"),
 "C18-5": ("forces variation coefficient divides by mean(F) instead of mean(|F|)", "committee whose mean force is negative or near zero", "missed as built", "C18 R6 (structural sign analysis: every scheme returns a non-negative coefficient)"),
 "C19-5": ("new_array[~mask] = array", "non-ascending index list", "caught as built", "C19 R1"),
 "C20-5": ("add_move: `if not criteria:`", "explicit user criteria that is falsy (defines __len__)", "caught as built, imprecisely (isinstance outside the `criteria is None` guard)", "C20 P1 truthiness of objects given to add_move / held by the move table"),
}
log=open('/tmp/pm_seeded5.log').read() if os.path.exists('/tmp/pm_seeded5.log') else ""
for name,(clause,needs,asbuilt,caught) in info.items():
    d=f"/verif/seeded/{name}"
    if not os.path.isdir(d):
        print("missing", name); continue
    res=open(d+"/result.txt").read().strip().splitlines() if os.path.exists(d+"/result.txt") else []
    pid=name.split("-")[0]
    m=re.search(rf"seeded/{name}/patch.diff: (.*)\n((?:       .*\n)*)", log)
    fired=m.group(1) if m else ""
    own=""
    if m:
        for ln in m.group(2).splitlines():
            if ln.strip().startswith(pid+":"):
                own=ln.strip()[:240]
    meta={"breaks_property":pid,"round":5,"focus_given":STYLE,"clause":clause,"needs_to_manifest":needs,
          "source":"independent sub-agent given only the property text and a scratch worktree, asked for the smallest possible change",
          "confirmed_by_me":{"how":"tools/seed_confirm.sh: fresh scratch worktree of /repo HEAD; demo without the change, demo with the change, full test suite with the change (a failure confined to the two unseeded, known-flaky ensemble tests is re-run once and both results recorded); checks run by tools/patch_matrix.py on scratch copies","result":res},
          "as_built":asbuilt,"caught_by":caught,"checks_firing_now":fired,"own_check_reports":own}
    json.dump(meta,open(d+"/meta.json","w"),indent=1,ensure_ascii=False)
print("ok")
