#!/venv/bin/python
"""tools/gen_rules_section.py: regenerate DESIGN.md §9.6 (rules as built) from evidence/<id>.json (coverage.rules, obligations_by_rule)."""
import json, os, re
HERE = os.path.dirname(os.path.dirname(os.path.abspath(__file__)))
out = ["### 9.6 Rules as built (generated from the evidence files; the authoritative text is `coverage.rules` in `evidence/<id>.json`)", "",
       "Each check declares its rules before it decides them; a rule with zero instances fails the run (instance floors).  The list below is what",
       "every run decides; the thorough tier uses larger scenario spaces / tree bounds and adds the self-test (catalogue variants, stored",
       "refactorings that must stay silent, stored breaking changes that must be reported).  Regenerate with `tools/gen_rules_section.py`.", ""]
for n in range(2, 21):
    pid = f"C{n:02d}"
    d = json.load(open(os.path.join(HERE, "evidence", pid + ".json")))
    c = d["coverage"]
    by = c.get("obligations_by_rule", {})
    st = c.get("checker_self_test", {})
    out.append(f"**{pid}** ({c.get('obligations')} obligations in the {d.get('tier')} tier" + (f"; self-test {st.get('as_expected')}/{st.get('applied')} variants as expected" if st else "") + ")")
    out.append("")
    for r, text in c.get("rules", {}).items():
        k = by.get(r)
        k = k.get("total") if isinstance(k, dict) else k
        out.append(f"- `{r}` — {text}" + (f" ({k} obligations)" if k is not None else ""))
    out.append("")
p = os.path.join(HERE, "DESIGN.md")
s = open(p).read()
i = s.index("### 9.6 Rules as built")
j = s.index("### 9.7 State at the end of the build")
open(p, "w").write(s[:i] + "\n".join(out) + "\n" + s[j:])
print("regenerated", len(out), "lines")
