#!/venv/bin/python
"""tools/memosites.py [--patch FILE] : list the memo sites qsa.memo finds (clean tree or a scratch copy with a patch)."""
import os, shutil, subprocess, sys, tempfile
sys.path.insert(0, "/verif")
from qsa.loader import Program
from qsa import memo
args = sys.argv[1:]
repo = "/repo"; tmp = None
if "--patch" in args:
    p = os.path.abspath(args[args.index("--patch") + 1])
    tmp = tempfile.mkdtemp(prefix="qsa-ms-"); shutil.copytree("/repo/src", tmp + "/src")
    subprocess.run(["git", "apply", "--include=src/*", p], cwd=tmp, check=True); repo = tmp
try:
    prog = Program(repo)
    for s in memo.find_sites(prog):
        print(f"{s.construct} @{s.line} guard=`{s.guard[:70]}` keys={s.keys}")
        print("    deps:", sorted({d.text + ('(len)' if d.under_len else '') for d in s.deps})[:14])
        for d, h in s.uncovered:
            print("    UNCOVERED", d, "--", h)
finally:
    if tmp: shutil.rmtree(tmp)
