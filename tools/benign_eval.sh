#!/bin/bash
# tools/benign_eval.sh <PID>: apply each behaviour-preserving refactoring produced for <PID> to /repo, run every
# quick check (evidence not rewritten), undo. Any non-zero exit is a false alarm (1) or an unrecognised idiom (2).
PID="$1"
SRC=/tmp/wb_$PID/refactor_out
OUT=/verif/benign/$PID
mkdir -p "$OUT"
cp "$SRC"/patch*.diff "$SRC"/notes.md "$OUT"/ 2>/dev/null
for pf in "$OUT"/patch*.diff; do
  n=$(basename "$pf" .diff)
  git -C /repo apply "$pf" || { echo "BENIGN $PID/$n: PATCH DOES NOT APPLY"; continue; }
  FIRED=""
  for p in C02 C03 C04 C05 C06 C07 C08 C09 C10 C11 C12 C13 C14 C15 C16 C17 C18 C19 C20; do
    (cd /verif && QSA_NOWRITE=1 ./check $p --tier quick > /tmp/ben_${PID}_${n}_$p.log 2>&1); rc=$?
    if [ $rc -ne 0 ]; then FIRED="$FIRED $p:$rc"; fi
  done
  git -C /repo checkout -- .
  echo "BENIGN $PID/$n: fired=[$FIRED ]"
done
