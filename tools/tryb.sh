#!/bin/bash
# tools/tryb.sh <dir-under-/verif> <patchfile> <check ids...> : apply a stored patch to /repo, run the given quick checks without rewriting evidence, undo
D="$1"; P="$2"; shift 2
git -C /repo apply "/verif/$D/$P" || exit 1
for c in "$@"; do (cd /verif && QSA_NOWRITE=1 ./check $c 2>&1 | grep -v "^\[.*instances\|KNOWN-FINDING" | head -4 | cut -c1-260); done
git -C /repo checkout -- .
