import json, os, re
focus=json.load(open('/verif/tools/focus_round4.json'))
info = {
 "C02-4": ("isotension strain helper multiplies inv(old)·cur instead of cur·inv(old) (transposed deformation gradient) inside a criteria clean-up", "isotension run with a non-symmetric deformation (shape move) and non-hydrostatic stress", "caught as built", "C02 (strain formula by value numbering)"),
 "C03-4": ("reinsert_atoms helper writes the restored rows through a boolean mask (ascending order) instead of the index array", "rejected composite deletion whose indices were not collected in ascending order", "caught as built", "C03 UL / C19 R1"),
 "C04-4": ("calculator copy re-synchronised through set_positions (its constraints act) inside a hook refactoring of Canonical/Isobaric", "FixAtoms + apply_constraints=False move, rejected trial", "caught as built", "C04 E3"),
 "C05-4": ("on_atoms_changed only delivered when the NET particle change is non-zero (new has_exchange property + _notify_moves helper, two files)", "accepted composite trial that inserts and deletes with zero net change", "caught as built", "C05 B1/B3"),
 "C06-4": ("forced moves laid out in the iteration order of `due.keys() & minimum.keys()` (a set of str: PYTHONHASHSEED)", "two or more forced moves due at the same step", "missed as built", "C06 G4 after set algebra / materialised sets count as hash-ordered iteration"),
 "C07-4": ("append_labels helper appends a new label at the END of unique_labels; from_dict rebuilds it sorted", "default_label smaller than an existing label, accepted insertion, restart", "caught as built", "C07 T7"),
 "C08-4": ("Verlet keeps the time step 'as given' in a second attribute and to_dict writes that one while integrate reads dt", "dt re-assigned on a live integrator, then restart", "missed as built", "C08 S5 live-copy (the serialised attribute must be the one the behaviour reads)"),
 "C09-4": ("add_move sums the minimum counts of the moves DUE at the current step only (shared _scheduled_moves helper)", "move with interval>1 and minimum_count>0, add_move at a step that is not a multiple", "caught as built", "C09 M5"),
 "C10-4": ("deformation gradient symmetrised AFTER the mask was applied (exponential_map helper)", "non-symmetric mask (e.g. upper triangular)", "analysis-error as built", "C10 G4 after the translator learnt fancy-index stores / diag_indices and public operation helpers are seen through"),
 "C11-4": ("reused per-move translation buffer not zeroed on the failure exit", "a displacement whose every attempt was vetoed, then a successful one on another particle", "analysis-error as built", "C11 D1 (persistent-buffer idiom with exit typestate)"),
 "C12-4": ("ForceBias.step applies the constrained displacement with atoms.translate(): adjust_positions never runs (helpers sample_zeta / constrain_displacement extracted around it)", "FixCom and driver masses different from atoms.get_masses()", "caught as built, for the wrong reason (K3 'no set_positions'); the extracted public helpers were not seen through", "C12 K1 unconstrained-translate (ASE writers without adjust_positions computed from the ASE source) + K3"),
 "C13-4": ("(m_min/m)^p cached as self.mass_scaling by the power setter through get_mass_scaling(); update_masses does not refresh it", "update_masses after the last assignment of masses_scaling_power", "fired as built, but on the harmless `self.zeta = self.sample_zeta()` (false reason)", "C13 B stale-mass_scaling (cache definition through an expression method; helper draws seen through)"),
 "C14-4": ("maxwell_boltzmann_distribution returns the kinetic energy measured BEFORE the forced rescaling; refresh_momenta records the returned value as last_kinetic_energy", "HMC move with partial(maxwell_boltzmann_distribution, forced=True)", "analysis-error as built", "C14 KE returned-kinetic-energy (value returned by the refresh = EK of the momenta left on the atoms, when a caller uses it)"),
 "C15-4": ("_startup_done set after the `logger is None` early return of the extracted _write_log_header", "driver without logfile, leading run(0), another positive-interval observer", "caught as built (plus a spurious header-order report caused by sorting inlined statements by line number)", "C15 O3 startup-one-shot"),
 "C16-4": ("RestartObserver rewinds with truncate(0) and seeks back only `if 'a' not in self.mode`", "restart file passed as an open non-append file object while the observer mode stays 'a'", "caught as built", "C16 W4"),
 "C17-4": ("shared plain_composite(head, tail) does `head += tail`: CompositeMove.__add__ passes its own self.moves, the left operand is extended in place", "left operand a composite, mixed-kind fallback, operand reused afterwards", "missed as built", "C17 A1 operand-mutated (interpreter models in-place list +=; every operand must hold the same elements after the expression)"),
 "C18-4": ("update_delta returns early when the new variation coefficient equals the cached one (0.0 from the constructor while delta starts at the midpoint)", "scheme='energy', committee in exact agreement on the first update", "caught as built (plus two spurious reports on the extracted interpolate_delta / local alias)", "C18 R3 every-path"),
 "C19-4": ("_merge_rows writes the removed rows with merged[vacated] = removed (ascending slot order)", "non-ascending index list (composite deletion then revert)", "caught as built", "C19 R1"),
 "C20-4": ("de-duplication of notified moves through a shared unique_moves() helper that uses `move not in unique` (==) instead of id()", "two distinct user moves that compare equal (dataclass)", "missed as built", "C20 P1 __eq__ (collections of user objects tracked: generator of storage.move, Iterable[MoveType] parameters, accumulating lists)"),
}
log=open('/tmp/pm_seeded.log').read() if os.path.exists('/tmp/pm_seeded.log') else ""
for name,(clause,needs,asbuilt,caught) in info.items():
    d=f"/verif/seeded/{name}"
    res=open(d+"/result.txt").read().strip().splitlines() if os.path.exists(d+"/result.txt") else []
    pid=name.split("-")[0]
    m=re.search(rf"seeded/{name}/patch.diff: (.*)\n((?:       .*\n)*)", log)
    fired=m.group(1) if m else ""
    own=""
    if m:
        for ln in m.group(2).splitlines():
            if ln.strip().startswith(pid+":"):
                own=ln.strip()[:240]
    meta={"breaks_property":pid,"round":4,"focus_given":focus.get(pid,""),"clause":clause,"needs_to_manifest":needs,
          "source":"independent sub-agent given only the property text and a scratch worktree, asked to bury the change in a behaviour-preserving refactoring",
          "confirmed_by_me":{"how":"tools/seed_confirm.sh: fresh scratch worktree of /repo HEAD; demo without the change, demo with the change, full test suite with the change; checks run by tools/patch_matrix.py on scratch copies","result":res},
          "as_built":asbuilt,"caught_by":caught,"checks_firing_now":fired,"own_check_reports":own}
    json.dump(meta,open(d+"/meta.json","w"),indent=1,ensure_ascii=False)
print("ok")
