#!/venv/bin/python
"""tools/memo_matrix.py benign|seeded: memo sites (rule M) found on a scratch copy for every stored patch; an opaque site on a benign patch would be a false alarm"""
import glob, os, shutil, subprocess, sys, tempfile
from concurrent.futures import ProcessPoolExecutor
sys.path.insert(0, "/verif")
def job(patch):
    from qsa.loader import Program
    from qsa import memo
    tmp = tempfile.mkdtemp(prefix="qsa-mm-")
    try:
        shutil.copytree("/repo/src", tmp + "/src")
        r = subprocess.run(["git", "apply", "--include=src/*", patch], cwd=tmp, capture_output=True, text=True)
        if r.returncode: return patch, ["DOES NOT APPLY"]
        try:
            sites = memo.find_sites(Program(tmp))
        except Exception as exc:
            return patch, [f"CRASH {exc!r}"]
        return patch, [f"{s.construct} uncovered={[d for d,_ in s.uncovered]}" for s in sites]
    finally:
        shutil.rmtree(tmp, ignore_errors=True)
if __name__ == "__main__":
    kind = sys.argv[1]
    patches = sorted(glob.glob(f"/verif/{kind}/*/patch*.diff"))
    with ProcessPoolExecutor(12) as ex:
        for patch, out in ex.map(job, patches):
            if out: print(patch.replace("/verif/", ""), out)
    print("patches:", len(patches))
