import json, os, re
STYLE = "aliasing, copies or order of evaluation: a dropped/added .copy(), a view instead of a copy, an in-place operation instead of a rebinding, a mutable default or class attribute shared between instances, one object shared by two owners, a snapshot taken after instead of before a mutation; 1-5 changed lines"
info = {
 "C02-6": ("IsotensionCriteria builds S − P·1 with np.asarray(context.external_stress) and an in-place `-=` on its diagonal: the context's stress drifts by −P per evaluated trial", "Isotension with non-zero pressure, stress held as a float ndarray, at least 2 cell trials", "analysis-error as built", "C02 rule W (evaluate() never writes to the context nor changes in place an array sharing storage with a context attribute)"),
 "C03-6": ("HamiltonianContext.revert_state installs last_momenta itself as the atoms' momenta array (no copy)", "two rejections in a row in a Hamiltonian ensemble", "caught as built", "C03 U1"),
 "C04-6": ("Canonical.validate_simulation calls super() first: last_results captured by reference too early", "first run, calculator with results of another configuration, rejection before any acceptance", "caught as built", "C04 E1/E2"),
 "C05-6": ("on_atoms_changed keeps a local `labels = self.labels` across set_labels (which rebinds): the removal branch works on the stale array", "one accepted trial that both adds and removes atoms (generic CompositeMove of opposite exchange moves)", "caught as built", "C05 B1"),
 "C06-6": ("DisplacementMove.default_operation returns one module-level Ball(0.1) instance", "step size tuned in place on one simulation, a second simulation built in the same process", "missed as built", "C06 G5 (shared mutable defaults: qsa/sharing.py)"),
 "C07-6": ("Context.revert_state restores the calculator results with dict.update (in place) instead of rebinding", "restart with a fresh calculator, first step(s) after the restart contain only rejections", "C07 silent (C04 E1/E3 caught)", "C07 T8 (cache independence on the abstract heap, shared with C04 E1/E2)"),
 "C08-6": ("MonteCarlo.from_dict makes a shallow copy of its argument", "the same decoded dictionary used for two rebuilds with a run in between", "missed as built", "C08 S7 (the drivers' from_dict works on a deep copy of its argument)"),
 "C09-6": ("add_move skips the entry being replaced with `s != replaced` (dataclass equality) when summing minimum counts", "two entries that compare equal, then a re-add under one of the names", "caught as built", "C09 M5"),
 "C10-6": ("default mask is one module-level np.ones array stored into every operation", "in-place edit of one operation's mask", "missed as built", "C10 G6 (shared mutable defaults)"),
 "C11-6": ("translation work array allocated once before the retry loop and accumulated in place", "check_move that vetoes an attempt and accepts a later one", "caught as built", "C11 D1"),
 "C12-6": ("ForceBias.step adds the displacement to the live positions array in place and hands the same array to set_positions", "FixCom and shaped_masses different from the atoms' masses", "caught as built", "C12 K3 applied"),
 "C13-6": ("`step_length = self.delta; step_length *= …`: an ndarray delta is rescaled in place on every step", "per-coordinate delta array, unequal masses, non-zero power, two steps", "caught as built", "C13 B"),
 "C14-6": ("Verlet drift computes velocities with np.divide(new_momenta, masses, out=new_momenta)", "apply_constraints=False and masses other than 1", "analysis-error as built", "C14 V after the translator learnt binary ufuncs with out= (the out array holds the result)"),
 "C15-6": ("irun validates and fixes the step bound when it is CALLED and returns an inner generator", "a second irun generator created before the first is iterated", "caught as built", "C15 O2 eager-setup"),
 "C16-6": ("Logger builds its row in a class-level scratch list shared by all loggers, cleared only after the write", "a logger call that raises part-way and is handled", "missed as built", "C16 W6 (class-level mutable changed in place through a local alias)"),
 "C17-6": ("CompositeMove.__add__ builds the plain composite on self.moves itself and extends it in place", "both operands composites of different types, left operand reused", "caught as built", "C17 A1 operand-mutated"),
 "C18-6": ("exp_update takes np.asarray(v, dtype=float) and scales it with `*=`", "update_function='exp', per-coordinate float variance used again afterwards", "missed as built", "C18 R7 (update functions and schemes never change an argument in place)"),
 "C19-6": ("search_molecules takes the supplied default with np.asarray instead of np.array", "ndarray default reused for a second search", "missed as built", "C19 R3 (arguments untouched)"),
 "C20-6": ("MonteCarlo.step initialises is_accepted once before the loop: a falsy move result records the previous verdict", "two trials in a step, a failed move after an evaluated one", "caught as built", "C20 P2"),
}
log=open('/tmp/pm_seeded6.log').read() if os.path.exists('/tmp/pm_seeded6.log') else ""
for name,(clause,needs,asbuilt,caught) in info.items():
    d=f"/verif/seeded/{name}"
    if not os.path.isdir(d):
        print("missing", name); continue
    res=open(d+"/result.txt").read().strip().splitlines() if os.path.exists(d+"/result.txt") else []
    pid=name.split("-")[0]
    m=re.search(rf"seeded/{name}/patch.diff: (.*)\n((?:       .*\n)*)", log)
    fired=m.group(1) if m else ""
    own=""
    if m:
        for ln in m.group(2).splitlines():
            if ln.strip().startswith(pid+":"):
                own=ln.strip()[:240]
    meta={"breaks_property":pid,"round":6,"focus_given":STYLE,"clause":clause,"needs_to_manifest":needs,
          "source":"independent sub-agent given only the property text and a scratch worktree, asked for an aliasing / copy / evaluation-order change",
          "confirmed_by_me":{"how":"tools/seed_confirm.sh: fresh scratch worktree of /repo HEAD; demo without the change, demo with the change, full test suite with the change (a failure confined to the two unseeded, known-flaky ensemble tests is re-run once and both results recorded); checks run by tools/patch_matrix.py on scratch copies","result":res},
          "as_built":asbuilt,"caught_by":caught,"checks_firing_now":fired,"own_check_reports":own}
    json.dump(meta,open(d+"/meta.json","w"),indent=1,ensure_ascii=False)
print("ok")
