#!/bin/bash
# tools/seed_confirm.sh <PID> <NAME> <WORKTREE>: confirm an independently produced breaking change in a fresh scratch
# worktree of /repo HEAD (demo passes without it, fails with it; whole test suite passes with it) and store it under
# /verif/seeded/<NAME>/.  The checks are then run with tools/patch_matrix.py seeded <NAME> (scratch copies; /repo untouched).
PID="$1"; NAME="$2"; WT="$3"
SRC=$WT/seed_out
OUT=/verif/seeded/$NAME
SV=/tmp/sv_$NAME
set -u
mkdir -p "$OUT"
cp "$SRC/patch.diff" "$OUT/patch.diff" || exit 1
DEMO=$(ls "$SRC" | grep -E '^demo.*\.py$' | head -1)
cp "$SRC/$DEMO" "$OUT/$DEMO"; cp "$SRC/notes.md" "$OUT/notes.md" 2>/dev/null
sed -i "s#$WT#$SV#g" "$OUT/$DEMO"
git -C /repo worktree remove --force "$SV" 2>/dev/null; rm -rf "$SV"
git -C /repo worktree add -q --detach "$SV" HEAD || exit 1
run_demo() { (cd "$SV" && export QUANSINO_SRC="$SV/src" && if echo "$DEMO" | grep -q test; then PYTHONPATH="$SV/src" timeout 1200 /venv/bin/python -m pytest -q -p no:cacheprovider -x "$OUT/$DEMO" >/tmp/seed_demo_$NAME.log 2>&1; else PYTHONPATH="$SV/src" timeout 1200 /venv/bin/python "$OUT/$DEMO" >/tmp/seed_demo_$NAME.log 2>&1; fi; echo $?); }
D0=$(run_demo)
git -C "$SV" apply "$OUT/patch.diff" || { echo "PATCH DOES NOT APPLY"; git -C /repo worktree remove --force "$SV"; exit 1; }
D1=$(run_demo)
run_suite() { (cd "$SV" && /venv/bin/python -m pytest -q -rf -p no:cacheprovider --timeout=900 -n 8 > /tmp/seed_suite_$NAME.log 2>&1; tail -1 /tmp/seed_suite_$NAME.log); }
T=$(run_suite)
FAILED=$(grep '^FAILED' /tmp/seed_suite_$NAME.log | sed 's/^FAILED //; s/ - .*//' | tr '\n' ' ')
if [ -n "$FAILED" ]; then
  # the two unseeded ensemble tests are flaky on the unchanged tree as well (BASELINE.json lists one as known-flaky):
  # a failure confined to them is re-run once, both results are recorded
  if ! echo "$FAILED" | tr ' ' '\n' | grep -v '^$' | grep -qv 'test_isotension_simulation_with_mask\|test_isobaric_simulation'; then
    T2=$(run_suite)
    T="$T [failed: $FAILED— unseeded flaky test(s); second run: $T2]"
  else
    T="$T [failed: $FAILED]"
  fi
fi
git -C /repo worktree remove --force "$SV"; rm -rf "$SV"
sed -i "s#$SV#<scratch worktree>#g" "$OUT/$DEMO"
echo "SEED $NAME: demo_without=$D0 demo_with=$D1 tests='$T'"
cat > "$OUT/result.txt" <<EOF
demo exit without change: $D0
demo exit with change: $D1
test suite with change: $T
EOF
