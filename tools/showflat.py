#!/venv/bin/python
"""tools/showflat.py <qualname-suffix> [--patch FILE]: print the normalised form of a function (optionally of a scratch copy with a patch applied)."""
import ast, os, shutil, subprocess, sys, tempfile
sys.path.insert(0, "/verif")
from qsa.loader import Program
from qsa.normalize import flat
args = sys.argv[1:]
pub = "--public" in args
if pub: args.remove("--public")
keep = ()
if "--keep" in args:
    i = args.index("--keep"); keep = tuple(args[i + 1].split(",")); del args[i:i + 2]
patch = None
if "--patch" in args:
    i = args.index("--patch"); patch = os.path.abspath(args[i + 1]); del args[i:i + 2]
repo = "/repo"; tmp = None
if patch:
    tmp = tempfile.mkdtemp(prefix="qsa-sf-"); shutil.copytree("/repo/src", tmp + "/src")
    subprocess.run(["git", "apply", "--include=src/*", patch], cwd=tmp, check=True); repo = tmp
try:
    prog = Program(repo)
    for fi in prog.iter_functions():
        if fi.qualname.endswith(args[0]) and (fi.qualname == args[0] or fi.qualname.endswith("." + args[0]) or "." not in args[0]):
            print("#", fi.qualname); print(ast.unparse(flat(prog, fi, fi.cls, keep=keep, public_methods=pub).node)); print()
finally:
    if tmp: shutil.rmtree(tmp)
