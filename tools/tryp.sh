#!/bin/bash
# tools/tryp.sh <patch> <checks…>: run the given quick checks on a scratch copy of /repo/src with the patch applied
P=$(realpath "$1"); shift
T=$(mktemp -d /tmp/qsa-tp-XXXX); cp -r /repo/src "$T/src"
(cd "$T" && git apply --include='src/*' "$P") || { echo "PATCH DOES NOT APPLY"; rm -rf "$T"; exit 1; }
for p in "$@"; do (cd /verif && QSA_NOWRITE=1 ./check $p --repo "$T" 2>&1 | grep -v "^\[$p\] \(note\|instances\|known\|KNOWN\)" | grep -v "^KNOWN-FINDING" | head -${TRYP_LINES:-6}); done
rm -rf "$T"
