#!/venv/bin/python
"""Regenerate /verif/MANIFEST.json from the table below (single source of truth)."""
import json, os, sys
HERE = os.path.dirname(os.path.dirname(os.path.abspath(__file__)))
sys.path.insert(0, HERE)
from qsa.manifest_table import CLAIMS, NOT_APPLICABLE  # noqa: E402

checks = []
for pid, c in sorted(CLAIMS.items()):
    if not os.path.exists(os.path.join(HERE, "qsa", "props", pid.lower() + ".py")):
        NOT_APPLICABLE.setdefault(pid, "check not yet built in this revision (planned, see DESIGN.md section 4)")
        continue
    checks.append({
        "property_id": pid,
        "quick_cmd": f"./check {pid} --tier quick",
        "thorough_cmd": f"./check {pid} --tier thorough",
        "evidence_file": f"evidence/{pid}.json",
        "replay_cmd_template": f"./check {pid} --replay {{path}}",
        "engine": "qsa",
        "level_claimed": {"category": "other", "text": c["text"], "design_ref": c.get("design_ref", f"DESIGN.md §4/{pid}")},
        "level_note": c["note"],
        "technique": c["technique"],
    })
for line in open(os.path.join(HERE, "properties.jsonl")):
    pid = json.loads(line)["id"]
    if pid not in NOT_APPLICABLE and not any(c["property_id"] == pid for c in checks):
        NOT_APPLICABLE[pid] = "check not yet built in this revision (planned, see DESIGN.md section 4)"
manifest = {
    "version": 1,
    "setup_cmd": "./setup.sh",
    "hooks": {
        "guard": "QUANSINO_VERIF",
        "enable": "none needed: the checks read /repo/src/quansino as source text (ast); no instrumentation exists in the repository",
        "baseline_off_cmd": "cd /repo && /venv/bin/python -m pytest -ra -q -p no:cacheprovider --timeout=900 --continue-on-collection-errors",
        "source_commits": [],
        "add_only": True,
    },
    "engines": [{
        "name": "qsa",
        "path": "qsa/",
        "serves_properties": [c["property_id"] for c in checks],
        "kind_free_text": "repository-specific static analyser: ast parse of src/quansino, resolved classes/MRO/imports/call targets, statement CFGs, effect summaries, finite case analysis, sympy normal forms of straight-line formulas; nothing from quansino is imported or run",
    }],
    "checks": checks,
    "not_applicable": [{"property_id": k, "reason": v} for k, v in sorted(NOT_APPLICABLE.items())],
    "notes": "exit 0 = all obligations discharged (KNOWN-FINDING lines for listed findings); exit 1 = VIOLATION line(s) naming a construct; exit 2 = ANALYSIS-ERROR (anchor vanished / construct outside the recognised fragment / instance floor / checker crash) — never a silent pass, never a violation. known findings: known_findings.json.",
}
with open(os.path.join(HERE, "MANIFEST.json"), "w") as fh:
    json.dump(manifest, fh, indent=1)
print(f"MANIFEST.json: {len(checks)} checks, {len(manifest['not_applicable'])} not applicable")
