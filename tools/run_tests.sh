#!/bin/bash
# Run quansino's pinned suite in parallel (for validating fix: commits); cleans stray outputs.
cd /repo && /venv/bin/python -m pytest -q -p no:cacheprovider --timeout=900 -n 14 "$@" 2>&1 | tail -15
rm -f /repo/test_isotension_simulation.xyz /repo/test_isotension_simulation_with_mask.xyz
