#!/venv/bin/python
"""tools/mk_prompts.py benign|seed <round-tag> <PID>...: write the task text handed to an independent sub-agent into
/tmp/prompts_<tag>/<PID>.txt.  The text contains only the property (title, statement, quantifier, code areas) and the
location of the agent's own scratch worktree /tmp/<wb|wt><tag>_<PID>; nothing from /verif."""
import json, os, sys
kind, tag, pids = sys.argv[1], sys.argv[2], sys.argv[3:]
focus = {}
style_txt = ""
if "--style" in pids:  # --style "extra sentence for the benign prompt"
    i = pids.index("--style"); style_txt = pids[i + 1].rstrip() + " "; del pids[i:i + 2]
if "--focus" in pids:  # --focus FILE: json {PID: "quoted clause(s) of the property's own statement to aim at"}
    i = pids.index("--focus"); focus = json.load(open(pids[i + 1])); del pids[i:i + 2]
props = {json.loads(l)["id"]: json.loads(l) for l in open("/verif/properties.jsonl")}
out = f"/tmp/prompts_{tag}"; os.makedirs(out, exist_ok=True)
HEAD = ("You are helping test a verification effort for the Python package quansino (Monte Carlo simulations on ASE). You have your own scratch git worktree of the repository at {wt} "
        "(work ONLY there; never touch /repo or /verif; do not read anything under /verif). Python with all dependencies is /venv/bin/python; run scripts against your worktree with "
        "`cd {wt} && PYTHONPATH={wt}/src /venv/bin/python script.py`, and the existing test suite with `cd {wt} && /venv/bin/python -m pytest -q -p no:cacheprovider -n 6 --timeout=900` "
        "(1-3 minutes; pytest's config puts the worktree's src first on sys.path).\n\n")
for pid in pids:
    d = props[pid]
    wt = f"/tmp/{'wb' if kind == 'benign' else 'wt'}{tag}_{pid}"
    areas = ", ".join(d["anchors"]["files"])
    mech = "; ".join(f"{m['name']} @ {m['where']}" for m in d["anchors"].get("mechanism", []))
    focus_txt = (f"AIM AT THIS PART of the statement: {focus[pid]}. " if pid in focus else "")
    if kind == "benign":
        txt = HEAD.format(wt=wt) + f"""The package satisfies this semantic property, and it must KEEP satisfying it:

TITLE: {d['title']}
STATEMENT: {d['statement']}
CODE AREAS INVOLVED: {areas}
MECHANISMS: {mech}

Your task: produce THREE independent, realistic, BEHAVIOUR-PRESERVING refactorings of the code that implements this property — the kind of clean-up a maintainer would merge: renaming locals, introducing or removing temporaries, extracting a small helper method/function, reordering independent statements, if/else versus early return, an equivalent numpy/python idiom (np.zeros vs np.full(…,0.0), a loop versus a comprehension, `x is not None` forms, re-associated arithmetic, splitting a long expression), moving a computation into a private helper in the same module, etc. Each refactoring must (a) really change the shape of the code in the listed areas that carry the property (not comments/docstrings/whitespace only, not unrelated code), (b) keep the observable behaviour and the property exactly true (same results, same random-number consumption in the same order, same files written, same exceptions), (c) keep the whole existing test suite passing. Make the three different in kind and touch different functions where possible. {style_txt}Do not touch the tests.

Deliver, all inside {wt}/refactor_out/ : patch1.diff, patch2.diff, patch3.diff — each the `git diff` of ONE refactoring against the UNCHANGED tree (produce them one at a time: make the change, run the full test suite, save `git -C {wt} diff > refactor_out/patchN.diff`, then `git -C {wt} checkout -- src` before the next one), plus notes.md saying for each patch what was changed, why behaviour is preserved, and the test-suite result. Each patch must apply to the unchanged tree with `git apply`. Leave the worktree with NO source change applied. In your final answer give a short summary of the three refactorings and their test results."""
    else:
        txt = HEAD.format(wt=wt) + f"""The package is supposed to satisfy this semantic property:

TITLE: {d['title']}
STATEMENT: {d['statement']}
QUANTIFIED OVER: {d['quantifier']['text']}
CODE AREAS INVOLVED: {areas}

Your task: produce ONE realistic change to the source under {wt}/src/quansino (the kind of change a developer could plausibly make: a refactoring slip, an 'optimisation', an off-by-one, a changed default, a reordered statement, a dropped or duplicated call, a wrong variable, a cached value that goes stale, a condition that is right for the common case only, two sites that each look fine alone but disagree) that BREAKS this property, while the package still imports and the WHOLE existing test suite still passes. {style_txt}{focus_txt}The statement has several clauses: prefer breaking one of the LESS obvious clauses, at a site other than the most obvious function, and prefer a change that needs something specific to manifest (a particular sequence of operations, an unusual but legal input, a particular accept/reject/fail history, a crash or fault at a particular point, a non-default configuration, two cooperating sites) rather than one that ordinary use would expose at once. The change may be disguised as a refactoring (helper extracted, code moved) as long as behaviour really changes. Do not touch the tests. Keep the change small (a few lines, one or two files).

Deliver, all inside {wt}/seed_out/ :
1. patch.diff — `git -C {wt} diff` of your source change only (must apply to the unchanged tree with `git apply`).
2. demo.py (or demo_test.py) — a small self-contained program that exits non-zero / fails WITH your change applied and exits 0 / passes WITHOUT it (run it both ways to confirm: `git diff > seed_out/patch.diff; git apply -R seed_out/patch.diff` … `git apply seed_out/patch.diff`; never use `git stash` — the stash is shared between worktrees — and never pkill/killall). It should use the public API of the package (ASE's EMT or LennardJones calculators are available offline) and print what it observed.
3. notes.md — which clause of the property the change breaks, what is needed for it to manifest, and the exact commands you ran with their outcome (test suite result with the change; demo result with and without the change).

Confirm before finishing: (a) the full existing test suite passes with the change applied, (b) the demo fails with the change and passes without it. Leave the worktree with your change APPLIED to the source and the seed_out directory filled in. In your final answer give a 5-line summary (what you changed, which clause breaks, what it needs to manifest, test-suite result, demo results)."""
    open(f"{out}/{pid}.txt", "w").write(txt)
    print(f"{out}/{pid}.txt", wt)
