import json, os
STYLE = "the break must come from TWO cooperating edits at two different sites (helper and caller, base class and override, producer and consumer of a stored value, a default and the code relying on it); each edit alone leaves the property true"
info = {
 "C02-8": ("Isobaric.__init__ stores the pressure only when it is truthy; DeformationContext's default pressure becomes 1 bar (a first candidate - default criteria tables of Canonical/HamiltonianCanonical - failed tests/mc/test_canonical.py::test_hamiltonian_canonical on re-confirmation and was discarded; rule C02 T written for it is kept)", "Isobaric/Isotension with pressure=0", "missed as built", "C02 P: a constructor parameter that is stored only under a truth test must fall back on the same value the context holds by default"),
 "C03-8": ("ExchangeContext.revert_state resets only when _added_atoms/_deleted_atoms are non-empty; the composite no longer fills _added_atoms", "rejected composite insertion, then any trial", "caught as built", "C03 U4"),
 "C04-8": ("Context.__init__ adopts calc.results as last_results; validate_simulation adopts results only when last_results is empty", "calculator carrying results of another configuration when the driver is built, first trial rejected", "caught as built", "C04 E1/E2/E3"),
 "C05-8": ("composite records _added_atoms from the last sub-move only; GrandCanonical.save_state skips the notification walk when nothing was recorded", "composite insertion whose last sub-move fails after an earlier one succeeded, accepted", "caught as built", "C05 B1"),
 "C06-8": ("attempt_displacement stores the context on the move; __call__ draws the label from getattr(self,'context',context).rng", "one move object reused by a second simulation", "caught as built", "C06 G2"),
 "C07-8": ("CompositeExchangeMove takes its bias from the first constituent; to_dict writes the bias only when it differs from 0.5", "composite bias 0.5 with a constituent bias ≠ 0.5, restart", "missed as built", "C07 T9: every component that can appear in a restart file writes its state unconditionally (or under a lossless guard)"),
 "C08-8": ("same pair of sites as C07-8 (independently found)", "round trip of such a composite", "caught as built", "C08 S4"),
 "C09-8": ("over-commitment sum skips the entry being replaced; add_move renames instead of replacing when the name exists", "add_move twice under one name with minimum counts exceeding the cycles", "caught as built", "C09 M5"),
 "C10-8": ("DisplacementMove stores a boolean mask as _moving_indices; Translation computes the centroid as sum/len(indices)", "translation of a proper subset of the atoms through DisplacementMove", "fired for the wrong reason as built (the sum/len half alone was reported too: false alarm, repaired)", "C10 G3: sum/len(index) centroid accepted iff every producer of _moving_indices hands over integer indices"),
 "C11-8": ("composite honours a pre-selected target label; register_success records the drawn candidate instead of the displaced label", "composite displacement with to_displace_labels pre-set by the caller", "analysis-error as built (exit 2)", "C11 D4: pre-selected targets modelled - the recorded label must be the one displaced"),
 "C12-8": ("displacement read from a local instead of get_momenta(); positions assigned through atoms.positions", "FixAtoms / FixCom under ForceBias", "caught as built", "C12 K3"),
 "C13-8": ("min_mass cached in update_masses; the masses_scaling_power setter refreshes shaped_masses without it", "masses_scaling_power changed after construction", "analysis-error as built (exit 2)", "C13 B: cached definitions followed through stored names; every writer of a cache's sources must refresh it"),
 "C14-8": ("maxwell_boltzmann_distribution returns the kinetic energy taken before the forced rescale; the move records the returned value", "distribution with forced=True", "caught as built", "C14 KE"),
 "C15-8": ("start-up guard reduced to `not _startup_done`; Driver.run ends with `_startup_done = step_count == 0`", "ForceBias run(k>0) followed by another run/irun", "missed as built", "C15 O3: writers of the guard's flags outside irun may not re-arm the block (finite evaluation over flag × step-count states)"),
 "C16-8": ("file setter rewinds path-opened restart files; __call__ truncates only `if tell()`", "'a' mode on an existing non-empty restart file", "caught as built", "C16 W4/W5"),
 "C17-8": ("composite+composite branch uses isinstance(other, type(self)); CompositeExchangeMove derives from CompositeDisplacementMove", "(d1+d2)+(e1+e2)", "fired as built, but with a wrong expectation (the subclassing half alone was reported too: false alarm, repaired)", "C17 A2: the specialised composite of an element class is the one its constructor declares (composite_move_type), not only the subscripted base"),
 "C18-8": ("helper returns self.delta uncopied when the mass power is zero; step scales the helper's value in place", "masses_scaling_power = 0 with an array delta (forces scheme)", "missed as built", "C18 R8: no in-place change of a local that may be the stored delta"),
 "C19-8": ("reinsert_atoms sorts the indices and permutes new_atoms; the masses are read before the permutation", "unsorted deletion indices with differing masses", "analysis-error as built (exit 2)", "C19 R1: permutation terms in the row tracker - every per-row source must carry the same permutation as the indices"),
 "C20-8": ("Isobaric.save_state compares after super().save_state() with an alias of last_cell taken before; DeformationContext refreshes last_cell in place", "Isobaric / Isotension, accepted cell move, a move using on_cell_changed", "C20 silent (C04 E2 fired on the in-place half alone: false alarm, repaired in absim)", "C20 P3 guard: the comparison deciding the notification must see the pre-trial saved cell (alias + in-place refresh = never notified)"),
}
for name,(clause,needs,asbuilt,caught) in info.items():
    d=f"/verif/seeded/{name}"
    if not os.path.isdir(d):
        print("missing", name); continue
    res=open(d+"/result.txt").read().strip().splitlines() if os.path.exists(d+"/result.txt") else []
    pid=name.split("-")[0]
    meta={"breaks_property":pid,"round":8,"focus_given":STYLE,"clause":clause,"needs_to_manifest":needs,
          "source":"independent sub-agent given only the property text and a scratch worktree, asked for two cooperating edits that are each harmless alone",
          "confirmed_by_me":{"how":"tools/seed_confirm.sh: fresh scratch worktree of /repo HEAD; demo without the change, demo with the change, full test suite with the change; own check run with tools/tryp.sh on a scratch copy","result":res},
          "as_built":asbuilt,"caught_by":caught}
    json.dump(meta,open(d+"/meta.json","w"),indent=1,ensure_ascii=False)
print("ok")
