import json, os, re
STYLE = "the change must only matter for a boundary or degenerate but legal input (empty selection, single particle, zero steps, negative interval, probability 0, all-False mask, n = 1, empty composite, label 0, seed 0, equal bounds); 1-4 changed lines"
info = {
 "C02-7": ("isotension volumes taken from np.linalg.det(cell) (signed) instead of cell.volume (absolute)", "left-handed cell (negative determinant), non-zero pressure or stress", "analysis-error as built", "C02 F: determinants of the cells are bound to ±V (signed volumes), also through a local that names the cell array"),
 "C03-7": ("ExchangeMove.register_failure delegates to the parent, which clears to_displace_labels, not to_delete_label", "a pre-selected deletion label that no atom carries", "caught as built", "C03 U4"),
 "C04-7": ("revert_state restores `last_results or calc.results` (an empty remembered dict keeps the rejected trial's results)", "restart with a fresh calculator, rejection before the first acceptance", "caught as built", "C04 E1"),
 "C05-7": ("composite deletion subtracts len(self.moves) instead of the number of deleted particles", "a constituent with nothing left to delete", "caught as built", "C05 B3"),
 "C06-7": ("ForceBias.__init__ forwards the seed only `if seed:`", "seed = 0 with ForceBias / AdaptiveForceBias", "missed as built", "C06 G3: a seed is never truth-tested, in any function that accepts one"),
 "C07-7": ("BaseMove.from_dict replays stored attributes only `if value:`", "default_label = 0 (or max_attempts = 0), restart, accepted insertion", "missed as built", "C07 T4 restore-unfiltered: setattr replay loops of every from_dict are not guarded by the truth value of the stored value"),
 "C08-7": ("MoveStorage.from_dict clamps the stored interval with max(interval, 1)", "a negative interval (legal: step % -3 == 0 selects the same steps)", "missed as built", "C08 S8: inside from_dict an entry of the keyword dictionary is only ever replaced by the component rebuilt from it"),
 "C09-7": ("due list also requires probability > 0", "a forced-only move (probability 0, minimum_count >= 1)", "caught as built", "C09 M2"),
 "C10-7": ("`mask is not None and np.any(mask)`: an explicit all-False mask is replaced by the all-True default", "mask = all False", "missed as built", "C10 G4 given-mask: finite case analysis of the constructor — only `mask is None` may select the default"),
 "C11-7": ("composite returns any(self.displaced_labels): a displaced label 0 counts as nothing", "the only displaced particle has label 0", "caught as built", "C11 D4 result"),
 "C13-7": ("zero-denominator fallback decided per atom (np.all over the coordinate axis) instead of per coordinate", "an atom with one exactly-zero force component", "caught as built", "C13 ρ zero-denominator"),
 "C14-7": ("maxwell_boltzmann_distribution returns early when temperature <= 0", "T = 0 with atoms that carry momenta", "caught as built", "C14 KE (momenta not refreshed before integration on that path)"),
 "C15-7": ("_startup_done set in the step loop instead of the start-up block", "a leading zero-length call", "caught as built", "C15 O3"),
 "C16-7": ("restart rewind only `if self.interval > 0`", "negative one-shot interval, 'a' mode, file that already holds a document", "caught as built", "C16 W4"),
 "C17-7": ("CompositeOperation.__add__ uses `getattr(other, 'operations', None) or [other]`: an EMPTY composite operand is kept as an element", "right operand an empty CompositeOperation", "missed as built", "C17 A1: the empty composite is one of the operand kinds of the exhaustive tree enumeration (operations family)"),
 "C18-7": ("update_delta assigns delta only `if max_delta > min_delta`", "bounds made equal after construction", "caught as built", "C18 R3 every-path"),
 "C19-7": ("reinsert_atoms takes the removed arrays over as they are when no atom was left", "the whole system deleted with a non-ascending index list", "analysis-error as built", "C19 R1 special-case arms: an undecidable branch in the array loop is followed on both arms; what each arm stores must be a rebuilt array with the index scatter"),
 "C20-7": ("due list also requires probability > 0 (same site as C09-7, demonstrated with protocol-only components)", "forced-only user move", "C20 silent (C09 M2 caught)", "C20 P5: the scheduler rules M1–M3 of C09 are part of 'where it is executed'"),
}
log=open('/tmp/pm_seeded7.log').read() if os.path.exists('/tmp/pm_seeded7.log') else ""
for name,(clause,needs,asbuilt,caught) in info.items():
    d=f"/verif/seeded/{name}"
    if not os.path.isdir(d):
        print("missing", name); continue
    res=open(d+"/result.txt").read().strip().splitlines() if os.path.exists(d+"/result.txt") else []
    pid=name.split("-")[0]
    m=re.search(rf"seeded/{name}/patch.diff: (.*)\n((?:       .*\n)*)", log)
    fired=m.group(1) if m else ""
    own=""
    if m:
        for ln in m.group(2).splitlines():
            if ln.strip().startswith(pid+":"):
                own=ln.strip()[:240]
    meta={"breaks_property":pid,"round":7,"focus_given":STYLE,"clause":clause,"needs_to_manifest":needs,
          "source":"independent sub-agent given only the property text and a scratch worktree, asked for a change that only matters for a boundary / degenerate input",
          "confirmed_by_me":{"how":"tools/seed_confirm.sh: fresh scratch worktree of /repo HEAD; demo without the change, demo with the change, full test suite with the change (a failure confined to the two unseeded, known-flaky ensemble tests is re-run once and both results recorded); checks run by tools/patch_matrix.py on scratch copies","result":res},
          "as_built":asbuilt,"caught_by":caught,"checks_firing_now":fired,"own_check_reports":own}
    json.dump(meta,open(d+"/meta.json","w"),indent=1,ensure_ascii=False)
print("ok")
