import json, os
STYLE = "the break must be HISTORY-DEPENDENT and live in ADDED code (a new memoised attribute, helper, override, fast path): one fresh simulation with one run(n) behaves correctly; it needs a multi-step sequence of public API calls (second run, attribute changed between runs, object reused, element replaced, restart) to manifest"
info = {
 "C02-9": ("IsotensionCriteria memoises S - P*1, refreshed only when external_stress is another array object", "Isotension: a cell trial, then mc.pressure = ... (or an in-place edit of the stress), then more steps", "analysis-error as built (exit 2)", "rule M: context.pressure is not a key"),
 "C03-9": ("ExchangeContext.last_constraints snapshot taken in __init__/save_state and written back by revert_state; nothing re-takes it when a run starts", "GrandCanonical: constraints changed between runs, then a rejected exchange before any accept", "missed as built", "C03 U6: snapshot slots written back by revert_state must be re-taken on the run-start path (found a genuine defect of the pinned tree as well: last_momenta, fixed in 57e3254)"),
 "C05-9": ("DisplacementMove._next_label running counter started lazily at max(unique_labels)+1; set_labels does not resynchronise it", "accepted auto-labelled insertion, set_labels(...) between runs, another accepted insertion", "missed as built", "rule M: self.unique_labels has a writer (set_labels) that does not reset the counter"),
 "C06-9": ("DisplacementMove memoises partial(context.rng.choice, unique_labels); reset on set_labels only", "one move object reused by a second simulation", "missed as built", "rule M: context.rng is not a key"),
 "C07-9": ("GrandCanonicalCriteria memoises the thermal wavelength keyed on the exchanged mass only", "temperature changed between two runs, restart from a file written afterwards", "missed as built", "rule M: context.temperature is not a key"),
 "C08-9": ("MonteCarlo.todict caches to_dict() keyed on a version counter bumped by accepted trials only", "serialise, change a setting, serialise again before any accept", "missed as built", "rule M: the settings read by to_dict (followed into the callee) are plain attributes, not keys"),
 "C09-9": ("grow-only cached cycle_slots array used as the population of forced slots", "max_cycles lowered between runs with minimum counts > 0", "caught as built (C09 M3)", "C09 M3, rule M"),
 "C10-9": ("Rotation keeps a scratch Atoms copy of the moving group, rebuilt when the atoms object / indices change, positions refreshed on a hit", "masses or species of the group changed between runs", "fired as built (C10 G3) but for a reason that a correctly keyed scratch copy would trigger too (false alarm in waiting, repaired)", "rule M: the copy's masses are neither a key nor refreshed; G3 now accepts kept slice copies"),
 "C11-9": ("memoised translation scratch buffer zeroed on the success path only", "a fully vetoed call, then a successful call on another label", "caught as built (C11 D1)", "C11 D1"),
 "C12-9": ("FixRot caches the inverse inertia tensor keyed on positions", "masses changed at unchanged positions (H to D) between runs", "missed as built", "rule M: get_moments_of_inertia reads positions and masses; masses are not a key"),
 "C13-9": ("cached property mass_scaling reset by update_masses but not by the masses_scaling_power setter", "power reassigned after the first step", "analysis-error as built (exit 2)", "rule M: the property setter of a dep does not reset the cache"),
 "C14-9": ("sqrt(m kT) widths cached on the context keyed on temperature and atom count", "masses changed between runs", "analysis-error as built (exit 2)", "rule M: masses covered by len() only"),
 "C15-9": ("irun snapshots the scheduled observers with the relative step count as upper bound", "one-shot observer at step n crossed by a run call shorter than n", "caught as built (C15 O1)", "C15 O1"),
 "C16-9": ("ObserverManager.reopen() re-opens closed path-backed files through the `file` setter (original mode)", "mode 'w', run, close, run again", "missed as built", "C16 W7: a path-like value stored into an observer's file outside its constructor"),
 "C17-9": ("CompositeMove.__call__ caches the bound calls of its elements keyed on the list length", "element replaced in place at the same length, second run", "fired as built (C17 A4) through an artefact of the model object (no constructor attributes): the correctly keyed twin fired too (false alarm, repaired)", "rule M (length-only key); A4 now builds the composite through its constructor and calls it again after in-place changes of the list"),
 "C18-9": ("fallback variation array cached at first use", "reference_variance changed between runs without committee data", "caught as built (C18 R4)", "C18 R4, rule M"),
 "C19-9": ("ExchangeMove keeps the Atoms slice of the last label proposed for deletion until an accepted change", "rejected deletion, per-atom data changed between runs, deletion of the same label rejected again", "missed as built", "rule M: the content of context.atoms[indices] is neither keyed nor refreshed"),
 "C20-9": ("MonteCarlo.distinct_moves memoised on the tuple of move names", "move replaced under an existing name after an accepted trial", "missed as built", "rule M: the keys of a mapping do not cover its values"),
}
for name,(clause,needs,asbuilt,caught) in info.items():
    d=f"/verif/seeded/{name}"
    if not os.path.isdir(d):
        print("missing", name); continue
    res=open(d+"/result.txt").read().strip().splitlines() if os.path.exists(d+"/result.txt") else []
    pid=name.split("-")[0]
    meta={"breaks_property":pid,"round":9,"focus_given":STYLE,"clause":clause,"needs_to_manifest":needs,
          "source":"independent sub-agent given only the property text and a scratch worktree",
          "confirmed_by_me":{"how":"tools/seed_confirm.sh: fresh scratch worktree of /repo HEAD; demo without the change, demo with the change, full test suite with the change; own check run with tools/tryp.sh on a scratch copy","result":res},
          "as_built":asbuilt,"caught_by":caught}
    json.dump(meta,open(d+"/meta.json","w"),indent=1,ensure_ascii=False)
print("ok")
