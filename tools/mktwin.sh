#!/bin/bash
# tools/mktwin.sh <seed patch> <out patch> <python edit script>: apply the seed to a scratch copy, run the edit script there (cwd = copy), store the diff against /repo/src
P=$(realpath "$1"); O=$(realpath -m "$2"); E=$(realpath "$3")
T=$(mktemp -d /tmp/tw-XXXX); cp -r /repo/src "$T/src"; cd "$T"; git init -q .; git add -A; git -c user.email=x -c user.name=x commit -qm base
git apply --include='src/*' "$P" || { echo "PATCH DOES NOT APPLY"; rm -rf "$T"; exit 1; }
python3 "$E" || { rm -rf "$T"; exit 1; }
git diff > "$O"; cd /; rm -rf "$T"; echo "wrote $O ($(wc -l < $O) lines)"
