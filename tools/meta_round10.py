import json, os
STYLE = "FEATURE-INTERACTION: the break manifests only when TWO non-default features or options are used together (each alone, and the default configuration, stay correct), in a combination the existing tests do not exercise"
info = {
 "C02-10": ("ExchangeContext.save_state advances N by len(added) - len(deleted) indices instead of particle_delta", "exchange moves + multi-atom exchange particles, after one accepted exchange", "caught as built (C02 N)", "C02 N"),
 "C03-10": ("attempt_displacement snapshots/restores only the moving rows", "user check_move veto + a collective constraint (FixCom)", "caught as built (C03 U2)", "C03 U2"),
 "C04-10": ("Canonical.revert_state resynchronises calc.atoms through set_positions (constraint-aware)", "constraints + a move built with apply_constraints=False, rejected trial", "caught as built (C04 E3)", "C04 E3"),
 "C05-10": ("insertion counts len(indices)//len(template) particles", "preset to_add_atoms + a multi-atom particle of another size than the template", "caught as built (C05 B3)", "C05 B3"),
 "C06-10": ("forced moves taken from `forced_counts.keys() & available_moves` (a set of strings) on steps where an interval skips a move", "interval > 1 + minimum counts on two moves, compared across processes (PYTHONHASHSEED)", "missed as built", "C06 G4: a value that is a set on one arm of a conditional expression is hash-ordered"),
 "C07-10": ("CompositeMove.from_dict looks for the attribute block inside kwargs", "composite exchange move + non-default bias_towards_insert, restart", "missed as built", "C07 T4 restore-source: the replayed entries must come from the top-level 'attributes' block of the argument"),
 "C08-10": ("CompositeMove.from_dict memoises rebuilt members on (name, kwargs), leaving out their attributes", "composite of same-class members + a tunable set on one member only", "caught as built (C08 S8)", "C08 S8"),
 "C09-10": ("over-commit guard sums only stored moves whose interval divides the new one's", "custom interval + minimum count, specific add order", "caught as built (C09 M5)", "C09 M5"),
 "C10-10": ("Translation keeps a copy of the cell matrix, rebuilt only when atoms.cell is another object", "Translation operation + accepted cell moves on the same simulation", "fired as built (C10 G3) for a reason a correctly keyed copy would trigger too (false alarm in waiting, repaired)", "rule M (cell content not a key; getattr guards read); G3 accepts a kept cell matrix"),
 "C11-10": ("composite keeps a manually pre-selected target without checking it against labels already displaced in the call", "composite built with + and a pre-selected to_displace_labels on a later sub-move", "caught as built (C11 D4)", "C11 D4"),
 "C12-10": ("ForceBias.step adds the constrained displacement with positions += ...", "FixCom + custom displacement masses", "caught as built (C12 K1)", "C12 K1"),
 "C13-10": ("cached mass_scaling filled by the per-element branch of the power setter from atoms.get_masses()", "update_masses(custom) then a per-element power dict", "analysis-error as built (exit 2)", "C13 B bypass: a caller-suppliable source of the step (shaped_masses, defaulting to atoms.get_masses()) may only be read through the attribute it is stored in"),
 "C14-10": ("forced rescale divides by momenta.size (3N) instead of the number of degrees of freedom", "forced=True + constraints removing degrees of freedom", "analysis-error as built (exit 2)", "C14 MB: 3N has its own symbol (the vocabulary had identified it with ndof), `.size` of the draw understood"),
 "C15-10": ("irun stores the one-shot observers that 'cannot fire in this run' (abs(interval) > steps); call_observers skips them", "negative interval + split run whose crossing call is shorter than n", "analysis-error as built (exit 2)", "C15 O1: per-run stored filters are replaced by their defining condition; run length and start join the enumerated domain"),
 "C16-10": ("RestartObserver writes before truncating unless mode is 'a'", "append-mode stream + mode='w' label", "caught as built (C16 W4)", "C16 W4"),
 "C17-10": ("move + composite of another kind delegates to `other + self`", "operands of different kinds + a single move on the left of a composite", "caught as built (C17 A1)", "C17 A1"),
 "C18-10": ("energy-scheme fallback returns a class default reference variance", "scheme='energy' + non-default reference_variance, no committee data", "caught as built (C18 R4)", "C18 R4"),
 "C19-10": ("search_molecules renumbers every non-negative entry after the component loop", "size filter rejecting a component + non-negative default_array", "analysis-error as built (exit 2)", "C19 R2 rewrite-after-loop: a store selected by the result's own values cannot tell labels from supplied defaults"),
 "C20-10": ("GrandCanonical.save_state skips moves not scheduled on the current step when notifying", "move with interval > 1 + accepted exchange on another step", "missed as built", "C20 P3 fan-out: on the notification path only identity de-duplication may skip a stored move"),
 "C04-9": ("Canonical.revert_state copies back only context._moving_indices rows; save/revert reset the context", "failed displacement (user check_move) followed by a rejected cell/Hamiltonian trial, energy read afterwards", "caught as built (C04 E3)", "C04 E3"),
}
for name,(clause,needs,asbuilt,caught) in info.items():
    d=f"/verif/seeded/{name}"
    if not os.path.isdir(d):
        print("missing", name); continue
    res=open(d+"/result.txt").read().strip().splitlines() if os.path.exists(d+"/result.txt") else []
    pid=name.split("-")[0]
    rnd=int(name.split("-")[1])
    meta={"breaks_property":pid,"round":rnd,"focus_given":STYLE if rnd==10 else "history-dependent change in added code (round 9)","clause":clause,"needs_to_manifest":needs,
          "source":"independent sub-agent given only the property text and a scratch worktree",
          "confirmed_by_me":{"how":"tools/seed_confirm.sh: fresh scratch worktree of /repo HEAD; demo without the change, demo with the change, full test suite with the change; own check run with tools/tryp.sh on a scratch copy","result":res},
          "as_built":asbuilt,"caught_by":caught}
    json.dump(meta,open(d+"/meta.json","w"),indent=1,ensure_ascii=False)
print("ok")
