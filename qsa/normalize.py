"""Normalising front-end: behaviour-preserving canonicalisation of a function's AST so that
the rules see through the refactorings maintainers actually make.

  * helper inlining — calls of internal helpers (methods of the same class resolved through the MRO,
    static methods, module-level functions of the package, also imported ones) are replaced by the
    helper's body with parameters bound and locals alpha-renamed; early returns are converted to
    if/else (single exit); generator helpers iterated by a ``for`` are spliced into the loop
  * guard style — ``if c: …; continue`` / ``if c: return x`` followed by more statements become
    if/else
  * accumulation loops — ``xs = []`` + ``for …: [if c:] xs.append(e)`` becomes a comprehension,
    ``s = 0`` + ``for …: s += e`` becomes ``sum([...])``

Nothing is executed; the result is only analysed.  A helper that does not fit (return inside a loop,
recursion, *args/**kwargs, too large) is simply left as a call."""

from __future__ import annotations

import ast
import copy

from .loader import record_fields, ClassInfo, FuncInfo, Program, dotted, norm, walk_no_nested

MAX_HELPER_STMTS = 60


class _Counter:
    n = 0

    @classmethod
    def fresh(cls) -> int:
        cls.n += 1
        return cls.n


# --------------------------------------------------------------------------- resolution
def resolve_callee(prog: Program, fi: FuncInfo, call: ast.Call, cls: ClassInfo | None):
    """Return (FuncInfo, receiver_expr | None) for a call of an internal helper, else None."""
    f = call.func
    if isinstance(f, ast.Attribute):
        base = f.value
        if isinstance(base, ast.Name) and base.id in ("self", "cls") and cls is not None:
            m = prog.lookup_method(cls, f.attr)
            if m is not None and m.kind in ("method", "static", "class"):
                return m, base
            return None
        if isinstance(base, ast.Name) and cls is not None and fi.kind == "class" and base.id in _own_instances(fi):
            # `obj = cls(...)` in an alternative constructor: obj._helper(...) is a method of the same class
            m = prog.lookup_method(cls, f.attr)
            if m is not None and m.kind == "method":
                return m, base
            return None
        d = dotted(base)
        if d:
            r = prog.resolve_dotted(fi.module, d)
            c = prog.classes.get(r)
            if c is not None:
                m = prog.lookup_method(c, f.attr)
                if m is not None and m.kind == "static":
                    return m, None
                if m is not None and m.kind == "class":
                    return m, base
                return None
            mod = prog.modules.get(r)
            if mod is not None and f.attr in mod.functions:
                return mod.functions[f.attr], None
        return None
    if isinstance(f, ast.Name):
        full = prog.resolve_dotted(fi.module, f.id)
        modname, _, fn = full.rpartition(".")
        mod = prog.modules.get(modname)
        if mod is not None and fn in mod.functions:
            return mod.functions[fn], None
    return None


def _apply_module_partial(prog: Program, fi: FuncInfo, call: ast.Call) -> ast.Call:
    """`_stack = functools.partial(np.hstack, dtype=np.int_)` at module level and `_stack(x)` in a function:
    the call is `np.hstack(x, dtype=np.int_)` (positional arguments of the partial first, keywords merged)."""
    if not isinstance(call.func, ast.Name):
        return call
    v = fi.module.assigns.get(call.func.id) if getattr(fi.module, "assigns", None) else None
    if not (isinstance(v, ast.Call) and norm(v.func) in ("functools.partial", "partial") and v.args):
        return call
    if any(isinstance(n, ast.Name) and isinstance(n.ctx, ast.Store) and n.id == call.func.id for n in ast.walk(fi.node)):
        return call  # shadowed by a local
    kws = {k.arg: k for k in v.keywords if k.arg}
    for k in call.keywords:
        if k.arg:
            kws[k.arg] = k
    new = ast.Call(func=copy.deepcopy(v.args[0]), args=[copy.deepcopy(a) for a in v.args[1:]] + list(call.args), keywords=[copy.deepcopy(k) for k in kws.values()])
    return ast.copy_location(new, call)


def _hoist_walrus(st: ast.stmt) -> list[ast.stmt]:
    """`if (x := e) is not None:` / `y = f(x := e)` → `x = e` in front of the statement, the statement reading `x`.
    Only assignment expressions that are evaluated unconditionally (not inside the later operands of and/or, the
    branches of a conditional expression, a comprehension or a lambda) are moved; the statement is changed in place."""
    fields = ["test"] if isinstance(st, (ast.If, ast.While)) else (["iter"] if isinstance(st, ast.For) else ["value", "test", "exc"])
    if isinstance(st, (ast.While, ast.FunctionDef, ast.AsyncFunctionDef, ast.ClassDef, ast.Try, ast.With)):
        return []
    out: list[ast.stmt] = []

    class T(ast.NodeTransformer):
        def visit_Lambda(self, node):
            return node

        def visit_ListComp(self, node):
            return node

        visit_GeneratorExp = visit_ListComp
        visit_SetComp = visit_ListComp
        visit_DictComp = visit_ListComp

        def visit_IfExp(self, node):
            node.test = self.visit(node.test)
            return node

        def visit_BoolOp(self, node):
            node.values[0] = self.visit(node.values[0])
            return node

        def visit_NamedExpr(self, node):
            val = self.visit(node.value)
            a = ast.Assign(targets=[ast.Name(id=node.target.id, ctx=ast.Store())], value=val, lineno=getattr(node, "lineno", getattr(st, "lineno", 0)), col_offset=0)
            ast.fix_missing_locations(a)
            out.append(a)
            return ast.copy_location(ast.Name(id=node.target.id, ctx=ast.Load()), node)

    for f in fields:
        v = getattr(st, f, None)
        if isinstance(v, ast.expr) and any(isinstance(n, ast.NamedExpr) for n in ast.walk(v)):
            setattr(st, f, T().visit(v))
    return out


def _own_instances(fi: FuncInfo) -> set[str]:
    out = set()
    for n in walk_no_nested(fi.node):
        if isinstance(n, ast.Assign) and len(n.targets) == 1 and isinstance(n.targets[0], ast.Name) and isinstance(n.value, ast.Call) \
                and isinstance(n.value.func, ast.Name) and n.value.func.id == "cls":
            out.add(n.targets[0].id)
    # bound exactly once
    for nm in list(out):
        if sum(1 for n in ast.walk(fi.node) if isinstance(n, ast.Name) and n.id == nm and isinstance(n.ctx, ast.Store)) != 1:
            out.discard(nm)
    return out


def _has_yield(fn: ast.FunctionDef) -> bool:
    return any(isinstance(n, (ast.Yield, ast.YieldFrom)) for n in walk_no_nested(fn))


def _tail_return_only(stmts) -> bool:
    """every `return` in the block is its last statement (possibly inside trailing if/else arms)"""
    for i, st in enumerate(stmts):
        last = i == len(stmts) - 1
        if isinstance(st, ast.Return):
            if not last:
                return False
        elif isinstance(st, ast.If):
            has = any(isinstance(n, ast.Return) for n in walk_no_nested(st))
            if has and not (last and _tail_return_only(st.body) and _tail_return_only(st.orelse)):
                return False
        elif any(isinstance(n, ast.Return) for n in walk_no_nested(st)):
            return False
    return True


def _is_tail_try(st, last: bool) -> bool:
    """`try: …; return a` / `except E: …; return b` as the last statement of a function: the returns can become
    assignments in place (no finally, no else, nothing after the try)."""
    return (isinstance(st, ast.Try) and last and not st.finalbody and not st.orelse and _tail_return_only(st.body)
            and all(_tail_return_only(h.body) for h in st.handlers))


def _returns_in_loops(stmts, top: bool = True) -> bool:
    for i, st in enumerate(stmts):
        if top and _is_tail_try(st, i == len(stmts) - 1):
            continue
        if isinstance(st, (ast.For, ast.While, ast.With, ast.Try)):
            if any(isinstance(n, ast.Return) for n in walk_no_nested(st)):
                return True
        elif isinstance(st, ast.If):
            if _returns_in_loops(st.body, False) or _returns_in_loops(st.orelse, False):
                return True
    return False


def eligible(helper: FuncInfo) -> bool:
    # a decorated helper is not its body: functools.lru_cache / cache turn it into shared, memoised state
    for d in getattr(helper.node, "decorator_list", []):
        dt = norm(d.func) if isinstance(d, ast.Call) else norm(d)
        if dt.split(".")[-1] not in ("staticmethod", "classmethod"):
            return False
    a = helper.node.args
    if a.vararg:
        return False
    if a.kwarg is not None:
        # **kw is fine when the helper only forwards it (`f(…, **kw)`): the caller's extra keywords take its place
        kw = a.kwarg.arg
        uses = [n for n in ast.walk(helper.node) if isinstance(n, ast.Name) and n.id == kw]
        splats = [k.value for c in ast.walk(helper.node) if isinstance(c, ast.Call) for k in c.keywords if k.arg is None and isinstance(k.value, ast.Name) and k.value.id == kw]
        if len(uses) != len(splats) or any(u not in splats for u in uses):
            return False
    body = helper.body()
    n = sum(1 for _ in ast.walk(helper.node) if isinstance(_, ast.stmt))
    if n > MAX_HELPER_STMTS:
        return False
    if any(isinstance(n_, (ast.FunctionDef, ast.AsyncFunctionDef, ast.ClassDef, ast.Global, ast.Nonlocal, ast.Lambda)) for n_ in ast.walk(helper.node) if n_ is not helper.node):
        # lambdas are fine; nested defs are not
        if any(isinstance(n_, (ast.FunctionDef, ast.AsyncFunctionDef, ast.ClassDef, ast.Global, ast.Nonlocal)) for n_ in ast.walk(helper.node) if n_ is not helper.node):
            return False
    if _returns_in_loops(body):
        return False
    if helper.kind in ("property", "setter"):
        return False
    if any(isinstance(n_, ast.Call) and isinstance(n_.func, ast.Name) and n_.func.id == "super" for n_ in ast.walk(helper.node)):
        return False
    return True


# --------------------------------------------------------------------------- single exit
def to_single_exit(stmts: list[ast.stmt], retvar: str | None, cont: list[ast.stmt] | None = None) -> tuple[list[ast.stmt], bool]:
    """Rewrite a statement list so that ``return e`` becomes ``retvar = e`` and nothing after it runs: the statements
    that follow a conditional return — at the same level AND at every enclosing level (``cont``, the continuation) — are
    moved into the branches that fall through.  Returns (new statements, always_returns)."""
    cont = cont or []
    out: list[ast.stmt] = []
    for i, st in enumerate(stmts):
        rest = stmts[i + 1:]
        if isinstance(st, ast.Return):
            if retvar is not None:
                val = st.value if st.value is not None else ast.Constant(value=None)
                out.append(ast.Assign(targets=[ast.Name(id=retvar, ctx=ast.Store())], value=val, lineno=st.lineno, col_offset=0))
            return out, True
        if _is_tail_try(st, not rest and not cont) and any(isinstance(n, ast.Return) for n in walk_no_nested(st)):
            nb, _r = to_single_exit(st.body, retvar)
            st2 = ast.Try(body=nb or [ast.Pass()], handlers=[], orelse=[], finalbody=[], lineno=st.lineno, col_offset=0)
            always = _r
            for h in st.handlers:
                hb, hr = to_single_exit(h.body, retvar)
                always = always and hr
                st2.handlers.append(ast.ExceptHandler(type=h.type, name=h.name, body=hb or [ast.Pass()], lineno=h.lineno, col_offset=0))
            out.append(st2)
            return out, always
        if isinstance(st, ast.If) and any(isinstance(n, ast.Return) for n in walk_no_nested(st)):
            b_plain, b_ret = to_single_exit(st.body, retvar)
            o_plain, o_ret = to_single_exit(st.orelse, retvar)
            if b_ret and o_ret:
                out.append(ast.If(test=st.test, body=b_plain or [ast.Pass()], orelse=o_plain, lineno=st.lineno, col_offset=0))
                return out, True
            # what runs after this statement on a path that falls through it: the rest of this block, then the continuation
            # of the enclosing blocks — threaded INTO the branches, so that a return nested deeper skips all of it
            follow = list(rest) + list(cont)
            b, b_r = (b_plain, True) if b_ret else to_single_exit(st.body, retvar, copy.deepcopy(follow))
            o, o_r = (o_plain, True) if o_ret else to_single_exit(st.orelse, retvar, copy.deepcopy(follow) if not b_ret else follow)
            out.append(ast.If(test=st.test, body=b or [ast.Pass()], orelse=o, lineno=st.lineno, col_offset=0))
            return out, b_r and o_r
        out.append(st)
    if cont:
        c, c_ret = to_single_exit(cont, retvar)
        return out + c, c_ret
    return out, False


# --------------------------------------------------------------------------- renaming
class _Rename(ast.NodeTransformer):
    def __init__(self, mapping: dict[str, str], self_expr: ast.expr | None, cls_expr: ast.expr | None = None):
        self.m = mapping
        self.self_expr = self_expr
        self.cls_expr = cls_expr  # `ClassName.classmethod(…)`: `cls` inside the body is that class

    def visit_Name(self, node):
        if node.id in self.m:
            return ast.copy_location(ast.Name(id=self.m[node.id], ctx=node.ctx), node)
        if node.id == "self" and self.self_expr is not None and not (isinstance(self.self_expr, ast.Name) and self.self_expr.id == "self"):
            return copy.deepcopy(self.self_expr)
        if node.id == "cls" and self.cls_expr is not None:
            return copy.deepcopy(self.cls_expr)
        return node

    def visit_arg(self, node):
        return node


def _local_names(fn: ast.FunctionDef) -> set[str]:
    names = {a.arg for a in fn.args.posonlyargs + fn.args.args + fn.args.kwonlyargs}
    for n in walk_no_nested(fn):
        if isinstance(n, ast.Name) and isinstance(n.ctx, ast.Store):
            names.add(n.id)
        elif isinstance(n, ast.ExceptHandler) and n.name:
            names.add(n.name)
    names.discard("self")
    names.discard("cls")
    return names


def _bind_args(helper: FuncInfo, call: ast.Call, has_receiver: bool):
    a = helper.node.args
    posonly = [x.arg for x in a.posonlyargs]
    params = posonly + [x.arg for x in a.args]
    if helper.kind in ("method", "class") and params and params[0] in ("self", "cls"):
        params = params[1:] if has_receiver or True else params
    binds: dict[str, ast.expr] = {}
    extra: list[ast.keyword] = []
    if any(isinstance(x, ast.Starred) for x in call.args):
        return None
    if any(k.arg is None for k in call.keywords) and a.kwarg is None:
        return None
    if len(call.args) > len(params):
        return None
    for p, v in zip(params, call.args):
        binds[p] = v
    for k in call.keywords:
        if k.arg is None:
            extra.append(k)  # **mapping at the call site: forwarded wherever the helper forwards its **kw
            continue
        if k.arg in binds:
            return None
        if (k.arg not in params or k.arg in posonly) and k.arg not in [x.arg for x in a.kwonlyargs]:
            if a.kwarg is None:
                return None
            extra.append(k)
            continue
        binds[k.arg] = k.value
    if a.kwarg is not None:
        binds["**" + a.kwarg.arg] = extra  # type: ignore[assignment]
    allp = a.posonlyargs + a.args
    nd = len(a.defaults)
    for i, x in enumerate(allp):
        if x.arg in ("self", "cls") and i == 0 and helper.kind in ("method", "class"):
            continue
        if x.arg not in binds:
            j = i - (len(allp) - nd)
            if j < 0:
                return None
            binds[x.arg] = a.defaults[j]
    for x, d in zip(a.kwonlyargs, a.kw_defaults):
        if x.arg not in binds:
            if d is None:
                return None
            binds[x.arg] = d
    return binds


# --------------------------------------------------------------------------- inliner
class Flattener:
    def __init__(self, prog: Program, fi: FuncInfo, cls: ClassInfo | None = None, max_depth: int = 3, function_guards: bool = False,
                 keep: frozenset = frozenset(), public_methods: bool = False):
        self.function_guards = function_guards
        self.keep = keep
        self.public_methods = public_methods
        self.prog = prog
        self.fi = fi
        self.cls = cls if cls is not None else fi.cls
        self.max_depth = max_depth
        self.inlined: list[str] = []

    # ------------------------------------------------------------ entry
    def flatten(self) -> ast.FunctionDef:
        fn = copy.deepcopy(self.fi.node)
        fn.body = self._block(fn.body, [self.fi.qualname], 0)
        fn = _StripAsarray().visit(fn)
        fn.body = structure_guards(fn.body, in_loop=False, function_level=self.function_guards)
        fn.body = split_tuple_assignments(fn.body)
        fn.body = propagate_aliases(fn.body)
        fn.body = collapse_temps(fn.body, fn)
        fn.body = canonical_accumulations(fn.body)
        fn.body = propagate_aliases(fn.body)
        fn.body = collapse_temps(fn.body, fn)
        fn.body = split_tuple_assignments(fn.body)
        fn.body = propagate_aliases(fn.body)
        fn.body = collapse_temps(fn.body, fn)
        fn.body = scalar_replace_records(fn.body, self.prog, self.fi)
        fn.body = split_tuple_assignments(fn.body)
        fn.body = propagate_aliases(fn.body)
        fn.body = collapse_temps(fn.body, fn)
        fn = beta_reduce_lambdas(fn)
        fn.body = fold_known_none_tests(fn.body, fn)
        fn.body = propagate_aliases(fn.body)
        fn.body = collapse_temps(fn.body, fn)
        fn.body = slot_tables_to_mappings(fn.body, fn)
        fn.body = privatize_inplace(fn.body, fn)
        fn = _CanonExpr().visit(fn)
        ast.fix_missing_locations(fn)
        return fn

    # ------------------------------------------------------------ blocks
    def _block(self, stmts, stack, depth) -> list[ast.stmt]:
        out: list[ast.stmt] = []
        for st in stmts:
            out.extend(self._stmt(st, stack, depth))
        return out

    def _inlinable_call_in(self, e: ast.expr, stack) -> bool:
        for n in ast.walk(e):
            if isinstance(n, ast.Call):
                r = resolve_callee(self.prog, self.fi, n, self.cls)
                if r is not None and r[0].qualname not in stack and eligible(r[0]) and not _has_yield(r[0].node) and self._wanted(r[0]):
                    return True
        return False

    def _lower_short_circuit(self, st: ast.If, stack, depth):
        """``if a and helper(): …`` — the helper runs only when ``a`` holds, so it cannot be hoisted in front of the
        test; the short-circuit is spelled out instead (only truthiness of the test matters):
        ``t = a; if t: t = helper()`` then ``if t: …``.  Applied only when a later operand contains an inlinable helper."""
        t = st.test
        if not isinstance(t, ast.BoolOp) or depth >= self.max_depth:
            return None
        if not any(self._inlinable_call_in(v, stack) for v in t.values[1:]):
            return None
        g = f"_g{_Counter.fresh()}_c"
        out: list[ast.stmt] = [ast.Assign(targets=[ast.Name(id=g, ctx=ast.Store())], value=t.values[0], lineno=st.lineno, col_offset=0)]
        for v in t.values[1:]:
            cond: ast.expr = ast.Name(id=g, ctx=ast.Load())
            if isinstance(t.op, ast.Or):
                cond = ast.UnaryOp(op=ast.Not(), operand=cond)
            out.append(ast.If(test=cond, body=[ast.Assign(targets=[ast.Name(id=g, ctx=ast.Store())], value=v, lineno=st.lineno, col_offset=0)], orelse=[], lineno=st.lineno, col_offset=0))
        st.test = ast.Name(id=g, ctx=ast.Load())
        out.append(st)
        for s_ in out:
            ast.fix_missing_locations(s_)
        return out

    def _stmt(self, st, stack, depth) -> list[ast.stmt]:
        if isinstance(st, ast.Match):
            from .loader import lower_match

            low = lower_match(st)
            if low is not None:
                return self._block(low, stack, depth)
        if isinstance(st, ast.Assert):
            return []  # assertions state invariants the author believes; the rules analyse the code as if they hold
        if isinstance(st, ast.Expr) and isinstance(st.value, ast.Call):
            c_ = st.value
            fn_ = norm(c_.func)
            drain = (fn_ in ("deque", "collections.deque") and len(c_.args) == 1 and any(k.arg == "maxlen" and isinstance(k.value, ast.Constant) and k.value.value == 0 for k in c_.keywords)) \
                or (fn_ in ("list", "tuple") and len(c_.args) == 1 and not c_.keywords and isinstance(c_.args[0], ast.Call))
            if drain:
                # the "consume" idiom: run an iterator to its end, discarding the items
                loop = ast.For(target=ast.Name(id="_", ctx=ast.Store()), iter=c_.args[0], body=[ast.Pass()], orelse=[], lineno=st.lineno, col_offset=0)
                return self._stmt(ast.fix_missing_locations(ast.copy_location(loop, st)), stack, depth)
        hoisted = _hoist_walrus(st)
        if hoisted:
            return self._block([*hoisted, st], stack, depth)
        if isinstance(st, ast.If):
            low = self._lower_short_circuit(st, stack, depth)
            if low is not None:
                return self._block(low, stack, depth)
            pre, test = self._expr(st.test, stack, depth, st)
            st.test = test
            st.body = self._block(st.body, stack, depth) or [ast.Pass()]
            st.orelse = self._block(st.orelse, stack, depth)
            return pre + [st]
        if isinstance(st, ast.For):
            unrolled = _unroll_literal_loop(st)
            if unrolled is not None:
                return self._block(unrolled, stack, depth)
            spliced = self._splice_generator(st, stack, depth)
            if spliced is not None:
                return spliced
            pre, it = self._expr(st.iter, stack, depth, st)
            st.iter = it
            st.body = self._block(st.body, stack, depth) or [ast.Pass()]
            st.orelse = self._block(st.orelse, stack, depth)
            return pre + [st]
        if isinstance(st, ast.While):
            st.body = self._block(st.body, stack, depth) or [ast.Pass()]
            st.orelse = self._block(st.orelse, stack, depth)
            return [st]
        if isinstance(st, ast.Try):
            st.body = self._block(st.body, stack, depth) or [ast.Pass()]
            for h in st.handlers:
                h.body = self._block(h.body, stack, depth) or [ast.Pass()]
            st.orelse = self._block(st.orelse, stack, depth)
            st.finalbody = self._block(st.finalbody, stack, depth)
            return [st]
        if isinstance(st, ast.With):
            if len(st.items) == 1 and st.items[0].optional_vars is None and isinstance(st.items[0].context_expr, ast.Call) \
                    and norm(st.items[0].context_expr.func) in ("contextlib.suppress", "suppress") and st.items[0].context_expr.args:
                # `with suppress(E1, E2): body` is `try: body` / `except (E1, E2): pass`
                excs = st.items[0].context_expr.args
                typ = excs[0] if len(excs) == 1 else ast.Tuple(elts=list(excs), ctx=ast.Load())
                tr = ast.Try(body=st.body, handlers=[ast.ExceptHandler(type=typ, name=None, body=[ast.Pass()], lineno=st.lineno, col_offset=0)], orelse=[], finalbody=[], lineno=st.lineno, col_offset=0)
                return self._stmt(ast.fix_missing_locations(ast.copy_location(tr, st)), stack, depth)
            st.body = self._block(st.body, stack, depth) or [ast.Pass()]
            return [st]
        if isinstance(st, (ast.FunctionDef, ast.AsyncFunctionDef, ast.ClassDef)):
            return [st]
        # simple statement: hoist inlinable calls
        pre: list[ast.stmt] = []
        for field in ("value", "test", "exc"):
            v = getattr(st, field, None)
            if isinstance(v, ast.expr):
                p, nv = self._expr(v, stack, depth, st)
                pre += p
                setattr(st, field, nv)
        if isinstance(st, ast.Expr) and isinstance(st.value, ast.Name) and st.value.id.startswith("_i") and st.value.id.endswith("_ret"):
            return pre  # a helper called for its effects only
        return pre + [st]

    # ------------------------------------------------------------ expressions
    def _expr(self, e: ast.expr, stack, depth, at_stmt) -> tuple[list[ast.stmt], ast.expr]:
        """Inline eligible helper calls inside ``e`` (innermost first). Returns (prelude, new expr)."""
        if depth >= self.max_depth:
            return [], e
        pre: list[ast.stmt] = []
        flat = self

        class T(ast.NodeTransformer):
            def visit_Lambda(self, node):
                return node

            def visit_ListComp(self, node):
                return node  # calls inside comprehensions are evaluated per element: not hoisted

            visit_GeneratorExp = visit_ListComp
            visit_SetComp = visit_ListComp
            visit_DictComp = visit_ListComp

            def visit_IfExp(self, node):
                node.test = self.visit(node.test)
                return node  # branches are evaluated conditionally: not hoisted

            def visit_BoolOp(self, node):
                node.values[0] = self.visit(node.values[0])
                return node

            def visit_Call(self, node):
                self.generic_visit(node)
                node = _apply_module_partial(flat.prog, flat.fi, node)
                r = resolve_callee(flat.prog, flat.fi, node, flat.cls)
                if r is None:
                    return node
                helper, recv = r
                if helper.qualname in stack or not eligible(helper) or _has_yield(helper.node) or not flat._wanted(helper):
                    return node
                res = flat._inline_call(helper, recv, node, stack, depth)
                if res is None:
                    return node
                stmts, ret = res
                pre.extend(stmts)
                return ret

        new = T().visit(e)
        return pre, new

    def _wanted(self, helper: FuncInfo) -> bool:
        """Public methods are semantic anchors of the rules and stay calls; private helpers (``_name``) and
        module-level functions are implementation detail and are seen through."""
        if helper.name in self.keep or helper.qualname in self.keep:
            return False
        if helper.name.startswith("__"):
            return False
        if helper.cls is not None:
            if helper.cls.name.startswith("_") or record_fields(self.prog, helper.cls) is not None:
                return True  # a private class / a plain record (NamedTuple, dataclass) is implementation detail as a whole
            return helper.name.startswith("_") or self.public_methods
        return True

    def _inline_call(self, helper: FuncInfo, recv, call: ast.Call, stack, depth):
        binds = _bind_args(helper, call, recv is not None)
        if binds is None:
            return None
        splat = {k[2:]: v for k, v in binds.items() if k.startswith("**")}
        binds = {k: v for k, v in binds.items() if not k.startswith("**")}
        k = _Counter.fresh()
        prefix = f"_i{k}_"
        hn = copy.deepcopy(helper.node)
        locals_ = _local_names(hn)
        mapping = {n: prefix + n for n in locals_}
        retvar = prefix + "ret"
        body = FuncInfo(helper.name, hn, helper.module, helper.cls, helper.kind).body()
        body, _always = to_single_exit(body, retvar)
        ren = _Rename(mapping, recv if helper.kind != "class" else None, recv if helper.kind == "class" and recv is not None and not (isinstance(recv, ast.Name) and recv.id in ("cls", "self")) else None)
        if splat:
            class _Splat(ast.NodeTransformer):
                def visit_Call(self, node):
                    self.generic_visit(node)
                    new_kw = []
                    for k in node.keywords:
                        if k.arg is None and isinstance(k.value, ast.Name) and k.value.id in splat:
                            new_kw.extend(copy.deepcopy(splat[k.value.id]))
                        else:
                            new_kw.append(k)
                    node.keywords = new_kw
                    return node

            body = [_Splat().visit(s) for s in body]
        body = [ren.visit(s) for s in body]
        pre: list[ast.stmt] = []
        for p, v in binds.items():
            pre.append(ast.Assign(targets=[ast.Name(id=mapping.get(p, prefix + p), ctx=ast.Store())], value=copy.deepcopy(v), lineno=call.lineno, col_offset=0))
        # default return value None when the helper may fall off the end
        if not _always:
            pre.append(ast.Assign(targets=[ast.Name(id=retvar, ctx=ast.Store())], value=ast.Constant(value=None), lineno=call.lineno, col_offset=0))
        # recurse into the helper's own body with the helper's resolution context
        sub = Flattener(self.prog, helper, helper.cls if recv is None or not (isinstance(recv, ast.Name) and recv.id == "self") else self.cls, self.max_depth,
                        keep=self.keep, public_methods=self.public_methods)
        body = sub._block(body, stack + [helper.qualname], depth + 1)
        self.inlined.append(helper.qualname)
        self.inlined.extend(sub.inlined)
        for s in pre + body:
            ast.fix_missing_locations(s)
        return pre + body, ast.copy_location(ast.Name(id=retvar, ctx=ast.Load()), call)

    # ------------------------------------------------------------ generator splicing
    def _splice_generator(self, st: ast.For, stack, depth):
        it = st.iter
        if not isinstance(it, ast.Call) or depth >= self.max_depth:
            return None
        r = resolve_callee(self.prog, self.fi, it, self.cls)
        if r is None:
            return None
        helper, recv = r
        if not _has_yield(helper.node) or helper.qualname in stack or st.orelse or not self._wanted(helper):
            return None
        if any(isinstance(n, (ast.Break, ast.Continue)) for n in walk_no_nested(ast.Module(body=st.body, type_ignores=[]))):
            return None
        if any(isinstance(n, (ast.YieldFrom, ast.Return)) for n in walk_no_nested(helper.node)):
            return None
        binds = _bind_args(helper, it, recv is not None)
        if binds is None:
            return None
        k = _Counter.fresh()
        prefix = f"_g{k}_"
        hn = copy.deepcopy(helper.node)
        mapping = {n: prefix + n for n in _local_names(hn)}
        ren = _Rename(mapping, recv)
        body = [ren.visit(s) for s in FuncInfo(helper.name, hn, helper.module, helper.cls, helper.kind).body()]
        consumer = st.body
        target = st.target

        class Y(ast.NodeTransformer):
            def visit_Expr(self, node):
                if isinstance(node.value, ast.Yield):
                    val = node.value.value if node.value.value is not None else ast.Constant(value=None)
                    return [ast.Assign(targets=[copy.deepcopy(target)], value=val, lineno=node.lineno, col_offset=0)] + copy.deepcopy(consumer)
                return node

            def visit_FunctionDef(self, node):
                return node

        new_body = []
        for s in body:
            r2 = Y().visit(s)
            new_body.extend(r2 if isinstance(r2, list) else [r2])
        pre = [ast.Assign(targets=[ast.Name(id=mapping.get(p, prefix + p), ctx=ast.Store())], value=copy.deepcopy(v), lineno=st.lineno, col_offset=0) for p, v in binds.items()]
        self.inlined.append(helper.qualname)
        out = pre + new_body
        for s in out:
            ast.fix_missing_locations(s)
        return self._block(out, stack + [helper.qualname], depth + 1)


def _unroll_literal_loop(st: ast.For):
    """``for k, p in (("move", Move), ("criteria", Criteria)): body`` — a loop over a short literal sequence of pure
    items is the body repeated with the items substituted (no break/continue/else, targets not rebound in the body)."""
    it = st.iter
    if st.orelse or not isinstance(it, (ast.Tuple, ast.List)) or not (1 <= len(it.elts) <= 6):
        return None

    def pure(e):
        return isinstance(e, (ast.Constant, ast.Name)) or (isinstance(e, ast.Attribute) and dotted(e) is not None)

    if isinstance(st.target, ast.Name):
        names = [st.target.id]
        rows = [[e] for e in it.elts]
    elif isinstance(st.target, ast.Tuple) and all(isinstance(t, ast.Name) for t in st.target.elts):
        names = [t.id for t in st.target.elts]
        rows = []
        for e in it.elts:
            if not isinstance(e, (ast.Tuple, ast.List)) or len(e.elts) != len(names):
                return None
            rows.append(list(e.elts))
    else:
        return None
    if not all(pure(x) for r in rows for x in r):
        return None
    for n in ast.walk(ast.Module(body=st.body, type_ignores=[])):
        if isinstance(n, (ast.Break, ast.Continue, ast.Return, ast.Yield, ast.YieldFrom)):
            return None
        if isinstance(n, ast.Name) and isinstance(n.ctx, (ast.Store, ast.Del)) and n.id in names:
            return None
    out = []
    for r in rows:
        mp = dict(zip(names, r))

        class Sub(ast.NodeTransformer):
            def visit_Name(self, node):
                if isinstance(node.ctx, ast.Load) and node.id in mp:
                    return copy.deepcopy(mp[node.id])
                return node

        out.extend(Sub().visit(copy.deepcopy(b)) for b in st.body)
    for s_ in out:
        ast.fix_missing_locations(s_)
    return out


# --------------------------------------------------------------------------- guard structuring
def structure_guards(stmts: list[ast.stmt], in_loop: bool, function_level: bool = True) -> list[ast.stmt]:
    """``if c: A; continue`` + rest  →  ``if c: A else: rest`` (inside loops);
    ``if c: A; return x`` + rest  →  ``if c: A; return x else: rest`` (function level and loops)."""
    out: list[ast.stmt] = []
    for i, st in enumerate(stmts):
        rest = stmts[i + 1:]
        if isinstance(st, (ast.For, ast.While)):
            st.body = structure_guards(st.body, True, function_level) or [ast.Pass()]
            st.orelse = structure_guards(st.orelse, in_loop, function_level)
        elif isinstance(st, ast.If):
            st.body = structure_guards(st.body, in_loop, function_level) or [ast.Pass()]
            st.orelse = structure_guards(st.orelse, in_loop, function_level)
            last = st.body[-1] if st.body else None
            if not st.orelse and rest and (isinstance(last, ast.Continue) and in_loop or (function_level or in_loop) and isinstance(last, (ast.Return, ast.Raise)) and in_loop):
                if isinstance(last, ast.Continue):
                    st.body = st.body[:-1] or [ast.Pass()]
                st.orelse = structure_guards(rest, in_loop, function_level)
                out.append(st)
                return out
            if function_level and not in_loop and not st.orelse and rest and isinstance(last, (ast.Return, ast.Raise)):
                st.orelse = structure_guards(rest, in_loop, function_level)
                out.append(st)
                return out
        elif isinstance(st, ast.Try):
            st.body = structure_guards(st.body, in_loop, function_level) or [ast.Pass()]
            for h in st.handlers:
                h.body = structure_guards(h.body, in_loop, function_level) or [ast.Pass()]
        elif isinstance(st, ast.With):
            st.body = structure_guards(st.body, in_loop, function_level) or [ast.Pass()]
        out.append(st)
    return out


# --------------------------------------------------------------------------- alias propagation
def _is_alias_value(v: ast.expr) -> bool:
    if isinstance(v, ast.Constant):
        return True
    return dotted(v) is not None


def propagate_aliases(stmts: list[ast.stmt]) -> list[ast.stmt]:
    """Inlining introduces `_iN_param = <argument>` bindings.  When the argument is a plain name,
    attribute chain or constant and the temporary is bound exactly once, the temporary is replaced by
    the argument everywhere and the binding dropped (the helper's parameter *is* the argument)."""
    mod = ast.Module(body=stmts, type_ignores=[])
    counts: dict[str, int] = {}
    values: dict[str, ast.expr] = {}
    for n in ast.walk(mod):
        if isinstance(n, ast.Name) and isinstance(n.ctx, ast.Store):
            counts[n.id] = counts.get(n.id, 0) + 1
    stored_attrs = {norm(n) for n in ast.walk(mod) if isinstance(n, ast.Attribute) and isinstance(n.ctx, ast.Store)}
    for st_ in ast.walk(mod):
        # names bound by for/with/comprehension targets are not aliases
        pass
    for n in ast.walk(mod):
        if isinstance(n, ast.Assign) and len(n.targets) == 1 and isinstance(n.targets[0], ast.Name):
            t = n.targets[0].id
            temp = t.startswith("_i") or t.startswith("_g")
            if counts.get(t) != 1 or t.endswith("_ret"):
                continue
            if temp and _is_alias_value(n.value):
                values[t] = n.value
            elif not temp and isinstance(n.value, ast.Name) and n.value.id.startswith("_i") and not n.value.id.endswith("_ret") and counts.get(n.value.id) == 1:
                # a caller's local bound once to an inlined helper's local that is itself bound once: two names of one
                # object (also when that object is mutated through either name)
                values[t] = n.value
            elif not temp and isinstance(n.value, ast.Attribute) and dotted(n.value) is not None:
                # a caller's local bound once to a pure attribute chain that the function never rebinds
                chain = norm(n.value)
                if not any(sa == chain or chain.startswith(sa + ".") for sa in stored_attrs):
                    values[t] = n.value
    if not values:
        return stmts
    # the aliased source must not be rebound later in the function (parameters / attributes are assumed stable
    # across the helper body; locals of the caller that are reassigned are not propagated)
    stored = {}
    for n in ast.walk(mod):
        if isinstance(n, ast.Name) and isinstance(n.ctx, ast.Store):
            stored[n.id] = stored.get(n.id, 0) + 1
    for t, v in list(values.items()):
        if isinstance(v, ast.Name) and stored.get(v.id, 0) > 1:
            del values[t]

    def resolve(v, depth=0):
        while isinstance(v, ast.Name) and v.id in values and depth < 10:
            v = values[v.id]
            depth += 1
        return v

    class Sub(ast.NodeTransformer):
        def visit_Name(self, node):
            if isinstance(node.ctx, ast.Load) and node.id in values:
                return copy.deepcopy(resolve(values[node.id]))
            return node

    class Drop(ast.NodeTransformer):
        def visit_Assign(self, node):
            if len(node.targets) == 1 and isinstance(node.targets[0], ast.Name) and node.targets[0].id in values:
                return None
            return self.generic_visit(node)

    mod = Sub().visit(mod)
    mod = Drop().visit(mod)

    def fill(body):
        return body or [ast.Pass()]

    for n in ast.walk(mod):
        for blk in ("body",):
            b = getattr(n, blk, None)
            if isinstance(b, list) and not b and not isinstance(n, ast.Module):
                setattr(n, blk, [ast.Pass()])
    return mod.body


# --------------------------------------------------------------------------- accumulation loops
def canonical_accumulations(stmts: list[ast.stmt]) -> list[ast.stmt]:
    out: list[ast.stmt] = []
    i = 0
    while i < len(stmts):
        st = stmts[i]
        for blk in ("body", "orelse", "finalbody"):
            b = getattr(st, blk, None)
            if isinstance(b, list) and b and isinstance(b[0], ast.stmt):
                setattr(st, blk, canonical_accumulations(b))
        if isinstance(st, ast.Try):
            for h in st.handlers:
                h.body = canonical_accumulations(h.body)
        # xs = []; ys = []; for T in IT: [if C:] xs.append(E); ys.append(F)   →   one comprehension per list (loop fission:
        # the iterable and the guard are evaluated the same way in each, nothing reads the lists being built)
        fis = _fission(stmts, i)
        if fis is not None:
            new_stmts, consumed = fis
            out.extend(new_stmts)
            i += consumed
            continue
        # xs = [] ... for T in IT: [if C:] xs.append(E)
        if isinstance(st, (ast.Assign, ast.AnnAssign)) and st.value is not None:
            tgt = st.targets[0] if isinstance(st, ast.Assign) else st.target
            if isinstance(tgt, ast.Name):
                is_empty_list = isinstance(st.value, ast.List) and not st.value.elts
                is_zero = isinstance(st.value, ast.Constant) and st.value.value in (0, 0.0) and not isinstance(st.value.value, bool)
                is_empty_dict = (isinstance(st.value, ast.Dict) and not st.value.keys) or (isinstance(st.value, ast.Call) and norm(st.value.func) == "dict" and not st.value.args and not st.value.keywords)
                if is_empty_dict and i + 1 < len(stmts) and isinstance(stmts[i + 1], ast.For) and not stmts[i + 1].orelse:
                    # d = {} ; for T in IT: [if C:] d[K] = E   →   d = {K: E for T in IT [if C]}
                    lp = stmts[i + 1]
                    body = _subst_leading_assigns(lp.body)
                    conds = []
                    while True:
                        g_ = _guarded_single(body)
                        if g_ is None:
                            break
                        conds.append(g_[0])
                        body = _subst_leading_assigns(g_[1])
                    if len(body) == 1 and isinstance(body[0], ast.Assign) and len(body[0].targets) == 1 and isinstance(body[0].targets[0], ast.Subscript) \
                            and isinstance(body[0].targets[0].value, ast.Name) and body[0].targets[0].value.id == tgt.id \
                            and tgt.id not in {n.id for x_ in [body[0].value, body[0].targets[0].slice, lp.iter, *conds] for n in ast.walk(x_) if isinstance(n, ast.Name)}:
                        comp = ast.DictComp(key=body[0].targets[0].slice, value=body[0].value, generators=[ast.comprehension(target=lp.target, iter=lp.iter, ifs=conds, is_async=0)])
                        new = ast.Assign(targets=[ast.Name(id=tgt.id, ctx=ast.Store())], value=comp, lineno=st.lineno, col_offset=0)
                        ast.fix_missing_locations(new)
                        out.append(new)
                        i += 2
                        continue
                if (is_empty_list or is_zero) and i + 1 < len(stmts) and isinstance(stmts[i + 1], ast.For) and not stmts[i + 1].orelse:
                    lp = stmts[i + 1]
                    comp = _loop_to_comp(lp, tgt.id, is_empty_list)
                    if comp is not None:
                        new = ast.Assign(targets=[ast.Name(id=tgt.id, ctx=ast.Store())], value=comp, lineno=st.lineno, col_offset=0)
                        ast.fix_missing_locations(new)
                        out.append(new)
                        i += 2
                        continue
        out.append(st)
        i += 1
    return out


def _fission(stmts: list[ast.stmt], i: int):
    """`a = []; b = []; for T in IT: [if C:] a.append(E); b.append(F)` → `a = [E for T in IT if C]; b = [F for T in IT if C]`.
    Returns (replacement statements, number of statements consumed) or None."""
    names: list[str] = []
    inits: list[ast.stmt] = []
    j = i
    while j < len(stmts):
        st = stmts[j]
        if isinstance(st, (ast.Assign, ast.AnnAssign)) and st.value is not None:
            tgt = st.targets[0] if isinstance(st, ast.Assign) and len(st.targets) == 1 else (st.target if isinstance(st, ast.AnnAssign) else None)
            if isinstance(tgt, ast.Name) and ((isinstance(st.value, ast.List) and not st.value.elts) or (isinstance(st.value, ast.Call) and norm(st.value) == "list()")):
                names.append(tgt.id)
                inits.append(st)
                j += 1
                continue
        break
    if len(names) < 2 or j >= len(stmts) or not isinstance(stmts[j], ast.For) or stmts[j].orelse or len(set(names)) != len(names):
        return None
    lp = stmts[j]
    body = _subst_leading_assigns(lp.body)
    conds = []
    while True:
        g = _guarded_single(body) if len(body) == 1 else None
        if g is None:
            break
        conds.append(g[0])
        body = g[1]
    if len(body) != len(names):
        return None
    elts: dict[str, ast.expr] = {}
    for b in body:
        if not (isinstance(b, ast.Expr) and isinstance(b.value, ast.Call) and isinstance(b.value.func, ast.Attribute) and b.value.func.attr == "append"
                and isinstance(b.value.func.value, ast.Name) and b.value.func.value.id in names and len(b.value.args) == 1 and not b.value.keywords):
            return None
        if b.value.func.value.id in elts:
            return None
        elts[b.value.func.value.id] = b.value.args[0]
    if set(elts) != set(names):
        return None
    reads = {n.id for x in [lp.iter, *conds, *elts.values()] for n in ast.walk(x) if isinstance(n, ast.Name)}
    if reads & set(names) or any(isinstance(n, (ast.Call,)) and not _pure_call(n) for x in [lp.iter, *conds, *elts.values()] for n in ast.walk(x)):
        return None
    out = []
    for nm, init in zip(names, inits):
        comp = ast.ListComp(elt=copy.deepcopy(elts[nm]), generators=[ast.comprehension(target=copy.deepcopy(lp.target), iter=copy.deepcopy(lp.iter), ifs=[copy.deepcopy(c) for c in conds], is_async=0)])
        a = ast.Assign(targets=[ast.Name(id=nm, ctx=ast.Store())], value=comp, lineno=init.lineno, col_offset=0)
        out.append(ast.fix_missing_locations(a))
    return out, (j - i) + 1


def _pure_call(c: ast.Call) -> bool:
    """calls that may be evaluated twice without a visible difference (dictionary views, len, range …)"""
    f = c.func
    if isinstance(f, ast.Attribute) and f.attr in ("items", "values", "keys", "get", "copy"):
        return True
    return isinstance(f, ast.Name) and f.id in ("len", "range", "enumerate", "zip", "list", "tuple", "sorted", "int", "float", "str", "bool", "abs", "min", "max", "isinstance")


def _subst_leading_assigns(body: list[ast.stmt]) -> list[ast.stmt]:
    """`t = e; <stmt using t>` → `<stmt using e>` for leading single-use temporaries bound to call-free or
    pure expressions (used to see through inlined helper preludes inside loop bodies)."""
    body = list(body)
    changed = True
    while changed and len(body) > 1:
        changed = False
        first = body[0]
        if isinstance(first, ast.Assign) and len(first.targets) == 1 and isinstance(first.targets[0], ast.Name) and (first.targets[0].id.startswith("_i") or first.targets[0].id.startswith("_g")):
            nm, val = first.targets[0].id, first.value
            if isinstance(val, ast.Constant) and val.value is None and len(body) > 2 and isinstance(body[1], ast.Assign) and isinstance(body[1].targets[0], ast.Name) and body[1].targets[0].id == nm:
                body = body[1:]  # `ret = None` immediately overwritten
                changed = True
                continue

            class Sub(ast.NodeTransformer):
                def visit_Name(self, node):
                    if isinstance(node.ctx, ast.Load) and node.id == nm:
                        return copy.deepcopy(val)
                    return node

            rest = [Sub().visit(copy.deepcopy(x)) for x in body[1:]]
            body = rest
            changed = True
    return body


def _negate(test: ast.expr) -> ast.expr:
    """logical negation in canonical form (`x is None` ↔ `x is not None`, `==` ↔ `!=`, `in` ↔ `not in`, `not e` ↔ `e`)"""
    inv = {ast.Is: ast.IsNot, ast.IsNot: ast.Is, ast.Eq: ast.NotEq, ast.NotEq: ast.Eq, ast.In: ast.NotIn, ast.NotIn: ast.In}
    if isinstance(test, ast.Compare) and len(test.ops) == 1 and type(test.ops[0]) in inv:
        return ast.copy_location(ast.Compare(left=test.left, ops=[inv[type(test.ops[0])]()], comparators=test.comparators), test)
    if isinstance(test, ast.UnaryOp) and isinstance(test.op, ast.Not):
        return test.operand
    return ast.copy_location(ast.UnaryOp(op=ast.Not(), operand=test), test)


def _guarded_single(body):
    """`if c: S` and `if c: pass else: S` (the shape an early `continue` takes once structured) as (condition, [S])"""
    if len(body) == 1 and isinstance(body[0], ast.If):
        st = body[0]
        if not st.orelse:
            return st.test, st.body
        if all(isinstance(x, ast.Pass) for x in st.body):
            return _negate(st.test), st.orelse
    return None


def _loop_to_comp(lp: ast.For, name: str, as_list: bool):
    body = _subst_leading_assigns(lp.body)
    conds = []
    while True:
        g = _guarded_single(body)
        if g is None:
            break
        conds.append(g[0])
        body = _subst_leading_assigns(g[1])
    if len(body) != 1:
        return None
    s = body[0]
    # a guard (or element) that reads the accumulator itself — `if x not in seen: seen.append(x)` — depends on the
    # elements collected so far: that loop is not a comprehension
    reads_acc = lambda e: any(isinstance(n, ast.Name) and n.id == name for n in ast.walk(e))  # noqa: E731
    if any(reads_acc(c) for c in conds) or reads_acc(lp.iter):
        return None
    if as_list:
        if isinstance(s, ast.Expr) and isinstance(s.value, ast.Call) and norm(s.value.func) == f"{name}.append" and len(s.value.args) == 1:
            elt = s.value.args[0]
            if reads_acc(elt):
                return None
            return ast.ListComp(elt=elt, generators=[ast.comprehension(target=lp.target, iter=lp.iter, ifs=conds, is_async=0)])
        return None
    if isinstance(s, ast.AugAssign) and isinstance(s.op, ast.Add) and isinstance(s.target, ast.Name) and s.target.id == name and not reads_acc(s.value):
        comp = ast.ListComp(elt=s.value, generators=[ast.comprehension(target=lp.target, iter=lp.iter, ifs=conds, is_async=0)])
        return ast.Call(func=ast.Name(id="sum", ctx=ast.Load()), args=[comp], keywords=[])
    return None


def fold_known_none_tests(stmts: list[ast.stmt], scope: ast.AST) -> list[ast.stmt]:
    """`p = <something that is certainly not None>` immediately followed by `if p is None: …` (the default-argument
    idiom of an inlined helper called with an actual argument): the test is decided."""
    single: dict[str, ast.expr] = {}
    counts: dict[str, int] = {}
    for n in ast.walk(scope):
        if isinstance(n, ast.Name) and isinstance(n.ctx, ast.Store):
            counts[n.id] = counts.get(n.id, 0) + 1
    for n in ast.walk(scope):
        if isinstance(n, ast.Assign) and len(n.targets) == 1 and isinstance(n.targets[0], ast.Name) and counts.get(n.targets[0].id) == 1:
            single[n.targets[0].id] = n.value
        elif isinstance(n, ast.AnnAssign) and isinstance(n.target, ast.Name) and n.value is not None and counts.get(n.target.id) == 1:
            single[n.target.id] = n.value

    def not_none(e, depth=0):
        if isinstance(e, (ast.List, ast.Tuple, ast.Dict, ast.Set, ast.ListComp, ast.DictComp, ast.SetComp, ast.JoinedStr)):
            return True
        if isinstance(e, ast.Constant):
            return e.value is not None
        if isinstance(e, ast.Name) and e.id in single and depth < 3:
            return not_none(single[e.id], depth + 1)
        return False

    def go(block):
        out = []
        for k, st in enumerate(block):
            for fld in ("body", "orelse", "finalbody"):
                b = getattr(st, fld, None)
                if isinstance(b, list) and b and isinstance(b[0], ast.stmt):
                    setattr(st, fld, go(b) or [ast.Pass()] if fld == "body" else go(b))
            prev = out[-1] if out else None
            if (isinstance(st, ast.If) and isinstance(st.test, ast.Compare) and len(st.test.ops) == 1 and isinstance(st.test.ops[0], (ast.Is, ast.IsNot))
                    and isinstance(st.test.left, ast.Name) and isinstance(st.test.comparators[0], ast.Constant) and st.test.comparators[0].value is None
                    and isinstance(prev, ast.Assign) and len(prev.targets) == 1 and isinstance(prev.targets[0], ast.Name) and prev.targets[0].id == st.test.left.id
                    and (not_none(prev.value) or (isinstance(prev.value, ast.Constant) and prev.value.value is None))):
                holds = isinstance(prev.value, ast.Constant) and prev.value.value is None  # value of `X is None`
                if isinstance(st.test.ops[0], ast.IsNot):
                    holds = not holds
                taken = list(st.body if holds else st.orelse)
                # `X = None` overwritten right away by the taken arm: the first store is dead
                if taken and isinstance(taken[0], ast.Assign) and len(taken[0].targets) == 1 and isinstance(taken[0].targets[0], ast.Name) and taken[0].targets[0].id == prev.targets[0].id \
                        and isinstance(prev.value, ast.Constant) and not any(isinstance(n_, ast.Name) and n_.id == prev.targets[0].id for n_ in ast.walk(taken[0].value)):
                    out.pop()
                out.extend(taken)
                continue
            out.append(st)
        return out

    return go(stmts)


def slot_tables_to_mappings(stmts: list[ast.stmt], scope: ast.AST) -> list[ast.stmt]:
    """A dense table of optional entries filled from (index, value) pairs and then walked in order

        T = [None for _ in range(N)]          (or [None] * N)
        for i, v in zip(I, V): T[i] = v
        for x in T: if x is None: A  else: B(x)

    is the sparse mapping `M = dict(zip(I, V))` walked as `for k in range(N): if k in M: B(M[k]) else: A`
    (T used nowhere else).  Both say: slot k carries V[j] where I[j] == k, every other slot is free."""
    out = list(stmts)
    i = 0
    while i + 2 < len(out) + 0:
        a, b = out[i], out[i + 1]
        j = i + 2
        if j >= len(out):
            break
        c = out[j]
        tname = a.targets[0].id if isinstance(a, ast.Assign) and len(a.targets) == 1 and isinstance(a.targets[0], ast.Name) else (a.target.id if isinstance(a, ast.AnnAssign) and isinstance(a.target, ast.Name) and a.value is not None else None)
        n_expr = None
        if tname:
            v = a.value
            if isinstance(v, ast.ListComp) and isinstance(v.elt, ast.Constant) and v.elt.value is None and len(v.generators) == 1 and not v.generators[0].ifs \
                    and isinstance(v.generators[0].iter, ast.Call) and norm(v.generators[0].iter.func) == "range" and len(v.generators[0].iter.args) == 1:
                n_expr = v.generators[0].iter.args[0]
            elif isinstance(v, ast.BinOp) and isinstance(v.op, ast.Mult) and isinstance(v.left, ast.List) and len(v.left.elts) == 1 and isinstance(v.left.elts[0], ast.Constant) and v.left.elts[0].value is None:
                n_expr = v.right
        ok = n_expr is not None
        if ok:
            ok = (isinstance(b, ast.For) and not b.orelse and isinstance(b.target, ast.Tuple) and len(b.target.elts) == 2 and all(isinstance(e_, ast.Name) for e_ in b.target.elts)
                  and isinstance(b.iter, ast.Call) and norm(b.iter.func) == "zip" and len(b.iter.args) == 2 and len(b.body) == 1 and isinstance(b.body[0], ast.Assign)
                  and norm(b.body[0].targets[0]) == f"{tname}[{b.target.elts[0].id}]" and norm(b.body[0].value) == b.target.elts[1].id)
        if ok:
            ok = (isinstance(c, ast.For) and not c.orelse and isinstance(c.target, ast.Name) and norm(c.iter) == tname and len(c.body) == 1 and isinstance(c.body[0], ast.If)
                  and norm(c.body[0].test) in (f"{c.target.id} is None", f"{c.target.id} is not None"))
        if ok:
            uses = sum(1 for n in ast.walk(scope) if isinstance(n, ast.Name) and n.id == tname)
            ok = uses == 3  # definition, the fill store, the walk
        if not ok:
            i += 1
            continue
        mname = f"_g{_Counter.fresh()}_map"
        kname = f"_g{_Counter.fresh()}_slot"
        iff = c.body[0]
        free, taken = (iff.body, iff.orelse) if norm(iff.test).endswith("is None") else (iff.orelse, iff.body)
        xname = c.target.id

        class Sub(ast.NodeTransformer):
            def visit_Name(self, node):
                if node.id == xname and isinstance(node.ctx, ast.Load):
                    return ast.Subscript(value=ast.Name(id=mname, ctx=ast.Load()), slice=ast.Name(id=kname, ctx=ast.Load()), ctx=ast.Load())
                return node

        taken2 = [Sub().visit(copy.deepcopy(x)) for x in taken] or [ast.Pass()]
        new_a = ast.Assign(targets=[ast.Name(id=mname, ctx=ast.Store())], value=ast.Call(func=ast.Name(id="dict", ctx=ast.Load()), args=[b.iter], keywords=[]), lineno=a.lineno, col_offset=0)
        new_loop = ast.For(target=ast.Name(id=kname, ctx=ast.Store()), iter=ast.Call(func=ast.Name(id="range", ctx=ast.Load()), args=[n_expr], keywords=[]),
                           body=[ast.If(test=ast.Compare(left=ast.Name(id=kname, ctx=ast.Load()), ops=[ast.In()], comparators=[ast.Name(id=mname, ctx=ast.Load())]), body=taken2, orelse=list(free))],
                           orelse=[], lineno=c.lineno, col_offset=0)
        for s_ in (new_a, new_loop):
            ast.fix_missing_locations(s_)
        out[i:j + 1] = [new_a, new_loop]
        i += 2
    return out


def beta_reduce_lambdas(fn: ast.FunctionDef) -> ast.FunctionDef:
    """`f = lambda x: e` bound once, then `f(a)`: the call is `e[x:=a]` (arguments that are names, attributes or
    constants only, so nothing is evaluated twice or out of order); an unused binding is dropped."""
    lam: dict[str, ast.Lambda] = {}
    stores: dict[str, int] = {}
    for n in ast.walk(fn):
        if isinstance(n, ast.Name) and isinstance(n.ctx, ast.Store):
            stores[n.id] = stores.get(n.id, 0) + 1
    for n in ast.walk(fn):
        if isinstance(n, ast.Assign) and len(n.targets) == 1 and isinstance(n.targets[0], ast.Name) and isinstance(n.value, ast.Lambda) and stores.get(n.targets[0].id) == 1:
            a = n.value.args
            if not (a.vararg or a.kwarg or a.kwonlyargs or a.defaults or a.posonlyargs):
                lam[n.targets[0].id] = n.value
    if not lam:
        return fn

    def simple(e):
        return isinstance(e, (ast.Name, ast.Constant)) or (isinstance(e, ast.Attribute) and dotted(e) is not None)

    class T(ast.NodeTransformer):
        def visit_Call(self, node):
            self.generic_visit(node)
            if isinstance(node.func, ast.Name) and node.func.id in lam and not node.keywords:
                L_ = lam[node.func.id]
                ps = [x.arg for x in L_.args.args]
                if len(ps) == len(node.args) and all(simple(a_) for a_ in node.args):
                    mp = dict(zip(ps, node.args))

                    class Sub(ast.NodeTransformer):
                        def visit_Name(self, n2):
                            if isinstance(n2.ctx, ast.Load) and n2.id in mp:
                                return copy.deepcopy(mp[n2.id])
                            return n2

                    return ast.copy_location(Sub().visit(copy.deepcopy(L_.body)), node)
            return node

    fn = T().visit(fn)
    used = {n.id for n in ast.walk(fn) if isinstance(n, ast.Name) and isinstance(n.ctx, ast.Load)}

    def prune(block):
        out = []
        for st in block:
            for fld in ("body", "orelse", "finalbody"):
                b = getattr(st, fld, None)
                if isinstance(b, list) and b and isinstance(b[0], ast.stmt):
                    setattr(st, fld, prune(b) or [ast.Pass()])
            if isinstance(st, ast.Try):
                for h in st.handlers:
                    h.body = prune(h.body) or [ast.Pass()]
            if isinstance(st, ast.Assign) and len(st.targets) == 1 and isinstance(st.targets[0], ast.Name) and st.targets[0].id in lam and st.targets[0].id not in used:
                continue
            out.append(st)
        return out

    fn.body = prune(fn.body)
    return fn


def split_tuple_assignments(stmts: list[ast.stmt]) -> list[ast.stmt]:
    """`a, b = (e1, e2)` with plain names on the left that occur in none of the right-hand expressions is `a = e1; b = e2`."""
    out = []
    for st in stmts:
        for fld in ("body", "orelse", "finalbody"):
            b = getattr(st, fld, None)
            if isinstance(b, list) and b and isinstance(b[0], ast.stmt):
                setattr(st, fld, split_tuple_assignments(b))
        if isinstance(st, ast.Try):
            for h in st.handlers:
                h.body = split_tuple_assignments(h.body)
        if (isinstance(st, ast.Assign) and len(st.targets) == 1 and isinstance(st.targets[0], ast.Tuple) and isinstance(st.value, ast.Tuple)
                and len(st.targets[0].elts) == len(st.value.elts) and all(isinstance(t, ast.Name) for t in st.targets[0].elts)
                and not any(isinstance(e, ast.Starred) for e in st.value.elts)):
            names = {t.id for t in st.targets[0].elts}
            used = {n.id for e in st.value.elts for n in ast.walk(e) if isinstance(n, ast.Name)}
            if not (names & used):
                for t, e in zip(st.targets[0].elts, st.value.elts):
                    a = ast.Assign(targets=[ast.Name(id=t.id, ctx=ast.Store())], value=e, lineno=st.lineno, col_offset=0)
                    ast.fix_missing_locations(a)
                    out.append(a)
                continue
        out.append(st)
    return out


def scalar_replace_records(stmts: list[ast.stmt], prog: Program, fi: FuncInfo) -> list[ast.stmt]:
    """`r = Record(a, b)` (a NamedTuple / plain dataclass of the package) whose only uses are field reads `r.f`, tuple
    unpacking `x, y = r` and index reads `r[0]`: replaced by one local per field (`r__f = a`), uses rewritten."""
    mod = ast.Module(body=stmts, type_ignores=[])
    counts: dict[str, int] = {}
    for n in ast.walk(mod):
        if isinstance(n, ast.Name) and isinstance(n.ctx, ast.Store):
            counts[n.id] = counts.get(n.id, 0) + 1
    cands: dict[str, tuple[ast.Assign, list[str], dict[str, ast.expr]]] = {}
    for n in ast.walk(mod):
        if isinstance(n, ast.Assign) and len(n.targets) == 1 and isinstance(n.targets[0], ast.Name) and counts.get(n.targets[0].id) == 1 and isinstance(n.value, ast.Call):
            d = dotted(n.value.func)
            ci = prog.classes.get(prog.resolve_dotted(fi.module, d)) if d else None
            rf = record_fields(prog, ci) if ci is not None else None
            if rf is None or any(isinstance(a, ast.Starred) for a in n.value.args) or any(k.arg is None for k in n.value.keywords):
                continue
            names = [x for x, _d in rf]
            vals: dict[str, ast.expr] = dict(zip(names, n.value.args))
            ok = len(n.value.args) <= len(names)
            for k in n.value.keywords:
                if k.arg not in names or k.arg in vals:
                    ok = False
                else:
                    vals[k.arg] = k.value
            for x, dflt in rf:
                if x not in vals:
                    if dflt is None:
                        ok = False
                    else:
                        vals[x] = dflt
            if ok:
                cands[n.targets[0].id] = (n, names, vals)
    # `x, y, z = Record(a, b, c)`: the record never escapes — element-wise assignment
    def _record_call(v):
        if not isinstance(v, ast.Call):
            return None
        d = dotted(v.func)
        ci = prog.classes.get(prog.resolve_dotted(fi.module, d)) if d else None
        rf = record_fields(prog, ci) if ci is not None else None
        if rf is None or v.keywords or any(isinstance(a, ast.Starred) for a in v.args) or len(v.args) != len(rf):
            return None
        return list(v.args)

    class U(ast.NodeTransformer):
        def visit_Assign(self, node):
            if len(node.targets) == 1 and isinstance(node.targets[0], (ast.Tuple, ast.List)) and not any(isinstance(e_, ast.Starred) for e_ in node.targets[0].elts):
                vals = _record_call(node.value)
                if vals is not None and len(vals) == len(node.targets[0].elts):
                    return ast.fix_missing_locations(ast.copy_location(ast.Assign(targets=[node.targets[0]], value=ast.Tuple(elts=vals, ctx=ast.Load()), lineno=node.lineno), node))
            return node

    mod = U().visit(mod)
    stmts = mod.body
    stmts = _tupleize_namedtuples(stmts, prog, fi)
    mod = ast.Module(body=stmts, type_ignores=[])
    if not cands:
        return stmts
    # every use must be a field read, an unpacking, or a constant index
    parents: dict[int, ast.AST] = {}
    for p in ast.walk(mod):
        for ch in ast.iter_child_nodes(p):
            parents[id(ch)] = p
    for n in ast.walk(mod):
        if isinstance(n, ast.Name) and isinstance(n.ctx, ast.Load) and n.id in cands:
            p = parents.get(id(n))
            names = cands[n.id][1]
            fine = (isinstance(p, ast.Attribute) and p.value is n and p.attr in names and isinstance(p.ctx, ast.Load)) \
                or (isinstance(p, ast.Subscript) and p.value is n and isinstance(p.slice, ast.Constant) and isinstance(p.slice.value, int) and -len(names) <= p.slice.value < len(names) and isinstance(p.ctx, ast.Load)) \
                or (isinstance(p, ast.Assign) and p.value is n and len(p.targets) == 1 and isinstance(p.targets[0], (ast.Tuple, ast.List)) and len(p.targets[0].elts) == len(names)
                    and not any(isinstance(e_, ast.Starred) for e_ in p.targets[0].elts))
            if not fine:
                del cands[n.id]
    if not cands:
        return stmts

    def fname(r, f):
        return f"{r}__{f}"

    class T(ast.NodeTransformer):
        def visit_Assign(self, node):
            if len(node.targets) == 1 and isinstance(node.targets[0], ast.Name) and node.targets[0].id in cands and cands[node.targets[0].id][0] is node:
                r = node.targets[0].id
                _n, names, vals = cands[r]
                out = []
                for f in names:
                    a = ast.Assign(targets=[ast.Name(id=fname(r, f), ctx=ast.Store())], value=self.visit(vals[f]), lineno=node.lineno, col_offset=0)
                    out.append(ast.fix_missing_locations(a))
                return out
            if isinstance(node.value, ast.Name) and node.value.id in cands and isinstance(node.targets[0], (ast.Tuple, ast.List)):
                r = node.value.id
                out = []
                for t, f in zip(node.targets[0].elts, cands[r][1]):
                    a = ast.Assign(targets=[t], value=ast.Name(id=fname(r, f), ctx=ast.Load()), lineno=node.lineno, col_offset=0)
                    out.append(ast.fix_missing_locations(a))
                return out
            return self.generic_visit(node)

        def visit_Attribute(self, node):
            if isinstance(node.value, ast.Name) and node.value.id in cands and node.attr in cands[node.value.id][1]:
                return ast.copy_location(ast.Name(id=fname(node.value.id, node.attr), ctx=ast.Load()), node)
            return self.generic_visit(node)

        def visit_Subscript(self, node):
            if isinstance(node.value, ast.Name) and node.value.id in cands and isinstance(node.slice, ast.Constant) and isinstance(node.slice.value, int):
                names = cands[node.value.id][1]
                return ast.copy_location(ast.Name(id=fname(node.value.id, names[node.slice.value]), ctx=ast.Load()), node)
            return self.generic_visit(node)

    return T().visit(mod).body


def _tupleize_namedtuples(stmts: list[ast.stmt], prog: Program, fi: FuncInfo) -> list[ast.stmt]:
    """A local bound in SEVERAL places (branches) to `NT(a, b)` — a typing.NamedTuple of the package — or to other values,
    and only ever read by index, by field name or by unpacking: the constructions become plain tuples `(a, b)` and the
    field reads index reads.  (A NamedTuple is a tuple; nothing else about it is observed by such uses.)"""
    mod = ast.Module(body=stmts, type_ignores=[])

    def nt_call(v):
        if not isinstance(v, ast.Call):
            return None
        d = dotted(v.func)
        ci = prog.classes.get(prog.resolve_dotted(fi.module, d)) if d else None
        if ci is None or not any(norm(b).split(".")[-1] == "NamedTuple" for b in ci.node.bases):
            return None
        rf = record_fields(prog, ci)
        if rf is None or any(isinstance(a, ast.Starred) for a in v.args) or any(k.arg is None for k in v.keywords):
            return None
        names = [x for x, _d in rf]
        vals = dict(zip(names, v.args))
        for k in v.keywords:
            if k.arg not in names or k.arg in vals:
                return None
            vals[k.arg] = k.value
        for x, dflt in rf:
            if x not in vals:
                if dflt is None:
                    return None
                vals[x] = dflt
        return names, [vals[x] for x in names]

    var_fields: dict[str, list[str]] = {}
    for n in ast.walk(mod):
        if isinstance(n, ast.Assign) and len(n.targets) == 1 and isinstance(n.targets[0], ast.Name):
            r = nt_call(n.value)
            if r is not None:
                prev = var_fields.get(n.targets[0].id)
                if prev is not None and prev != r[0]:
                    var_fields[n.targets[0].id] = ["<conflict>"]
                else:
                    var_fields[n.targets[0].id] = r[0]
    var_fields = {k: v for k, v in var_fields.items() if v != ["<conflict>"]}
    if not var_fields:
        return stmts
    parents: dict[int, ast.AST] = {}
    for p in ast.walk(mod):
        for ch in ast.iter_child_nodes(p):
            parents[id(ch)] = p
    for n in ast.walk(mod):
        if isinstance(n, ast.Name) and isinstance(n.ctx, ast.Load) and n.id in var_fields:
            p = parents.get(id(n))
            names = var_fields[n.id]
            fine = (isinstance(p, ast.Attribute) and p.value is n and p.attr in names and isinstance(p.ctx, ast.Load)) \
                or (isinstance(p, ast.Subscript) and p.value is n and isinstance(p.ctx, ast.Load)) \
                or (isinstance(p, ast.Assign) and p.value is n and len(p.targets) == 1 and isinstance(p.targets[0], (ast.Tuple, ast.List)))
            if not fine:
                var_fields.pop(n.id, None)
    if not var_fields:
        return stmts

    class T(ast.NodeTransformer):
        def visit_Assign(self, node):
            self.generic_visit(node)
            if len(node.targets) == 1 and isinstance(node.targets[0], ast.Name) and node.targets[0].id in var_fields:
                r = nt_call(node.value)
                if r is not None:
                    node.value = ast.copy_location(ast.Tuple(elts=r[1], ctx=ast.Load()), node.value)
            return node

        def visit_Attribute(self, node):
            if isinstance(node.value, ast.Name) and node.value.id in var_fields and node.attr in var_fields[node.value.id] and isinstance(node.ctx, ast.Load):
                return ast.copy_location(ast.Subscript(value=node.value, slice=ast.Constant(value=var_fields[node.value.id].index(node.attr)), ctx=ast.Load()), node)
            return self.generic_visit(node)

    out = T().visit(mod).body
    for x in out:
        ast.fix_missing_locations(x)
    return out


_NP_VIEW_FUNCS = {"asarray", "asanyarray", "ravel", "reshape", "transpose", "squeeze", "atleast_1d", "atleast_2d", "atleast_3d", "broadcast_to", "diagonal", "swapaxes", "moveaxis", "expand_dims", "frombuffer", "ascontiguousarray", "asfortranarray"}
_FRESH_METHODS = {"copy", "astype", "get_positions", "get_momenta", "get_masses", "get_cell", "get_velocities", "get_forces", "get_scaled_positions", "standard_normal", "uniform", "random", "normal", "integers", "tolist", "sum", "mean", "std", "dot", "flatten"}
_NONRETAINING_METHODS = {"set_positions", "set_momenta", "set_cell", "set_array", "set_velocities", "set_scaled_positions", "set_masses"}
_NONRETAINING_FUNCS = {"len", "float", "int", "range", "min", "max", "sum", "abs", "isinstance", "print", "bool", "str", "repr", "type", "id", "sorted", "any", "all"}


def _fresh_value(e: ast.expr) -> bool:
    """does evaluating `e` give an object nobody else holds (a new array / number)?"""
    if isinstance(e, (ast.BinOp, ast.UnaryOp, ast.Compare, ast.Constant, ast.JoinedStr, ast.List, ast.ListComp, ast.Tuple, ast.Dict, ast.DictComp, ast.Set)):
        return True
    if isinstance(e, ast.IfExp):
        return _fresh_value(e.body) and _fresh_value(e.orelse)
    if isinstance(e, ast.Call):
        if any(k.arg == "out" for k in e.keywords):
            return False
        fn = norm(e.func)
        head = fn.split(".")[0]
        if head in ("np", "numpy", "math"):
            return fn.split(".")[-1] not in _NP_VIEW_FUNCS
        if fn in ("expm", "scipy.linalg.expm", "exp", "sqrt", "log", "float", "int", "len", "abs", "list", "tuple", "dict", "deepcopy", "copy.deepcopy"):
            return True
        if isinstance(e.func, ast.Attribute) and e.func.attr in _FRESH_METHODS:
            return True
    return False


def privatize_inplace(stmts: list[ast.stmt], fn: ast.FunctionDef) -> list[ast.stmt]:
    """In-place arithmetic on an array nobody else can see is the same as rebinding its name:

        buf = np.zeros(n); buf += x          →  buf = np.zeros(n); buf = buf + x
        np.multiply(a, b, out=buf)           →  buf = np.multiply(a, b)
        np.sqrt(buf, out=buf)                →  buf = np.sqrt(buf)
        buf.fill(v)                          →  buf = np.full_like(buf, v)

    A local qualifies when every binding of it is a freshly allocated value (an allocation, arithmetic, a copy, an ASE
    getter that returns a copy, a generator draw) and the object never gets a second name: it is not assigned to another
    name or attribute, not put into a container, no view of it is bound, it is not returned before… (returning is fine),
    and it is only passed to callees known not to keep it (numpy / math functions, ASE's copying setters, builtins)."""
    mod = ast.Module(body=stmts, type_ignores=[])
    params = {a.arg for a in fn.args.posonlyargs + fn.args.args + fn.args.kwonlyargs}
    binds: dict[str, list] = {}
    other_stores: set[str] = set()
    for n in ast.walk(mod):
        if isinstance(n, (ast.Assign, ast.AnnAssign)) and n.value is not None:
            for t in (n.targets if isinstance(n, ast.Assign) else [n.target]):
                if isinstance(t, ast.Name):
                    binds.setdefault(t.id, []).append(n.value)
                elif isinstance(t, (ast.Tuple, ast.List)):
                    other_stores |= {x.id for x in ast.walk(t) if isinstance(x, ast.Name)}
        elif isinstance(n, (ast.For, ast.comprehension)):
            other_stores |= {x.id for x in ast.walk(n.target) if isinstance(x, ast.Name)}
        elif isinstance(n, ast.With):
            for it in n.items:
                if it.optional_vars is not None:
                    other_stores |= {x.id for x in ast.walk(it.optional_vars) if isinstance(x, ast.Name)}
        elif isinstance(n, ast.NamedExpr):
            other_stores.add(n.target.id)
        elif isinstance(n, ast.ExceptHandler) and n.name:
            other_stores.add(n.name)
    cands = {x for x, vs in binds.items() if x not in params and x not in other_stores and all(_fresh_value(v) for v in vs)}
    if not cands:
        return stmts
    parents: dict[int, ast.AST] = {}
    for p in ast.walk(mod):
        for ch in ast.iter_child_nodes(p):
            parents[id(ch)] = p

    def escapes(name_node: ast.Name) -> bool:
        p = parents.get(id(name_node))
        # the name itself as a value that gets a second holder
        if isinstance(p, (ast.Assign, ast.AnnAssign)) and p.value is name_node:
            return True
        if isinstance(p, (ast.List, ast.Tuple, ast.Set, ast.Dict, ast.Starred, ast.Yield, ast.YieldFrom, ast.keyword)) and not (isinstance(p, ast.keyword) and p.arg == "out"):
            if isinstance(p, ast.keyword):
                gp = parents.get(id(p))
                return not _nonretaining(gp)
            if isinstance(p, ast.Tuple) and isinstance(parents.get(id(p)), ast.Subscript):
                return False  # an index tuple
            return True
        if isinstance(p, ast.Call) and name_node in p.args:
            return not _nonretaining(p)
        if isinstance(p, ast.Attribute) and p.value is name_node:
            gp = parents.get(id(p))
            if p.attr in ("T", "flat", "real", "imag"):
                return True  # a view gets a name / is used: keep it simple
            if isinstance(gp, ast.Call) and gp.func is p:
                return p.attr in ("view", "reshape", "ravel", "squeeze", "transpose", "swapaxes", "diagonal")
            return False
        if isinstance(p, ast.Subscript) and p.value is name_node:
            gp = parents.get(id(p))
            # `y = x[...]` binds a view; reading x[...] inside arithmetic or storing into x[...] does not
            return isinstance(gp, (ast.Assign, ast.AnnAssign)) and gp.value is p
        return False

    def _nonretaining(call) -> bool:
        if not isinstance(call, ast.Call):
            return False
        fn_ = norm(call.func)
        if fn_.split(".")[0] in ("np", "numpy", "math") or fn_ in _NONRETAINING_FUNCS or fn_ in ("expm", "exp", "sqrt", "log"):
            return True
        return isinstance(call.func, ast.Attribute) and call.func.attr in _NONRETAINING_METHODS

    # position of every node: index of the top-level statement that contains it
    # (statements numbered in source order, nested ones included: inside one `if` arm an update precedes a later store)
    top_of: dict[int, int] = {}
    counter_ = [0]

    # number innermost statements last so that their own nodes get their own number
    def _assign_numbers(stmts_):
        for st_ in stmts_:
            counter_[0] += 1
            me = counter_[0]
            nested = []
            for fld in ("body", "orelse", "finalbody"):
                b_ = getattr(st_, fld, None)
                if isinstance(b_, list) and b_ and isinstance(b_[0], ast.stmt):
                    nested.append(b_)
            for h_ in getattr(st_, "handlers", []) or []:
                nested.append(h_.body)
            inner_ids = {id(x) for b_ in nested for s2 in b_ for x in ast.walk(s2)}
            for n in ast.walk(st_):
                if id(n) not in inner_ids:
                    top_of[id(n)] = me
            for b_ in nested:
                _assign_numbers(b_)

    _assign_numbers(mod.body)
    first_escape: dict[str, int] = {}
    for n in ast.walk(mod):
        if isinstance(n, ast.Name) and isinstance(n.ctx, ast.Load) and n.id in cands and escapes(n):
            first_escape[n.id] = min(first_escape.get(n.id, 10**9), top_of.get(id(n), -1))
    # an object that gets a second holder LATER (`self.strain = buf` after the updates) was still private while it was
    # updated: in-place operations in top-level statements strictly before the first escape are rewritten, the others are not
    limit: dict[str, int] = {x: first_escape.get(x, 10**9) for x in cands}
    ops = {ast.Add, ast.Sub, ast.Mult, ast.Div, ast.Pow, ast.FloorDiv, ast.Mod, ast.MatMult}

    def private_at(name: str, node) -> bool:
        if name not in cands:
            return False
        pos = top_of.get(id(node), 10**9)
        if pos >= limit[name]:
            return False
        # inside a loop an earlier iteration's escape could precede this operation: only straight-line positions count when
        # the name escapes at all
        if name in first_escape:
            p_ = parents.get(id(node))
            while p_ is not None and p_ is not mod:
                if isinstance(p_, (ast.For, ast.While, ast.AsyncFor)):
                    return False
                p_ = parents.get(id(p_))
        return True

    class T(ast.NodeTransformer):
        def visit_AugAssign(self, node):
            self.generic_visit(node)
            if isinstance(node.target, ast.Name) and private_at(node.target.id, node) and type(node.op) in ops:
                new = ast.Assign(targets=[ast.Name(id=node.target.id, ctx=ast.Store())],
                                 value=ast.BinOp(left=ast.Name(id=node.target.id, ctx=ast.Load()), op=node.op, right=node.value), lineno=node.lineno, col_offset=0)
                return ast.fix_missing_locations(ast.copy_location(new, node))
            return node

        def visit_Expr(self, node):
            self.generic_visit(node)
            c = node.value
            if isinstance(c, ast.Call):
                outs = [k for k in c.keywords if k.arg == "out"]
                # (with `where=` the entries that are not selected KEEP what the out array held: that call is not a rebinding)
                if len(outs) == 1 and isinstance(outs[0].value, ast.Name) and private_at(outs[0].value.id, node) and norm(c.func).split(".")[0] in ("np", "numpy") \
                        and not any(k.arg == "where" for k in c.keywords):
                    call2 = ast.Call(func=c.func, args=c.args, keywords=[k for k in c.keywords if k.arg != "out"])
                    new = ast.Assign(targets=[ast.Name(id=outs[0].value.id, ctx=ast.Store())], value=call2, lineno=node.lineno, col_offset=0)
                    return ast.fix_missing_locations(ast.copy_location(new, node))
                if isinstance(c.func, ast.Attribute) and c.func.attr == "fill" and isinstance(c.func.value, ast.Name) and private_at(c.func.value.id, node) and len(c.args) == 1:
                    call2 = ast.Call(func=ast.Attribute(value=ast.Name(id="np", ctx=ast.Load()), attr="full_like", ctx=ast.Load()), args=[ast.Name(id=c.func.value.id, ctx=ast.Load()), c.args[0]], keywords=[])
                    new = ast.Assign(targets=[ast.Name(id=c.func.value.id, ctx=ast.Store())], value=call2, lineno=node.lineno, col_offset=0)
                    return ast.fix_missing_locations(ast.copy_location(new, node))
            return node

        def visit_Assign(self, node):
            self.generic_visit(node)
            # `y = np.f(a, out=x)` with y is x (same name): the out array holds the result
            if len(node.targets) == 1 and isinstance(node.targets[0], ast.Name) and isinstance(node.value, ast.Call):
                outs = [k for k in node.value.keywords if k.arg == "out"]
                if len(outs) == 1 and isinstance(outs[0].value, ast.Name) and outs[0].value.id == node.targets[0].id and private_at(node.targets[0].id, node) \
                        and not any(k.arg == "where" for k in node.value.keywords):
                    node.value = ast.Call(func=node.value.func, args=node.value.args, keywords=[k for k in node.value.keywords if k.arg != "out"])
            return node

    return T().visit(mod).body


def collapse_temps(stmts: list[ast.stmt], scope: ast.AST) -> list[ast.stmt]:
    """`_iK_ret = <value>` immediately followed by `x = _iK_ret` (the temp's only use) is `x = <value>`."""
    uses: dict[str, int] = {}
    stores: dict[str, int] = {}
    for n in ast.walk(scope):
        if isinstance(n, ast.Name) and n.id.startswith("_i"):
            if isinstance(n.ctx, ast.Load):
                uses[n.id] = uses.get(n.id, 0) + 1
            else:
                stores[n.id] = stores.get(n.id, 0) + 1

    def go(block):
        out = []
        i = 0
        while i < len(block):
            st = block[i]
            for fld in ("body", "orelse", "finalbody"):
                b = getattr(st, fld, None)
                if isinstance(b, list) and b and isinstance(b[0], ast.stmt):
                    setattr(st, fld, go(b))
            if isinstance(st, ast.Try):
                for h in st.handlers:
                    h.body = go(h.body)
            nxt = block[i + 1] if i + 1 < len(block) else None
            if (isinstance(st, ast.Assign) and len(st.targets) == 1 and isinstance(st.targets[0], ast.Name) and st.targets[0].id.startswith("_i")
                    and stores.get(st.targets[0].id) == 1 and uses.get(st.targets[0].id) == 1
                    and isinstance(nxt, (ast.Assign, ast.AnnAssign)) and isinstance(nxt.value, ast.Name) and nxt.value.id == st.targets[0].id):
                nxt.value = st.value
                i += 1
                continue
            out.append(st)
            i += 1
        return out

    return go(stmts)


class _StripAsarray(ast.NodeTransformer):
    """`np.asarray(x)` / `np.asanyarray(x)` without a dtype is `x` as far as values go (and an alias of `x` as far as
    storage goes — which the plain name expresses as well)."""

    def visit_Call(self, node):
        self.generic_visit(node)
        if norm(node.func) in ("np.asarray", "np.asanyarray", "numpy.asarray", "numpy.asanyarray") and len(node.args) == 1 and not node.keywords and not isinstance(node.args[0], ast.Starred):
            return node.args[0]
        return node


class _CanonExpr(ast.NodeTransformer):
    """expression-level canonical forms: `{k: v for k, v in it}` is `dict(it)`"""

    def visit_UnaryOp(self, node):
        self.generic_visit(node)
        if isinstance(node.op, ast.Not) and isinstance(node.operand, ast.Compare) and len(node.operand.ops) == 1 \
                and isinstance(node.operand.ops[0], (ast.Is, ast.IsNot, ast.In, ast.NotIn)):
            return _negate(node.operand)
        return node

    def visit_DictComp(self, node):
        self.generic_visit(node)
        if len(node.generators) == 1:
            g = node.generators[0]
            if not g.ifs and not g.is_async and isinstance(g.target, ast.Tuple) and len(g.target.elts) == 2 and all(isinstance(t, ast.Name) for t in g.target.elts) \
                    and isinstance(node.key, ast.Name) and isinstance(node.value, ast.Name) and node.key.id == g.target.elts[0].id and node.value.id == g.target.elts[1].id \
                    and node.key.id != node.value.id:
                return ast.copy_location(ast.Call(func=ast.Name(id="dict", ctx=ast.Load()), args=[g.iter], keywords=[]), node)
        return node


def expand_expression_methods(prog: Program, cls: ClassInfo, e: ast.expr, receivers: set[str], depth: int = 0) -> ast.expr:
    """Replace calls `r.m(args)` — r one of `receivers` (texts of expressions known to denote instances of `cls`), m a
    method of `cls` whose normalised body is a single `return <expr>` — by that expression with self and the parameters
    substituted.  Used where a rule reads a predicate that a refactoring may have moved into a method of the stored
    object (`storage.is_due(step)`)."""
    if depth > 2:
        return e

    class T(ast.NodeTransformer):
        def visit_Call(self, node):
            self.generic_visit(node)
            f = node.func
            if isinstance(f, ast.Attribute) and norm(f.value) in receivers and not any(isinstance(a, ast.Starred) for a in node.args):
                m = prog.lookup_method(cls, f.attr)
                if m is not None and m.kind == "method" and eligible(m):
                    body = flat(prog, m, cls).body()
                    body = [b for b in body if not (isinstance(b, ast.Expr) and isinstance(b.value, ast.Constant))]
                    if len(body) == 1 and isinstance(body[0], ast.Return) and body[0].value is not None:
                        params = [a.arg for a in m.node.args.args]
                        mp: dict[str, ast.expr] = {params[0]: f.value} if params else {}
                        for pn, av in zip(params[1:], node.args):
                            mp[pn] = av
                        for kw in node.keywords:
                            if kw.arg:
                                mp[kw.arg] = kw.value
                        defaults = m.node.args.defaults
                        for pn, dv in zip(params[len(params) - len(defaults):], defaults):
                            mp.setdefault(pn, dv)
                        if all(pn in mp for pn in params):
                            class Sub(ast.NodeTransformer):
                                def visit_Name(self, n2):
                                    if isinstance(n2.ctx, ast.Load) and n2.id in mp:
                                        return copy.deepcopy(mp[n2.id])
                                    return n2

                            out = Sub().visit(copy.deepcopy(body[0].value))
                            return expand_expression_methods(prog, cls, out, receivers, depth + 1)
            return node

    return T().visit(copy.deepcopy(e))


# --------------------------------------------------------------------------- public helper
_cache: dict[tuple, FuncInfo] = {}
# module-level functions that are semantic anchors of rules (summarised, not seen through)
DEFAULT_KEEP = frozenset({"reinsert_atoms", "maxwell_boltzmann_distribution", "search_molecules", "has_constraint", "get_typed_class", "get_class", "register_class"})


def flat(prog: Program, fi: FuncInfo, cls: ClassInfo | None = None, function_guards: bool = False, keep=(), public_methods: bool = False) -> FuncInfo:
    """A FuncInfo whose node is the normalised (inlined, structured, canonicalised) function."""
    keep = frozenset(keep) | DEFAULT_KEEP
    # the cache lives on the Program object: a key made of id(prog) could be reused by a later Program in the same
    # worker process (self-test variants) and hand back the normal form of another tree
    _cache = prog.__dict__.setdefault("_flat_cache", {})
    key = (fi.qualname, fi.module.name, cls.qualname if cls else None, function_guards, keep, public_methods)
    if key in _cache:
        return _cache[key]
    fl = Flattener(prog, fi, cls, function_guards=function_guards, keep=keep, public_methods=public_methods)
    node = fl.flatten()
    out = FuncInfo(fi.name, node, fi.module, fi.cls, fi.kind)
    out.inlined = list(dict.fromkeys(fl.inlined))  # type: ignore[attr-defined]
    _cache[key] = out
    return out
