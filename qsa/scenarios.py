"""Discovery of (driver class × move table) scenarios for the effect/typestate rules."""

from __future__ import annotations

import ast

from .dataflow import ann_members
from .loader import AnalysisError, ClassInfo, Program, dotted, norm
from .trial import MoveSpec, Scenario, _lookup_criteria


def monte_carlo_drivers(prog: Program) -> list[ClassInfo]:
    mc = prog.cls("MonteCarlo")
    return [c for c in prog.subclasses(mc)]


def elementary_moves(prog: Program) -> list[ClassInfo]:
    base = prog.cls("BaseMove")
    out = []
    for c in prog.subclasses(base, strict=True):
        call = prog.lookup_method(c, "__call__")
        if call is not None and not call.is_trivial():
            out.append(c)
    return out


def context_bound(prog: Program, move: ClassInfo) -> ClassInfo | None:
    """Context class a move declares it needs: the TypeVar bound of its ``context`` parameter."""
    call = prog.lookup_method(move, "__call__")
    if call is None:
        return None
    params = call.node.args.args
    if len(params) < 2:
        return None
    ann = params[1].annotation
    for mname in ann_members(ann):
        # direct class annotation
        r = prog.resolve_dotted(call.module, mname)
        if r in prog.classes:
            return prog.classes[r]
        tv = call.module.assigns.get(mname)
        if isinstance(tv, ast.Call) and (dotted(tv.func) or "").endswith("TypeVar"):
            for kw in tv.keywords:
                if kw.arg == "bound":
                    txt = kw.value.value if isinstance(kw.value, ast.Constant) else norm(kw.value)
                    txt = str(txt).split("[")[0]
                    r = prog.resolve_dotted(call.module, txt)
                    if r in prog.classes:
                        return prog.classes[r]
                    hits = [c for c in prog.classes.values() if c.name == txt]
                    if len(hits) == 1:
                        return hits[0]
    return None


def compatible(prog: Program, driver: ClassInfo, move: ClassInfo) -> bool:
    ctx = prog.classvar_class(driver, "default_context")
    b = context_bound(prog, move)
    if ctx is None or b is None:
        return False
    return b in prog.mro(ctx)


def default_criteria_for(prog: Program, driver: ClassInfo, move: ClassInfo) -> ClassInfo | None:
    r = prog.classvar(driver, "default_criteria")
    if r is None:
        return None
    c = _lookup_criteria(prog, r[0], r[1], move)
    if c is None or c.name == "BaseCriteria":
        return None
    return c


def composite_type_of(prog: Program, move: ClassInfo) -> ClassInfo | None:
    """Specialised composite a move class assigns to ``self.composite_move_type`` (last plain
    class assignment along the __init__ chain), if any."""
    for c in prog.mro_classes(move):
        init = c.methods.get("__init__")
        if init is None:
            continue
        for st in init.body():
            if isinstance(st, ast.Assign) and any(norm(t) == "self.composite_move_type" for t in st.targets):
                r = prog.resolve_class(init.module, st.value)
                if isinstance(r, ClassInfo) and not isinstance(st.value, ast.Subscript):
                    return r
                return None
    return None


def scenarios(prog: Program, with_composites: bool = True, iterations: int = 1) -> list[Scenario]:
    out = []
    cm = prog.cls("CompositeMove")
    for d in monte_carlo_drivers(prog):
        ctx = prog.classvar_class(d, "default_context")
        if ctx is None:
            continue
        singles = []
        for mv in elementary_moves(prog):
            if not compatible(prog, d, mv):
                continue
            crit = default_criteria_for(prog, d, mv)
            if crit is None:
                continue
            singles.append((mv, crit))
            out.append(Scenario(prog, d, [MoveSpec(mv.name)], iterations))
        if not with_composites:
            continue
        for mv, crit in singles:
            comp = composite_type_of(prog, mv)
            if comp is not None:
                out.append(Scenario(prog, d, [MoveSpec(comp.name, [MoveSpec(mv.name), 0], criteria=crit.name)], iterations))
                out.append(Scenario(prog, d, [MoveSpec(comp.name, [MoveSpec(mv.name), MoveSpec(mv.name)], criteria=crit.name)], iterations))
        for mv, crit in singles:
            # plain composite of two exchange-type moves (what `d + e1 + e2` contains): each child
            # decides insertion/deletion on its own, so one trial can mix both
            if "attempt_addition" in {f for c in prog.mro_classes(mv) for f in c.methods}:
                out.append(Scenario(prog, d, [MoveSpec(cm.name, [MoveSpec(mv.name), MoveSpec(mv.name)], criteria=crit.name)], iterations))
        if len(singles) >= 2:
            a, b = singles[0], singles[-1]
            out.append(Scenario(prog, d, [MoveSpec(cm.name, [MoveSpec(a[0].name), MoveSpec(b[0].name)], criteria=b[1].name)], iterations))
            out.append(Scenario(prog, d, [MoveSpec(a[0].name), MoveSpec(b[0].name)], iterations))
    return out


# ----------------------------------------------------------------------------- parallel runner
def _spec_to_tuple(s):
    if isinstance(s, int):
        return s
    return (s.cls, None if s.children is None else [(_spec_to_tuple(c) if not isinstance(c, int) else c) for c in s.children], s.name, s.criteria)


def _tuple_to_spec(t):
    if isinstance(t, int):
        return t
    cls, children, name, crit = t
    return MoveSpec(cls, None if children is None else [(_tuple_to_spec(c) if not isinstance(c, int) else c) for c in children], name, crit)


def _worker(args):
    repo, driver_name, table, iterations, rule_mod, limit = args
    import importlib

    prog = Program(repo)
    mod = importlib.import_module(rule_mod)
    sc = Scenario(prog, prog.cls(driver_name), [_tuple_to_spec(t) for t in table], iterations)
    findings: list[dict] = []
    seen_f: set = set()
    oks: dict[tuple, int] = {}

    unsupported: list[str] = []

    def on_trial(rec):
        for f in mod.check_trial(prog, sc, rec):
            if f.get("status") == "unsupported":
                # the model lost track of something the rule needs: the scenario ends as an analysis error
                unsupported.append(f"{f['rule']} {f['construct']}: {f['detail']}")
                continue
            if f.get("status") == "ok":
                k = (f["rule"], f["construct"])
                oks[k] = oks.get(k, 0) + 1
            else:
                k = (f["rule"], f["construct"], f.get("stmt", ""))
                if k not in seen_f:
                    seen_f.add(k)
                    findings.append(f)

    try:
        stats = sc.run_paths(on_trial, limit=limit)
        err = unsupported[0] if unsupported else ""
    except AnalysisError as exc:
        stats = {"paths": 0, "trials": 0, "pruned": 0}
        err = str(exc)
    label = f"{driver_name}×{'+'.join(s.label() if not isinstance(s, int) else f'same#{s}' for s in sc.table)}"
    return label, stats, findings, [(k[0], k[1], n) for k, n in oks.items()], err


def run_all(prog: Program, rule_mod: str, scs: list[Scenario], limit: int = 8000):
    from concurrent.futures import ProcessPoolExecutor

    jobs = [(prog.repo, s.driver.name, [_spec_to_tuple(t) for t in s.table], s.iterations, rule_mod, limit) for s in scs]
    with ProcessPoolExecutor(max_workers=min(16, max(1, len(jobs)))) as ex:
        return list(ex.map(_worker, jobs))
