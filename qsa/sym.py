"""R-ALGEBRA: translate straight-line Python arithmetic (ast) into sympy expressions over
named *atoms* (dataflow sources), and decide equality of two closed forms.

Decision procedure for ``same(a, b)``:
  * symbolic: a − b normalises to 0 (expand / log-expansion / power simplification) ⇒ EQUAL
  * numeric witness: the two *formulas* (not the program) evaluate differently at a random
    rational point of the atoms' domains ⇒ DIFFERENT, with the point as witness
  * otherwise UNDECIDED (caller maps to ANALYSIS-ERROR, never to a verdict).
Nothing from quansino is executed; only the extracted formulas are evaluated.
"""

from __future__ import annotations

import ast
import os
import random
import subprocess
import sys

from . import VERIF_ROOT
from .loader import AnalysisError, norm

_DEPS = os.path.join(VERIF_ROOT, ".deps")


def _ensure_sympy():
    try:
        import sympy  # noqa: F401

        return
    except ImportError:
        pass
    if os.path.isdir(os.path.join(_DEPS, "sympy")):
        sys.path.insert(0, _DEPS)
    else:
        try:
            subprocess.run([os.path.join(VERIF_ROOT, "setup.sh")], check=True, capture_output=True, timeout=300)
            sys.path.insert(0, _DEPS)
        except Exception:
            for w in ("sympy-1.14.0-py3-none-any.whl", "mpmath-1.3.0-py3-none-any.whl"):
                sys.path.insert(0, os.path.join("/opt/veriftools/wheels", w))
    try:
        import sympy  # noqa: F401
    except ImportError as exc:  # pragma: no cover
        raise AnalysisError(f"sympy unavailable (run ./setup.sh): {exc}") from exc


_ensure_sympy()
import sympy as sp  # noqa: E402

EQUAL, DIFFERENT, UNDECIDED = "equal", "different", "undecided"


class Unsupported(AnalysisError):
    """Expression outside the arithmetic fragment the translator understands."""


class Vocabulary:
    """Maps normalised source texts to sympy atoms.

    ``table``: text -> (symbol name, assumptions dict).  Unknown texts become fresh
    symbols recorded in ``unknown`` so that callers can refuse to give a verdict on
    formulas mentioning unrecognised sources."""

    def __init__(self, table: dict[str, tuple[str, dict]] | None = None, default_assumptions: dict | None = None):
        self.table = dict(table or {})
        self.symbols: dict[str, sp.Symbol] = {}
        self.unknown: dict[str, sp.Symbol] = {}
        self.default = default_assumptions or {"real": True}
        self.values: dict[str, object] = {}  # text -> arbitrary sympy object (matrices etc.)

    def sym(self, name: str, **assume) -> sp.Symbol:
        if name not in self.symbols:
            a = dict(self.default)
            a.update(assume)
            self.symbols[name] = sp.Symbol(name, **a)
        return self.symbols[name]

    def bind(self, text: str, value) -> None:
        self.values[text] = value

    def atom(self, text: str):
        if text in self.values:
            return self.values[text]
        if text in self.table:
            name, assume = self.table[text]
            return self.sym(name, **assume)
        if text not in self.unknown:
            self.unknown[text] = sp.Symbol("src«" + text + "»", real=True)
        return self.unknown[text]


def mat3(prefix: str, symmetric: bool = False, **assume):
    a = {"real": True}
    a.update(assume)
    if symmetric:
        els = {}
        for i in range(3):
            for j in range(i, 3):
                els[(i, j)] = els[(j, i)] = sp.Symbol(f"{prefix}{i}{j}", **a)
        return sp.Matrix(3, 3, lambda i, j: els[(i, j)])
    return sp.Matrix(3, 3, lambda i, j: sp.Symbol(f"{prefix}{i}{j}", **a))


def _is_mat(x) -> bool:
    return isinstance(x, sp.MatrixBase)


def _bcast(op, a, b):
    """numpy broadcasting between 3x3 matrices and scalars (element-wise)."""
    if _is_mat(a) and _is_mat(b):
        if a.shape != b.shape:
            raise Unsupported(f"shape mismatch {a.shape} vs {b.shape}")
        return sp.Matrix(a.rows, a.cols, lambda i, j: op(a[i, j], b[i, j]))
    ta, tb = isinstance(a, (tuple, list)), isinstance(b, (tuple, list))
    if ta or tb:
        # 1-D arrays kept as tuples of symbols (e.g. the components of one generator draw): element-wise
        if _is_mat(a) or _is_mat(b):
            raise Unsupported("1-D array combined with a matrix")
        if ta and tb:
            if len(a) != len(b):
                raise Unsupported(f"length mismatch {len(a)} vs {len(b)}")
            return tuple(op(x, y) for x, y in zip(a, b))
        return tuple(op(x, b) for x in a) if ta else tuple(op(a, y) for y in b)
    if _is_mat(a):
        return a.applyfunc(lambda x: op(x, b))
    if _is_mat(b):
        return b.applyfunc(lambda x: op(a, x))
    return op(a, b)


class Translator:
    """ast expression -> sympy, with a local environment for value numbering."""

    def __init__(self, vocab: Vocabulary, module_consts: dict[str, object] | None = None):
        self.v = vocab
        self.env: dict[str, object] = {}
        self.consts = module_consts or {}
        self.hooks = []  # callables (translator, node) -> value | None
        self.broadcasts: list[ast.AST] = []  # `matrix ± scalar` sites (numpy adds the scalar to every element)
        self.raising_calls: list[tuple[ast.Call, object]] = []  # math.exp / math.pow / math.log calls with their translated argument

    # ----------------------------------------------------------------- API
    def tr(self, e: ast.expr):
        for h in self.hooks:
            r = h(self, e)
            if r is not None:
                return r
        m = getattr(self, "_" + type(e).__name__, None)
        if m is None:
            return self.v.atom(norm(e))
        return m(e)

    # ------------------------------------------------------------ node kinds
    def _Constant(self, e):
        v = e.value
        if isinstance(v, bool):
            return sp.true if v else sp.false
        if isinstance(v, int):
            return sp.Integer(v)
        if isinstance(v, float):
            return sp.Rational(repr(v)) if "e" not in repr(v) and "inf" not in repr(v) and "nan" not in repr(v) else sp.Float(v)
        raise Unsupported(f"constant {v!r}")

    def _Name(self, e):
        if e.id in self.env:
            return self.env[e.id]
        if e.id in self.consts:
            return self.consts[e.id]
        mod = getattr(self, "module", None)
        if mod is not None and e.id not in getattr(self, "_resolving", set()):
            # a module-level constant (bound exactly once at top level to a closed expression)
            defs = [st for st in mod.tree.body if isinstance(st, (ast.Assign, ast.AnnAssign)) and st.value is not None
                    and any(isinstance(t, ast.Name) and t.id == e.id for t in (st.targets if isinstance(st, ast.Assign) else [st.target]))]
            rebinds = [n for n in ast.walk(mod.tree) if isinstance(n, ast.Global) and e.id in n.names]
            if len(defs) == 1 and not rebinds:
                self._resolving = getattr(self, "_resolving", set()) | {e.id}
                try:
                    saved_env, self.env = self.env, {}
                    try:
                        val = self.tr(defs[0].value)
                    finally:
                        self.env = saved_env
                finally:
                    self._resolving = self._resolving - {e.id}
                self.consts[e.id] = val
                return val
        return self.v.atom(e.id)

    def _UnaryOp(self, e):
        x = self.tr(e.operand)
        if isinstance(e.op, ast.USub):
            return -x
        if isinstance(e.op, ast.UAdd):
            return x
        if isinstance(e.op, ast.Invert):
            return _MaskNot(x) if not _is_mat(x) else x.applyfunc(lambda t: 1 - t)
        if isinstance(e.op, ast.Not):
            return sp.Not(x)
        raise Unsupported(norm(e))

    def _BinOp(self, e):
        a, b = self.tr(e.left), self.tr(e.right)
        op = e.op
        if isinstance(op, (ast.Add, ast.Sub)) and (_is_mat(a) != _is_mat(b)):
            self.broadcasts.append(e)
        if isinstance(op, ast.Add):
            return _bcast(lambda x, y: x + y, a, b)
        if isinstance(op, ast.Sub):
            return _bcast(lambda x, y: x - y, a, b)
        if isinstance(op, ast.Mult):
            return _bcast(lambda x, y: x * y, a, b)
        if isinstance(op, ast.Div):
            return _bcast(lambda x, y: x / y, a, b)
        if isinstance(op, ast.Pow):
            return _bcast(lambda x, y: x**y, a, b)
        if isinstance(op, ast.MatMult):
            if _is_mat(a) and _is_mat(b):
                return a * b
            raise Unsupported(f"@ on non-matrix operands in `{norm(e)}`")
        if isinstance(op, ast.FloorDiv):
            return sp.floor(a / b)
        if isinstance(op, ast.Mod):
            return sp.Mod(a, b)
        raise Unsupported(norm(e))

    def _Compare(self, e):
        if len(e.ops) != 1:
            parts = []
            left = self.tr(e.left)
            for op, c in zip(e.ops, e.comparators):
                right = self.tr(c)
                parts.append(self._cmp(op, left, right, e))
                left = right
            return sp.And(*parts)
        return self._cmp(e.ops[0], self.tr(e.left), self.tr(e.comparators[0]), e)

    def _cmp(self, op, a, b, e):
        table = {ast.Lt: sp.Lt, ast.LtE: sp.Le, ast.Gt: sp.Gt, ast.GtE: sp.Ge, ast.Eq: sp.Eq, ast.NotEq: sp.Ne}
        for k, f in table.items():
            if isinstance(op, k):
                return f(a, b)
        raise Unsupported(norm(e))

    def _IfExp(self, e):
        c = self.tr(e.test)
        if c is sp.true or c == True:  # noqa: E712
            return self.tr(e.body)
        if c is sp.false or c == False:  # noqa: E712
            return self.tr(e.orelse)
        return sp.Piecewise((self.tr(e.body), c), (self.tr(e.orelse), True))

    def _Attribute(self, e):
        txt = norm(e)
        if txt in ("np.pi", "numpy.pi", "math.pi"):
            return sp.pi
        if txt in ("np.e", "math.e"):
            return sp.E
        if txt in ("np.inf", "math.inf"):
            return sp.oo
        if e.attr == "T":
            x = self.tr(e.value)
            if _is_mat(x):
                return x.T
        return self.v.atom(txt)

    def _Subscript(self, e):
        base = self.tr(e.value)
        if _is_mat(base) or isinstance(base, (list, tuple)):
            idx = e.slice
            try:
                if isinstance(idx, ast.Tuple):
                    ij = [int(self.tr(x)) for x in idx.elts]
                    return base[ij[0], ij[1]]
                if isinstance(idx, ast.Slice) and isinstance(base, (list, tuple)) and idx.step is None:
                    lo = int(self.tr(idx.lower)) if idx.lower is not None else None
                    hi = int(self.tr(idx.upper)) if idx.upper is not None else None
                    return tuple(base[lo:hi])
                return base[int(self.tr(idx))]
            except (TypeError, ValueError, IndexError):
                pass
        return self.v.atom(norm(e))

    def _Tuple(self, e):
        return tuple(self.tr(x) for x in e.elts)

    _List = _Tuple

    def _Call(self, e):
        f = norm(e.func)
        args = e.args
        kw = {k.arg: k.value for k in e.keywords}
        one = {
            "math.exp": sp.exp, "np.exp": sp.exp, "exp": sp.exp,
            "math.log": sp.log, "np.log": sp.log, "log": sp.log,
            "math.sqrt": sp.sqrt, "np.sqrt": sp.sqrt, "sqrt": sp.sqrt,
            "np.tanh": sp.tanh, "math.tanh": sp.tanh, "math.atanh": sp.atanh, "np.arctanh": sp.atanh,
            "np.sin": sp.sin, "math.sin": sp.sin, "np.cos": sp.cos, "math.cos": sp.cos,
            "np.sinh": sp.sinh, "math.sinh": sp.sinh, "np.cosh": sp.cosh, "math.cosh": sp.cosh,
            "np.arctan": sp.atan, "math.atan": sp.atan, "np.square": (lambda x: x**2), "np.reciprocal": (lambda x: 1 / x),
            "np.expm1": (lambda x: sp.exp(x) - 1), "np.log1p": (lambda x: sp.log(1 + x)),
            "np.sign": sp.sign, "np.abs": sp.Abs, "abs": sp.Abs, "np.fabs": sp.Abs, "math.fabs": sp.Abs,
            "float": lambda x: x, "int": lambda x: x, "np.float64": lambda x: x, "np.asarray": lambda x: x, "np.array": lambda x: x,
        }
        if f in ("np.diag_indices", "numpy.diag_indices") and len(args) == 1 and not kw:
            n_ = self.tr(args[0])
            if getattr(n_, "is_Integer", False):
                r_ = tuple(sp.Integer(i) for i in range(int(n_)))
                return (r_, r_)
        if isinstance(e.func, ast.Attribute) and e.func.attr in ("sum", "mean") and not args and not kw:
            x_ = self.tr(e.func.value)
            if isinstance(x_, (tuple, list)) and x_:
                tot = sum(x_[1:], x_[0])
                return tot if e.func.attr == "sum" else tot / len(x_)
        if f in ("math.prod", "np.prod", "numpy.prod") and len(args) == 1 and not kw and isinstance(args[0], ast.Call) and norm(args[0].func) == "range" and 1 <= len(args[0].args) <= 2:
            # a product over a range whose length is a literal once the case parameters are substituted
            ra = [self.tr(a) for a in args[0].args]
            lo, hi = (sp.Integer(0), ra[0]) if len(ra) == 1 else (ra[0], ra[1])
            n = sp.simplify(hi - lo)
            if n.is_Integer:
                out = sp.Integer(1)
                for k in range(max(0, int(n))):
                    out = out * (lo + k)
                return out
            raise Unsupported(f"trip count `{n}` of `{norm(args[0])}` is not a literal after substitution")
        if f in ("functools.reduce", "reduce") and len(args) in (2, 3) and not kw and isinstance(args[1], ast.Call) and norm(args[1].func) == "range" and 1 <= len(args[1].args) <= 2:
            # a left fold with an operator-module function over a range whose length is a literal after substitution
            ops = {"operator.mul": lambda a, b: a * b, "operator.truediv": lambda a, b: a / b, "operator.add": lambda a, b: a + b, "operator.sub": lambda a, b: a - b,
                   "mul": lambda a, b: a * b, "truediv": lambda a, b: a / b, "add": lambda a, b: a + b, "sub": lambda a, b: a - b}
            opf = ops.get(norm(args[0]))
            if opf is None and isinstance(args[0], ast.Lambda) and len(args[0].args.args) == 2:
                pa, pb = (x.arg for x in args[0].args.args)
                lam = args[0]

                def opf(a, b, _pa=pa, _pb=pb, _lam=lam):
                    saved = dict(self.env)
                    self.env[_pa], self.env[_pb] = a, b
                    try:
                        return self.tr(_lam.body)
                    finally:
                        self.env = saved
            if opf is None:
                raise Unsupported(f"fold function `{norm(args[0])}`")
            ra = [self.tr(a) for a in args[1].args]
            lo, hi = (sp.Integer(0), ra[0]) if len(ra) == 1 else (ra[0], ra[1])
            n = sp.simplify(hi - lo)
            if not n.is_Integer:
                raise Unsupported(f"trip count `{n}` of `{norm(args[1])}` is not a literal after substitution")
            items = [lo + k for k in range(max(0, int(n)))]
            if len(args) == 3:
                acc = self.tr(args[2])
            elif items:
                acc, items = items[0], items[1:]
            else:
                raise Unsupported("reduce of an empty range without an initial value raises TypeError")
            for it_ in items:
                acc = opf(acc, it_)
            return acc
        if f in ("np.array", "np.asarray", "numpy.array", "numpy.asarray") and len(args) == 1 and set(kw) <= {"dtype"}:
            x = self.tr(args[0])
            if isinstance(x, (list, tuple)) and x and all(isinstance(r, (list, tuple)) for r in x) and len({len(r) for r in x}) == 1:
                return sp.Matrix([list(r) for r in x])  # a literal 2-D array
            if _is_mat(x) and f.endswith(".array"):
                return x.copy()  # np.array copies: later element stores must not reach the source (np.asarray may alias it)
            return x
        if f in one and len(args) == 1 and not kw:
            x = self.tr(args[0])
            fn = one[f]
            if f in ("math.exp", "math.log", "math.sqrt", "exp" , "log", "sqrt"):
                self.raising_calls.append((e, x))
            return x.applyfunc(fn) if _is_mat(x) else fn(x)
        if f in ("np.add", "np.subtract", "np.multiply", "np.divide", "np.true_divide", "numpy.add", "numpy.subtract", "numpy.multiply", "numpy.divide") and len(args) == 2 and set(kw) <= {"out"}:
            a_, b_ = self.tr(args[0]), self.tr(args[1])
            opn = f.split(".")[-1]
            res = _bcast({"add": lambda x, y: x + y, "subtract": lambda x, y: x - y, "multiply": lambda x, y: x * y, "divide": lambda x, y: x / y, "true_divide": lambda x, y: x / y}[opn], a_, b_)
            if "out" in kw:
                # the result is ALSO written into the `out` array: from here on that name holds it (an alias of the result)
                o_ = kw["out"]
                if isinstance(o_, ast.Name):
                    self.env[o_.id] = res
                elif isinstance(o_, ast.Attribute):
                    self.v.bind(norm(o_), res)
                elif isinstance(o_, ast.Subscript):
                    self._assign(o_, res)  # a row / column / element of a tracked matrix
                else:
                    raise Unsupported(f"out=`{norm(o_)}`")
            return res
        if f in ("np.power", "math.pow", "pow") and len(args) == 2:
            return _bcast(lambda x, y: x**y, self.tr(args[0]), self.tr(args[1]))
        if f in ("min", "np.minimum") and len(args) == 2:
            return sp.Min(self.tr(args[0]), self.tr(args[1]))
        if f in ("max", "np.maximum") and len(args) == 2:
            return sp.Max(self.tr(args[0]), self.tr(args[1]))
        if f == "np.clip" and len(args) == 3:
            x, lo, hi = (self.tr(a) for a in args)
            return sp.Min(sp.Max(x, lo), hi)
        if f == "np.trace" and len(args) == 1:
            x = self.tr(args[0])
            if _is_mat(x):
                return x.trace()
        if f in ("np.eye", "np.identity") and len(args) == 1:
            n = self.tr(args[0])
            return sp.eye(int(n))
        if f == "np.linalg.inv" and len(args) == 1:
            x = self.tr(args[0])
            if _is_mat(x):
                return _InvMat(x)
        if f == "np.linalg.det" and len(args) == 1:
            x = self.tr(args[0])
            if _is_mat(x):
                return x.det()
        if f in ("np.zeros", "numpy.zeros") and args:
            shp = self.tr(args[0])
            if isinstance(shp, tuple) and len(shp) == 2:
                return sp.zeros(int(shp[0]), int(shp[1]))
        if f in ("np.empty", "numpy.empty") and args:
            # uninitialised storage: every entry is its own unknown, so that an entry that is read before it was written
            # shows up in the result as an unrecognised source
            shp = self.tr(args[0])
            if isinstance(shp, tuple) and len(shp) == 2:
                self._empties = getattr(self, "_empties", 0) + 1
                return sp.Matrix(int(shp[0]), int(shp[1]), lambda i_, j_: self.v.atom(f"<uninitialised np.empty#{self._empties}[{i_},{j_}]>"))
        if f == "len" and len(args) == 1:
            return self.v.atom(f"len({norm(args[0])})")
        if isinstance(e.func, ast.Attribute) and e.func.attr in ("copy",) and not args:
            return self.tr(e.func.value)
        if isinstance(e.func, ast.Attribute) and e.func.attr == "trace" and not args:
            x = self.tr(e.func.value)
            if _is_mat(x):
                return x.trace()
        return self.v.atom(norm(e))

    # ------------------------------------------------------- straight-line code
    def run_block(self, body: list[ast.stmt], on_return=None):
        """Value-number a statement list (assignments, aug-assignments, constant-trip-count
        ``for i in range(a, b)``, ``if`` with a condition that folds to a constant)."""
        for st in body:
            if isinstance(st, ast.Expr) and isinstance(st.value, ast.Constant):
                continue
            if isinstance(st, (ast.Assign, ast.AnnAssign)):
                if st.value is None:
                    continue
                val = self.tr(st.value)
                tgts = st.targets if isinstance(st, ast.Assign) else [st.target]
                for t in tgts:
                    self._assign(t, val)
            elif isinstance(st, ast.AugAssign):
                fancy = None
                if isinstance(st.target, ast.Subscript):
                    base_ = self.tr(st.target.value)
                    if _is_mat(base_):
                        try:
                            both_ = (tuple(self.tr(x) for x in st.target.slice.elts) if isinstance(st.target.slice, ast.Tuple) and len(st.target.slice.elts) == 2 else self.tr(st.target.slice))
                        except Unsupported:
                            both_ = None
                        if isinstance(both_, tuple) and len(both_) == 2 and all(isinstance(x, (tuple, list)) for x in both_) and len(both_[0]) == len(both_[1]):
                            fancy = (base_, both_)
                if fancy is not None:
                    # M[(i…), (j…)] op= v : element-wise on the addressed entries
                    base_, (iv_, jv_) = fancy
                    val = self.tr(st.value)
                    vals_ = list(val) if isinstance(val, (tuple, list)) else [val] * len(iv_)
                    fn_ = {ast.Add: lambda a, b: a + b, ast.Sub: lambda a, b: a - b, ast.Mult: lambda a, b: a * b, ast.Div: lambda a, b: a / b}.get(type(st.op))
                    if fn_ is None or len(vals_) != len(iv_):
                        raise Unsupported(norm(st))
                    for a_, b_, v_ in zip(iv_, jv_, vals_):
                        base_[int(a_), int(b_)] = fn_(base_[int(a_), int(b_)], v_)
                    continue
                cur = self.tr(st.target)
                val = self.tr(st.value)
                opmap = {
                    ast.Add: lambda a, b: a + b, ast.Sub: lambda a, b: a - b,
                    ast.Mult: lambda a, b: a * b, ast.Div: lambda a, b: a / b, ast.Pow: lambda a, b: a**b,
                }
                for k, fn in opmap.items():
                    if isinstance(st.op, k):
                        self._assign(st.target, _bcast(fn, cur, val))
                        break
                else:
                    raise Unsupported(norm(st))
            elif isinstance(st, ast.For):
                it = st.iter
                if not (isinstance(it, ast.Call) and norm(it.func) == "range" and isinstance(st.target, ast.Name) and not st.orelse):
                    raise Unsupported(f"loop `{norm(st)[:60]}` is not a range loop")
                ra = [self.tr(a) for a in it.args]
                lo, hi = (sp.Integer(0), ra[0]) if len(ra) == 1 else (ra[0], ra[1])
                if len(ra) == 3:
                    raise Unsupported("range with step")
                n = sp.simplify(hi - lo)
                if not n.is_Integer:
                    raise Unsupported(f"trip count `{n}` of `{norm(it)}` is not a literal after substitution")
                for k in range(max(0, int(n))):
                    self.env[st.target.id] = lo + k
                    r = self.run_block(st.body, on_return)
                    if r is not None:
                        return r
            elif isinstance(st, ast.If):
                c = self.tr(st.test)
                c = sp.simplify(c) if isinstance(c, sp.Basic) else c
                if c is sp.true or c == True:  # noqa: E712
                    r = self.run_block(st.body, on_return)
                elif c is sp.false or c == False:  # noqa: E712
                    r = self.run_block(st.orelse, on_return)
                else:
                    # a test the value numbering cannot decide (`isinstance(x, np.ndarray)`, a dtype test …): both arms are
                    # run on copies of the state; they must leave the SAME values behind (then the test did not matter)
                    import copy as _copy

                    def _snap():
                        return ({k_: (v_.copy() if _is_mat(v_) else v_) for k_, v_ in self.env.items()}, {k_: (v_.copy() if _is_mat(v_) else v_) for k_, v_ in self.v.values.items()})

                    e0, v0 = _snap()
                    r1 = self.run_block(st.body, on_return)
                    e1, v1 = _snap()
                    self.env, self.v.values = {k_: (v_.copy() if _is_mat(v_) else v_) for k_, v_ in e0.items()}, {k_: (v_.copy() if _is_mat(v_) else v_) for k_, v_ in v0.items()}
                    r2 = self.run_block(st.orelse, on_return)
                    e2, v2 = _snap()

                    def _same(a_, b_):
                        try:
                            if _is_mat(a_) or _is_mat(b_):
                                return _is_mat(a_) and _is_mat(b_) and a_.shape == b_.shape and all(sp.simplify(x_ - y_) == 0 for x_, y_ in zip(a_, b_))
                            if isinstance(a_, (tuple, list)) or isinstance(b_, (tuple, list)):
                                return type(a_) is type(b_) and len(a_) == len(b_) and all(_same(x_, y_) for x_, y_ in zip(a_, b_))
                            return a_ is b_ or sp.simplify(sp.sympify(a_) - sp.sympify(b_)) == 0
                        except Exception:
                            return False

                    keys_e = {k_ for k_ in set(e1) | set(e2) if not (k_ in e0 and k_ in e1 and k_ in e2 and e1[k_] is e0[k_] and e2[k_] is e0[k_])}
                    live_later = {n_.id for later in body[body.index(st) + 1:] for n_ in ast.walk(later) if isinstance(n_, ast.Name)}
                    for k_ in keys_e:
                        if k_ in live_later and not (k_ in e1 and k_ in e2 and _same(e1[k_], e2[k_])):
                            raise Unsupported(f"branch condition `{norm(st.test)}` does not fold to a constant and the arms differ on `{k_}`")
                    for k_ in set(v1) | set(v2):
                        if not (k_ in v1 and k_ in v2 and _same(v1[k_], v2[k_])):
                            raise Unsupported(f"branch condition `{norm(st.test)}` does not fold to a constant and the arms differ on `{k_}`")
                    if (r1 is None) != (r2 is None) or (r1 is not None and norm(r1[1]) != norm(r2[1])):
                        raise Unsupported(f"branch condition `{norm(st.test)}` does not fold to a constant and only one arm returns")
                    r = r2
                if r is not None:
                    return r
            elif isinstance(st, ast.Return):
                return ("return", st.value)
            elif isinstance(st, ast.Pass):
                continue
            elif isinstance(st, ast.Expr) and isinstance(st.value, ast.Call) and getattr(self, "expr_calls", False):
                self.tr(st.value)  # an effectful call: the caller's hooks (a stateful API summary) interpret it
            else:
                raise Unsupported(f"statement `{norm(st)[:70]}` outside the straight-line fragment")
        return None

    def _assign(self, t, val):
        if isinstance(t, ast.Name):
            self.env[t.id] = val
        elif isinstance(t, ast.Attribute):
            self.v.bind(norm(t), val)
        elif isinstance(t, ast.Subscript):
            base = self.tr(t.value)
            if _is_mat(base):
                idx = t.slice
                # M[:, j] = v  /  M[i, :] = v : a whole column / row (scalar broadcast, or one value per entry)
                if isinstance(idx, ast.Tuple) and len(idx.elts) == 2 and any(isinstance(x, ast.Slice) and x.lower is None and x.upper is None and x.step is None for x in idx.elts) \
                        and not all(isinstance(x, ast.Slice) for x in idx.elts):
                    col = isinstance(idx.elts[0], ast.Slice)
                    k = int(self.tr(idx.elts[1] if col else idx.elts[0]))
                    n_ = base.rows if col else base.cols
                    vals = list(val) if isinstance(val, (tuple, list)) else ([val[i_] for i_ in range(len(val))] if _is_mat(val) else [val] * n_)
                    if len(vals) != n_:
                        raise Unsupported(f"store `{norm(t)}`: {len(vals)} values for {n_} entries")
                    for i_, v_ in enumerate(vals):
                        if col:
                            base[i_, k] = v_
                        else:
                            base[k, i_] = v_
                    return
                try:
                    if isinstance(idx, ast.Tuple) and len(idx.elts) == 2:
                        iv, jv = (self.tr(x) for x in idx.elts)
                    else:
                        both = self.tr(idx)  # e.g. np.diag_indices(3): a pair of index tuples
                        iv, jv = both if isinstance(both, tuple) and len(both) == 2 else (None, None)
                    if isinstance(iv, (tuple, list)) and isinstance(jv, (tuple, list)) and len(iv) == len(jv):
                        # fancy indexing: M[(i0, i1, …), (j0, j1, …)] = values (element-wise) or one scalar
                        vals = list(val) if isinstance(val, (tuple, list)) else [val] * len(iv)
                        if len(vals) != len(iv):
                            raise Unsupported(f"store `{norm(t)}`: {len(vals)} values for {len(iv)} positions")
                        for a_, b_, v_ in zip(iv, jv, vals):
                            base[int(a_), int(b_)] = v_
                        return
                    if iv is not None and jv is not None:
                        base[int(iv), int(jv)] = val
                        return
                except TypeError as exc:
                    raise Unsupported(f"store `{norm(t)}`: {exc}") from exc
            raise Unsupported(f"store `{norm(t)}`")
        elif isinstance(t, (ast.Tuple, ast.List)):
            if isinstance(val, (tuple, list)) and len(val) == len(t.elts):
                for a, b in zip(t.elts, val):
                    self._assign(a, b)
            else:
                raise Unsupported(f"unpacking `{norm(t)}`")
        else:
            raise Unsupported(f"store `{norm(t)}`")


class _MaskNot(sp.Function):
    """~mask for an opaque boolean mask atom: 1 - mask in arithmetic."""

    @classmethod
    def eval(cls, x):
        return 1 - x


def _InvMat(m: sp.MatrixBase):
    return m.inv()


# ------------------------------------------------------------------ equality
def _normalise(x):
    x = sp.expand_log(x, force=True)
    x = sp.powsimp(sp.expand(x), force=True)
    x = sp.simplify(x)
    if x != 0:
        x = sp.simplify(sp.expand(sp.powdenest(sp.expand_power_base(x, force=True), force=True)))
    if x != 0:
        try:
            x = sp.trigsimp(x)
        except Exception:
            pass
    return x


def _rand_point(symbols, rng, domains, scale=1):
    pt = {}
    for s in sorted(symbols, key=lambda t: t.name):
        lo, hi = domains.get(s.name, (None, None))
        if lo is None and scale != 1 and not s.is_integer and rng.random() < 0.5:
            # tail probe: some symbols far from the unit box (clip/min/max regions)
            mag = sp.Rational(rng.randint(1000, 3500), 1000) * scale
            pt[s] = mag if (s.is_positive or rng.random() < 0.5) else -mag
            continue
        if lo is None:
            if s.is_positive:
                lo, hi = sp.Rational(1, 4), sp.Rational(7, 2)
            elif s.is_integer:
                lo, hi = 1, 6
            else:
                lo, hi = -sp.Rational(5, 2), sp.Rational(5, 2)
        if s.is_integer:
            pt[s] = sp.Integer(rng.randint(int(lo), int(hi)))
        else:
            pt[s] = sp.Rational(rng.randint(int(lo * 1000), int(hi * 1000)), 1000)
            if pt[s] == 0:
                pt[s] = sp.Rational(1, 7)
    return pt


def same(a, b, domains: dict | None = None, trials: int = 12, seed: int = 0):
    """Decide a == b as functions. Returns (verdict, witness-text)."""
    domains = domains or {}
    if _is_mat(a) or _is_mat(b):
        if not (_is_mat(a) and _is_mat(b)) or a.shape != b.shape:
            return DIFFERENT, "shape/kind mismatch (matrix vs scalar)"
        worst = (EQUAL, "")
        for i in range(a.rows):
            for j in range(a.cols):
                v, w = same(a[i, j], b[i, j], domains, trials, seed)
                if v == DIFFERENT:
                    return v, f"entry [{i},{j}]: {w}"
                if v == UNDECIDED:
                    worst = (v, w)
        return worst
    a, b = sp.sympify(a), sp.sympify(b)
    diff = a - b
    syms = a.free_symbols | b.free_symbols
    rng = random.Random(seed)
    # numeric witness first (cheap, and gives a concrete counter-example)
    agree = 0
    for k in range(trials + 8):
        pt = _rand_point(syms, rng, domains, scale=1 if k < trials else (20 if k % 2 else 400))
        try:
            va = complex(sp.N(a.subs(pt), 30))
            vb = complex(sp.N(b.subs(pt), 30))
        except (TypeError, ValueError, ZeroDivisionError):
            continue
        if any(x != x or abs(x) == float("inf") for x in (va.real, vb.real)):
            continue
        scale = max(1.0, abs(va), abs(vb))
        if abs(va - vb) > 1e-9 * scale:
            wt = ", ".join(f"{k.name}={v}" for k, v in sorted(pt.items(), key=lambda kv: kv[0].name))
            return DIFFERENT, f"at {wt}: implemented={va.real:.12g} reference={vb.real:.12g}"
        agree += 1
    try:
        z = _normalise(diff)
    except Exception as exc:  # pragma: no cover
        z = None
        err = repr(exc)
    if z is not None and z == 0:
        return EQUAL, ""
    if agree >= max(3, trials // 2):
        # numerically indistinguishable at many random points of the domain and the formulas are
        # analytic there: accept as equal only when the symbolic form is also free of residue up to
        # rational-function normalisation
        try:
            z2 = sp.simplify(sp.together(diff))
            if z2 == 0:
                return EQUAL, ""
        except Exception:
            pass
        return UNDECIDED, f"symbolic normal form of the difference is `{str(z)[:200]}` but {agree} random evaluations agree"
    return UNDECIDED, "could not evaluate the formulas numerically"


# ----------------------------------------------------------- S5 helper (C08)
def sympy_identity_param(prog, owner_init, param: str, stores: dict[str, ast.expr], ev):
    """Is ``emitted(self.<attrs>)`` ∘ ``ctor stores`` the identity on ``param``?

    Returns None when the pair involves no arithmetic (structural identity is checked by
    S3/S4), else (ok, detail)."""
    expr = ev.expr
    attrs = [n for n in ast.walk(expr) if isinstance(n, ast.Attribute) and isinstance(n.value, ast.Name) and n.value.id == "self"]
    if not attrs:
        return None
    involved = [a.attr for a in attrs if a.attr in stores]
    if not involved:
        return None
    has_arith = any(isinstance(n, ast.BinOp) for n in ast.walk(expr)) or any(
        isinstance(n, ast.BinOp) and not isinstance(n.op, ast.BitOr) for a in involved for n in ast.walk(stores[a])
    )
    if not has_arith:
        return None
    # only handle the case where every store involved is arithmetic over parameters
    vocab = Vocabulary(default_assumptions={"positive": True})
    t = Translator(vocab)
    try:
        for a in set(involved):
            sv = stores[a]
            if isinstance(sv, ast.IfExp) or isinstance(sv, ast.BoolOp):
                return None
            vocab.bind(f"self.{a}", t.tr(sv))
        got = t.tr(expr)
    except Unsupported:
        return None
    if _is_mat(got):
        return None
    want = vocab.atom(param)
    v, w = same(got, want)
    if v == EQUAL:
        return True, ""
    if v == DIFFERENT:
        return False, f"round trip maps {param} to `{sp.simplify(got)}` ({w})"
    return None


# -------------------------------------------------------------- monotonicity domain
_INCREASING = (sp.tanh, sp.exp, sp.log, sp.atanh, sp.atan, sp.sinh, sp.asinh)


def _sign(c):
    c = sp.sympify(c)
    if c.is_positive:
        return 1
    if c.is_negative:
        return -1
    if c.is_zero:
        return 0
    try:
        val = sp.N(c, 30)
        if val.is_real and not c.free_symbols:
            return 1 if val > 0 else (-1 if val < 0 else 0)
    except Exception:
        pass
    return None


def monotone(expr, var) -> str:
    """Abstract monotonicity of ``expr`` in ``var``: '+' non-decreasing, '-' non-increasing,
    '0' constant, '?' unknown.  Structural rules only (sums, products with a sign-definite
    coefficient, increasing elementary functions, powers with constant exponent of positive base)."""
    expr = sp.sympify(expr)
    if var not in expr.free_symbols:
        return "0"
    if expr == var:
        return "+"
    flip = {"+": "-", "-": "+", "0": "0", "?": "?"}
    if isinstance(expr, sp.Add):
        res = "0"
        for a in expr.args:
            m = monotone(a, var)
            if m == "?":
                return "?"
            if m == "0":
                continue
            if res == "0":
                res = m
            elif res != m:
                return "?"
        return res
    if isinstance(expr, sp.Mul):
        dep = [a for a in expr.args if var in a.free_symbols]
        coef = sp.Mul(*[a for a in expr.args if var not in a.free_symbols])
        s = _sign(coef)
        if s is None:
            return "?"
        if s == 0:
            return "0"
        if len(dep) == 1:
            m = monotone(dep[0], var)
        else:
            # product of several var-dependent factors: all positive and monotone the same way
            ms = [monotone(d, var) for d in dep]
            if all(d.is_positive or d.is_nonnegative for d in dep) and len(set(ms)) == 1 and ms[0] in "+-":
                m = ms[0]
            else:
                return "?"
        return m if s > 0 else flip[m]
    if isinstance(expr, sp.Pow):
        b, e = expr.args
        if var not in e.free_symbols:
            se = _sign(e)
            if se is None or not (b.is_positive or b.is_nonnegative):
                return "?"
            m = monotone(b, var)
            return m if se > 0 else flip[m]
        if var not in b.free_symbols:
            # b**e(v) = exp(e·log b)
            sb = _sign(sp.log(b)) if b.is_positive else None
            if sb is None:
                return "?"
            m = monotone(e, var)
            return m if sb > 0 else flip[m]
        return "?"
    if isinstance(expr, sp.Function) and isinstance(expr, _INCREASING) and len(expr.args) == 1:
        return monotone(expr.args[0], var)
    return "?"
