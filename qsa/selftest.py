"""Self-test of the checkers (thorough tier): seeded defects on scratch copies of the
working tree must be reported (naming the rule), benign twins must stay silent.

A scratch copy is a copy of ``<repo>/src`` under $TMPDIR (never under /repo or /verif),
removed as soon as its analysis finished.  A failing self-test makes the thorough check
exit 2 (the checker is weaker or noisier than claimed), never exit 1."""

from __future__ import annotations

import importlib
import os
import shutil
import sys
import tempfile
from concurrent.futures import ProcessPoolExecutor


def _apply(root: str, edits) -> str | None:
    for rel, old, new in edits:
        p = os.path.join(root, rel)
        try:
            with open(p, encoding="utf-8") as fh:
                s = fh.read()
        except OSError as exc:
            return f"{rel}: {exc}"
        if s.count(old) < 1:
            return f"{rel}: snippet not found: {old[:60]!r}"
        s = s.replace(old, new, 1)
        with open(p, "w", encoding="utf-8") as fh:
            fh.write(s)
    return None


def _one(args):
    pid, repo, mutant = args
    from .cli import run_property

    tmp = tempfile.mkdtemp(prefix=f"qsa-{pid}-")
    try:
        shutil.copytree(os.path.join(repo, "src"), os.path.join(tmp, "src"))
        if mutant.get("patch"):
            import subprocess

            r = subprocess.run(["git", "apply", "--include=src/*", mutant["patch"]], cwd=tmp, capture_output=True, text=True)
            err = r.stderr.strip()[:200] if r.returncode != 0 else None
        else:
            err = _apply(tmp, mutant["edits"])
        if err:
            return mutant["name"], "setup-error", err, []
        code, ledger, msg = run_property(pid, tmp, "quick", 0, quiet=True, write_files=False)
        rules = sorted({o.rule for o in ledger.obligations if o.status == "violation"}) if ledger else []
        constructs = sorted({f"{o.rule}:{o.construct}" for o in ledger.obligations if o.status == "violation"}) if ledger else []
        return mutant["name"], {0: "silent", 1: "violation", 2: "analysis-error"}[code], msg[:300], constructs
    finally:
        shutil.rmtree(tmp, ignore_errors=True)


def tree_digest(repo: str) -> str:
    import hashlib

    h = hashlib.sha256()
    root = os.path.join(repo, "src")
    for dp, dn, fn in sorted(os.walk(root)):
        dn.sort()
        for f in sorted(fn):
            if f.endswith(".py"):
                p = os.path.join(dp, f)
                h.update(os.path.relpath(p, root).encode())
                with open(p, "rb") as fh:
                    h.update(fh.read())
    return h.hexdigest()


def reference_digest() -> str:
    p = os.path.join(os.path.dirname(os.path.dirname(os.path.abspath(__file__))), "selftest_reference.txt")
    try:
        with open(p, encoding="utf-8") as fh:
            return fh.read().split()[0]
    except (OSError, IndexError):
        return ""


def catalogue(pid: str):
    try:
        mod = importlib.import_module(f"qsa.mutants.{pid.lower()}")
    except ModuleNotFoundError:
        return []
    return list(mod.MUTANTS) + stored_patches(pid)


def stored_patches(pid: str):
    """Independently produced changes kept under /verif: behaviour-preserving refactorings written against this
    property (benign/<pid>/patchN.diff: must stay silent) and the confirmed breaking change (seeded/<pid>/patch.diff:
    must be reported)."""
    import glob

    root = os.path.dirname(os.path.dirname(os.path.abspath(__file__)))
    out = []
    for pth in sorted(glob.glob(os.path.join(root, "benign", pid, "patch*.diff")) + glob.glob(os.path.join(root, "benign", pid + "-*", "patch*.diff"))):
        out.append({"name": f"benign/{os.path.basename(os.path.dirname(pth))}/{os.path.basename(pth)}", "expect": "silent", "patch": pth})
    for pth in sorted(glob.glob(os.path.join(root, "seeded", pid, "patch*.diff")) + glob.glob(os.path.join(root, "seeded", pid + "-*", "patch*.diff"))):
        out.append({"name": f"seeded/{os.path.basename(os.path.dirname(pth))}/{os.path.basename(pth)}", "expect": "violation", "patch": pth})
    return out


def run(pid: str, repo: str, seed: int = 0, verbose: bool = True) -> int:
    muts = catalogue(pid)
    if not muts:
        if verbose:
            print(f"[{pid}] self-test: no catalogue")
        return 0
    jobs = [(pid, repo, m) for m in muts]
    results = {}
    with ProcessPoolExecutor(max_workers=min(16, len(jobs))) as ex:
        for name, outcome, msg, constructs in ex.map(_one, jobs):
            results[name] = (outcome, msg, constructs)
    bad = 0
    skipped = 0
    for m in muts:
        outcome, msg, constructs = results[m["name"]]
        want = m["expect"]
        if outcome == "setup-error":
            # the variant is written against the pinned tree; on a tree that has since been edited at that spot it
            # simply cannot be built and says nothing about the checker
            skipped += 1
            if verbose and os.environ.get("QSA_SELFTEST_VERBOSE"):
                print(f"[{pid}] self-test skip {m['name']}: does not apply to this tree ({msg})")
            continue
        ok = outcome == want
        if ok and want == "violation" and m.get("rule"):
            ok = any(c.startswith(m["rule"] + ":") for c in constructs)
        if ok and want == "violation" and m.get("construct"):
            ok = any(m["construct"] in c for c in constructs)
        if not ok:
            bad += 1
        if verbose and (not ok or os.environ.get("QSA_SELFTEST_VERBOSE")):
            print(f"[{pid}] self-test {'ok ' if ok else 'BAD'} {m['name']}: expected {want}{'/' + m['rule'] if m.get('rule') else ''}, got {outcome} {constructs[:4]} {msg}")
    if verbose:
        nv = sum(1 for m in muts if m["expect"] == "violation")
        print(f"[{pid}] self-test: {len(muts) - bad - skipped}/{len(muts) - skipped} as expected ({nv} seeded defects, {len(muts) - nv} benign twins"
              + (f"; {skipped} variants do not apply to this tree and were skipped" if skipped else "") + ")")
    LAST_SUMMARY.clear()
    LAST_SUMMARY.update({"variants": len(muts), "applied": len(muts) - skipped, "as_expected": len(muts) - bad - skipped, "not_as_expected": bad,
                         "seeded_defects": sum(1 for m in muts if m["expect"] == "violation"), "benign_twins": sum(1 for m in muts if m["expect"] == "silent"),
                         "stored_patches": sum(1 for m in muts if m.get("patch")),
                         "rule": "each variant is a scratch copy of <repo>/src with one edit; seeded defects must be reported (rule named), benign twins and stored refactorings must stay silent"})
    return 1 if bad else 0


LAST_SUMMARY: dict = {}


if __name__ == "__main__":
    pids = sys.argv[1:] or [f"C{n:02d}" for n in range(2, 21)]
    os.environ.setdefault("QSA_SELFTEST_VERBOSE", "")
    rc = 0
    for p in pids:
        rc |= run(p.upper(), os.environ.get("QSA_REPO", "/repo"))
    sys.exit(rc)
