"""Self-test of the checkers (thorough tier): seeded defects on scratch copies of the
working tree must be reported (naming the rule), benign twins must stay silent.

A scratch copy is a copy of ``<repo>/src`` under $TMPDIR (never under /repo or /verif),
removed as soon as its analysis finished.  A failing self-test makes the thorough check
exit 2 (the checker is weaker or noisier than claimed), never exit 1."""

from __future__ import annotations

import importlib
import os
import shutil
import sys
import tempfile
from concurrent.futures import ProcessPoolExecutor


def _apply(root: str, edits) -> str | None:
    for rel, old, new in edits:
        p = os.path.join(root, rel)
        try:
            with open(p, encoding="utf-8") as fh:
                s = fh.read()
        except OSError as exc:
            return f"{rel}: {exc}"
        if s.count(old) < 1:
            return f"{rel}: snippet not found: {old[:60]!r}"
        s = s.replace(old, new, 1)
        with open(p, "w", encoding="utf-8") as fh:
            fh.write(s)
    return None


def _one(args):
    pid, repo, mutant = args
    from .cli import run_property

    tmp = tempfile.mkdtemp(prefix=f"qsa-{pid}-")
    try:
        shutil.copytree(os.path.join(repo, "src"), os.path.join(tmp, "src"))
        err = _apply(tmp, mutant["edits"])
        if err:
            return mutant["name"], "setup-error", err, []
        code, ledger, msg = run_property(pid, tmp, "quick", 0, quiet=True, write_files=False)
        rules = sorted({o.rule for o in ledger.obligations if o.status == "violation"}) if ledger else []
        constructs = sorted({f"{o.rule}:{o.construct}" for o in ledger.obligations if o.status == "violation"}) if ledger else []
        return mutant["name"], {0: "silent", 1: "violation", 2: "analysis-error"}[code], msg[:300], constructs
    finally:
        shutil.rmtree(tmp, ignore_errors=True)


def catalogue(pid: str):
    try:
        mod = importlib.import_module(f"qsa.mutants.{pid.lower()}")
    except ModuleNotFoundError:
        return []
    return list(mod.MUTANTS)


def run(pid: str, repo: str, seed: int = 0, verbose: bool = True) -> int:
    muts = catalogue(pid)
    if not muts:
        if verbose:
            print(f"[{pid}] self-test: no catalogue")
        return 0
    jobs = [(pid, repo, m) for m in muts]
    results = {}
    with ProcessPoolExecutor(max_workers=min(16, len(jobs))) as ex:
        for name, outcome, msg, constructs in ex.map(_one, jobs):
            results[name] = (outcome, msg, constructs)
    bad = 0
    for m in muts:
        outcome, msg, constructs = results[m["name"]]
        want = m["expect"]
        ok = outcome == want
        if ok and want == "violation" and m.get("rule"):
            ok = any(c.startswith(m["rule"] + ":") for c in constructs)
        if ok and want == "violation" and m.get("construct"):
            ok = any(m["construct"] in c for c in constructs)
        if not ok:
            bad += 1
        if verbose and (not ok or os.environ.get("QSA_SELFTEST_VERBOSE")):
            print(f"[{pid}] self-test {'ok ' if ok else 'BAD'} {m['name']}: expected {want}{'/' + m['rule'] if m.get('rule') else ''}, got {outcome} {constructs[:4]} {msg}")
    if verbose:
        nv = sum(1 for m in muts if m["expect"] == "violation")
        print(f"[{pid}] self-test: {len(muts) - bad}/{len(muts)} as expected ({nv} seeded defects, {len(muts) - nv} benign twins)")
    return 1 if bad else 0


if __name__ == "__main__":
    pids = sys.argv[1:] or [f"C{n:02d}" for n in range(2, 21)]
    os.environ.setdefault("QSA_SELFTEST_VERBOSE", "")
    rc = 0
    for p in pids:
        rc |= run(p.upper(), os.environ.get("QSA_REPO", "/repo"))
    sys.exit(rc)
