"""Obligation ledger, evidence files, replay files, known-findings matching."""

from __future__ import annotations

import json
import os
import time
from dataclasses import dataclass, field

from . import VERIF_ROOT

EVIDENCE_DIR = os.path.join(VERIF_ROOT, "evidence")
REPLAY_DIR = os.path.join(EVIDENCE_DIR, "replay")
KNOWN_FINDINGS = os.path.join(VERIF_ROOT, "known_findings.json")


@dataclass
class Obligation:
    rule: str
    construct: str
    where: str
    status: str  # ok | violation | known | note
    detail: str = ""
    witness: str = ""
    stmt: str = ""

    def key(self) -> tuple:
        return (self.rule, self.construct, self.stmt)

    def as_dict(self) -> dict:
        d = {"rule": self.rule, "construct": self.construct, "where": self.where, "status": self.status}
        if self.detail:
            d["detail"] = self.detail
        if self.witness:
            d["witness"] = self.witness
        if self.stmt:
            d["stmt"] = self.stmt
        return d


@dataclass
class Ledger:
    pid: str
    tier: str = "quick"
    seed: int = 0
    repo: str = "/repo"
    obligations: list[Obligation] = field(default_factory=list)
    floors: list[tuple[str, int, int]] = field(default_factory=list)
    notes: list[str] = field(default_factory=list)
    assumptions: list[str] = field(default_factory=list)
    explanation: str = ""
    rules: dict[str, str] = field(default_factory=dict)
    extra: dict = field(default_factory=dict)
    t0: float = field(default_factory=time.time)
    quiet: bool = False
    write_files: bool = True

    # ----------------------------------------------------------------- record
    def rule(self, rid: str, text: str) -> None:
        self.rules[rid] = text

    def ok(self, rule: str, construct: str, where: str = "", detail: str = "") -> None:
        self.obligations.append(Obligation(rule, construct, where, "ok", detail))

    def violation(self, rule: str, construct: str, where: str, detail: str, witness: str = "", stmt: str = "") -> None:
        self.obligations.append(Obligation(rule, construct, where, "violation", detail, witness, stmt))

    def check(self, cond: bool, rule: str, construct: str, where: str, detail: str, witness: str = "", stmt: str = "") -> bool:
        if cond:
            self.ok(rule, construct, where)
        else:
            self.violation(rule, construct, where, detail, witness, stmt)
        return cond

    def note(self, text: str) -> None:
        self.notes.append(text)

    def assume(self, text: str) -> None:
        if text not in self.assumptions:
            self.assumptions.append(text)

    def floor(self, what: str, count: int, minimum: int) -> None:
        """Instance-count floor: a rule matching fewer sites than confirmed by hand
        is a broken analysis, not a pass."""
        self.floors.append((what, count, minimum))
        if count < minimum:
            from .loader import AnalysisError

            raise AnalysisError(f"instance floor: {what}: found {count}, expected at least {minimum}")

    # ----------------------------------------------------------------- finish
    def _known(self) -> list[dict]:
        try:
            with open(KNOWN_FINDINGS, encoding="utf-8") as fh:
                data = json.load(fh)
        except FileNotFoundError:
            return []
        return [f for f in data.get("findings", []) if f.get("property") == self.pid]

    def finish(self) -> int:
        known = self._known()
        seen_viol: dict[tuple, Obligation] = {}
        for ob in self.obligations:
            if ob.status != "violation":
                continue
            for kf in known:
                if (
                    kf.get("rule") == ob.rule
                    and kf.get("construct") == ob.construct
                    and (not kf.get("stmt") or kf.get("stmt") == ob.stmt)
                ):
                    ob.status = "known"
                    ob.detail = ob.detail + " [known finding: " + kf.get("what", "") + "]"
                    break
            if ob.status == "violation":
                seen_viol.setdefault(ob.key(), ob)
        violations = list(seen_viol.values())
        knowns = {}
        for ob in self.obligations:
            if ob.status == "known":
                knowns.setdefault(ob.key(), ob)

        replay_paths = []
        if self.write_files:
            os.makedirs(REPLAY_DIR, exist_ok=True)
            for fn in os.listdir(REPLAY_DIR):
                if fn.startswith(self.pid + "-"):
                    try:
                        os.unlink(os.path.join(REPLAY_DIR, fn))
                    except OSError:
                        pass
        for i, ob in enumerate(violations):
            path = os.path.join(REPLAY_DIR, f"{self.pid}-{i}.json")
            if self.write_files:
                with open(path, "w", encoding="utf-8") as fh:
                    json.dump(
                        {
                            "property": self.pid,
                            "rule": ob.rule,
                            "rule_text": self.rules.get(ob.rule, ""),
                            "construct": ob.construct,
                            "where": ob.where,
                            "stmt": ob.stmt,
                            "detail": ob.detail,
                            "witness": ob.witness,
                            "repo": self.repo,
                        },
                        fh,
                        indent=1,
                    )
            replay_paths.append(path)

        n_ok = sum(1 for o in self.obligations if o.status == "ok")
        total = len(self.obligations)
        if not self.quiet:
            print(
                f"[{self.pid}] tier={self.tier} obligations={total} discharged={n_ok} "
                f"violations={len(violations)} known={len(knowns)} wall={time.time() - self.t0:.2f}s"
            )
            for what, c, m in self.floors:
                print(f"[{self.pid}] instances: {what}: {c} (floor {m})")
            for n in self.notes:
                print(f"[{self.pid}] note: {n}")
            for ob in knowns.values():
                print(f"KNOWN-FINDING: property={self.pid} rule={ob.rule} construct={ob.construct} at {ob.where}: {ob.detail}")
            for ob, path in zip(violations, replay_paths):
                print(f"[{self.pid}] FAIL rule={ob.rule} construct={ob.construct} at {ob.where}: {ob.detail}")
                if ob.witness:
                    print(f"[{self.pid}]      witness: {ob.witness}")
                print(f"VIOLATION property={self.pid} replay={path}")

        if self.write_files:
            self._write_evidence(len(violations), len(knowns))
        return 1 if violations else 0

    def _write_evidence(self, n_viol: int, n_known: int) -> None:
        os.makedirs(EVIDENCE_DIR, exist_ok=True)
        distinct = {(o.rule, o.construct) for o in self.obligations}
        by_rule: dict[str, int] = {}
        for o in self.obligations:
            by_rule[o.rule] = by_rule.get(o.rule, 0) + 1
        samples = []
        seen_rules = set()
        for o in self.obligations:
            if o.rule not in seen_rules or o.status != "ok":
                seen_rules.add(o.rule)
                samples.append(o.as_dict())
            if len(samples) >= 40:
                break
        n_ok = sum(1 for o in self.obligations if o.status == "ok")
        ev = {
            "property_id": self.pid,
            "tier": self.tier,
            "seed": int(self.seed),
            "level": "other",
            "coverage": {
                "explanation": self.explanation or "static rules over the parsed and resolved source of /repo/src/quansino",
                "obligations": len(self.obligations),
                "discharged": n_ok,
                "known_findings_rederived": n_known,
                "evaluations": max(1, len(self.obligations)),
                "distinct_nontrivial": len(distinct),
                "rule": "one obligation per (rule, construct) instance discovered in the parsed source on this run; "
                "distinct = distinct (rule, construct) pairs; all are non-trivial in that each names a concrete class/function/statement",
                "rules": self.rules,
                "obligations_by_rule": by_rule,
                "instance_floors": [{"what": w, "found": c, "floor": m} for w, c, m in self.floors],
                "samples": samples,
                "notes": self.notes,
                "exhaustive": True,
                "checker_cmd": f"./check {self.pid} --tier {self.tier}",
                "trusted_base": self.assumptions,
                **self.extra,
            },
            "assumptions": self.assumptions,
            "wall_s": round(time.time() - self.t0, 3),
            "violations": n_viol,
        }
        tmp = os.path.join(EVIDENCE_DIR, f".{self.pid}.json.tmp")
        with open(tmp, "w", encoding="utf-8") as fh:
            json.dump(ev, fh, indent=1, default=str)
        os.replace(tmp, os.path.join(EVIDENCE_DIR, f"{self.pid}.json"))
