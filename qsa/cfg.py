"""Statement-level control-flow graphs for the statement kinds quansino uses, with
bounded path enumeration and dominance queries (networkx)."""

from __future__ import annotations

import ast
from dataclasses import dataclass, field
from typing import Callable, Iterator

import networkx as nx

from .loader import AnalysisError, norm


@dataclass
class Node:
    id: int
    kind: str  # entry | exit | stmt | test | iter | handler | join
    ast: ast.AST | None = None
    label: str = ""

    def __hash__(self):
        return self.id

    def __repr__(self):
        t = norm(self.ast)[:50] if self.ast is not None else ""
        return f"<{self.id}:{self.kind}:{self.label or t}>"

    @property
    def lineno(self) -> int:
        return getattr(self.ast, "lineno", 0) if self.ast is not None else 0


@dataclass
class CFG:
    fn: ast.FunctionDef
    nodes: list[Node] = field(default_factory=list)
    g: nx.MultiDiGraph = field(default_factory=nx.MultiDiGraph)
    entry: Node | None = None
    exit: Node | None = None  # normal exits (return / fall off)
    raise_exit: Node | None = None

    def new(self, kind: str, node: ast.AST | None = None, label: str = "") -> Node:
        n = Node(len(self.nodes), kind, node, label)
        self.nodes.append(n)
        self.g.add_node(n)
        return n

    def edge(self, a: Node, b: Node, label: str = "next") -> None:
        self.g.add_edge(a, b, label=label)

    def succ(self, n: Node) -> list[tuple[Node, str]]:
        return [(v, d.get("label", "next")) for _, v, d in self.g.out_edges(n, data=True)]

    # ------------------------------------------------------------- queries
    def paths(
        self,
        start: Node | None = None,
        stop: Callable[[Node], bool] | None = None,
        max_back: int = 1,
        include_exc: bool = True,
        limit: int = 20000,
    ) -> Iterator[list[tuple[Node, str]]]:
        """Enumerate paths from ``start`` to an exit (or a node where stop() holds).

        A path is a list of (node, label-of-edge-taken-out-of-node); the last element has
        label ''.  Every back edge is followed at most ``max_back`` times per path."""
        start = start or self.entry
        count = 0
        stack = [(start, [], {})]
        while stack:
            node, path, backs = stack.pop()
            if node in (self.exit, self.raise_exit) or (stop is not None and path and stop(node)):
                count += 1
                if count > limit:
                    raise AnalysisError(f"path explosion in {self.fn.name} (> {limit} paths)")
                yield path + [(node, "")]
                continue
            succs = self.succ(node)
            if not succs:
                yield path + [(node, "")]
                continue
            for nxt, label in succs:
                if label == "exc" and not include_exc:
                    continue
                b = backs
                if label == "back":
                    k = backs.get(node.id, 0)
                    if k >= max_back:
                        continue
                    b = dict(backs)
                    b[node.id] = k + 1
                stack.append((nxt, path + [(node, label)], b))

    def dominates(self, a: Node, b: Node) -> bool:
        """Every path from entry to b passes through a."""
        simple = nx.DiGraph(self.g)
        idom = nx.immediate_dominators(simple, self.entry)
        cur = b
        while True:
            if cur == a:
                return True
            nxt = idom.get(cur)
            if nxt is None or nxt == cur:
                return cur == a
            cur = nxt

    def stmt_nodes(self, pred: Callable[[ast.AST], bool]) -> list[Node]:
        return [n for n in self.nodes if n.ast is not None and n.kind in ("stmt", "test", "iter") and pred(n.ast)]


class _Builder:
    def __init__(self, fn: ast.FunctionDef):
        self.c = CFG(fn)
        self.c.entry = self.c.new("entry", label="entry")
        self.c.exit = self.c.new("exit", label="exit")
        self.c.raise_exit = self.c.new("exit", label="raise")
        self.loop_stack: list[tuple[Node, Node]] = []  # (continue target, break target)
        self.handler_stack: list[list[Node]] = []

    def build(self) -> CFG:
        body = self.c.fn.body
        last = self.seq(body, [(self.c.entry, "next")])
        for n, lab in last:
            self.c.edge(n, self.c.exit, lab)
        return self.c

    def connect(self, preds, node):
        for p, lab in preds:
            self.c.edge(p, node, lab)

    def seq(self, stmts, preds):
        """Wire a statement list after ``preds``; return dangling (node,label) exits."""
        for st in stmts:
            if not preds:
                break  # unreachable code
            preds = self.stmt(st, preds)
        return preds

    def exc_edges(self, node: Node):
        if self.handler_stack:
            for h in self.handler_stack[-1]:
                self.c.edge(node, h, "exc")

    def stmt(self, st, preds):
        c = self.c
        if isinstance(st, ast.If):
            t = c.new("test", st.test)
            self.connect(preds, t)
            self.exc_edges(t)
            out = self.seq(st.body, [(t, "true")])
            out += self.seq(st.orelse, [(t, "false")]) if st.orelse else [(t, "false")]
            return out
        if isinstance(st, (ast.For, ast.AsyncFor)):
            it = c.new("iter", st, label=f"for {norm(st.target)} in {norm(st.iter)}"[:80])
            self.connect(preds, it)
            self.exc_edges(it)
            after = c.new("join", label="after-for")
            self.loop_stack.append((it, after))
            body_out = self.seq(st.body, [(it, "iter")])
            self.loop_stack.pop()
            for n, lab in body_out:
                c.edge(n, it, "back")
            else_out = self.seq(st.orelse, [(it, "exhausted")]) if st.orelse else [(it, "exhausted")]
            for n, lab in else_out:
                c.edge(n, after, lab)
            return [(after, "next")]
        if isinstance(st, ast.While):
            t = c.new("test", st.test, label=f"while {norm(st.test)}"[:80])
            self.connect(preds, t)
            self.exc_edges(t)
            after = c.new("join", label="after-while")
            self.loop_stack.append((t, after))
            body_out = self.seq(st.body, [(t, "true")])
            self.loop_stack.pop()
            for n, lab in body_out:
                c.edge(n, t, "back")
            is_true = isinstance(st.test, ast.Constant) and bool(st.test.value) is True
            if not is_true:
                else_out = self.seq(st.orelse, [(t, "false")]) if st.orelse else [(t, "false")]
                for n, lab in else_out:
                    c.edge(n, after, lab)
            return [(after, "next")]
        if isinstance(st, ast.Try):
            handlers = []
            for h in st.handlers:
                hn = c.new("handler", h, label=f"except {norm(h.type) if h.type else ''}")
                handlers.append(hn)
            self.handler_stack.append(handlers)
            body_out = self.seq(st.body, preds)
            self.handler_stack.pop()
            out = self.seq(st.orelse, body_out) if st.orelse else body_out
            for hn, h in zip(handlers, st.handlers):
                out = out + self.seq(h.body, [(hn, "next")])
            if st.finalbody:
                out = self.seq(st.finalbody, out)
            return out
        if isinstance(st, (ast.With, ast.AsyncWith)):
            w = c.new("stmt", st, label="with " + ", ".join(norm(i.context_expr) for i in st.items)[:70])
            self.connect(preds, w)
            self.exc_edges(w)
            return self.seq(st.body, [(w, "next")])
        if isinstance(st, ast.Return):
            n = c.new("stmt", st)
            self.connect(preds, n)
            self.exc_edges(n)
            c.edge(n, c.exit, "return")
            return []
        if isinstance(st, ast.Raise):
            n = c.new("stmt", st)
            self.connect(preds, n)
            if self.handler_stack:
                for h in self.handler_stack[-1]:
                    c.edge(n, h, "exc")
            else:
                c.edge(n, c.raise_exit, "raise")
            return []
        if isinstance(st, ast.Break):
            n = c.new("stmt", st)
            self.connect(preds, n)
            if not self.loop_stack:
                raise AnalysisError("break outside loop")
            c.edge(n, self.loop_stack[-1][1], "break")
            return []
        if isinstance(st, ast.Continue):
            n = c.new("stmt", st)
            self.connect(preds, n)
            if not self.loop_stack:
                raise AnalysisError("continue outside loop")
            c.edge(n, self.loop_stack[-1][0], "back")
            return []
        if isinstance(st, (ast.FunctionDef, ast.AsyncFunctionDef, ast.ClassDef)):
            n = c.new("stmt", st, label=f"def {st.name}")
            self.connect(preds, n)
            return [(n, "next")]
        if isinstance(st, ast.Match):
            raise AnalysisError("match statement not supported by the CFG builder")
        # simple statement
        n = c.new("stmt", st)
        self.connect(preds, n)
        self.exc_edges(n)
        return [(n, "next")]


def build_cfg(fn: ast.FunctionDef) -> CFG:
    return _Builder(fn).build()


def path_stmts(path) -> list[ast.AST]:
    return [n.ast for n, _ in path if n.ast is not None and n.kind in ("stmt", "test", "iter", "handler")]
