"""Small intraprocedural dataflow helpers over ast: local definitions, single-assignment
inlining, annotation lookup, boolean-context enumeration."""

from __future__ import annotations

import ast
import copy
from typing import Iterator

from .loader import ClassInfo, FuncInfo, Program, dotted, norm, walk_no_nested


# ------------------------------------------------------------------ definitions
def local_defs(fn: ast.FunctionDef) -> dict[str, list[tuple[ast.stmt, ast.expr | None]]]:
    """name -> [(statement, value-expr or None if not a plain binding)] for locals."""
    out: dict[str, list] = {}

    def add(name, st, val):
        out.setdefault(name, []).append((st, val))

    def targets(t, st, val):
        if isinstance(t, ast.Name):
            add(t.id, st, val)
        elif isinstance(t, (ast.Tuple, ast.List)):
            if isinstance(val, (ast.Tuple, ast.List)) and len(val.elts) == len(t.elts):
                for a, b in zip(t.elts, val.elts):
                    targets(a, st, b)
            else:
                for i, a in enumerate(t.elts):
                    if isinstance(a, ast.Name):
                        # element i of val
                        if val is not None:
                            sub = ast.Subscript(value=val, slice=ast.Constant(value=i), ctx=ast.Load())
                            ast.copy_location(sub, val)
                            ast.fix_missing_locations(sub)
                            add(a.id, st, _Unpack(val, i, len(t.elts)))
                        else:
                            add(a.id, st, None)
                    elif isinstance(a, ast.Starred) and isinstance(a.value, ast.Name):
                        add(a.value.id, st, None)
                    else:
                        targets(a, st, None)

    for n in walk_no_nested(fn):
        if isinstance(n, ast.Assign):
            for t in n.targets:
                targets(t, n, n.value)
        elif isinstance(n, ast.AnnAssign) and n.value is not None:
            targets(n.target, n, n.value)
        elif isinstance(n, ast.AugAssign):
            if isinstance(n.target, ast.Name):
                add(n.target.id, n, None)
        elif isinstance(n, ast.For):
            targets(n.target, n, None)
        elif isinstance(n, ast.NamedExpr):
            add(n.target.id, n, n.value)
        elif isinstance(n, ast.With):
            for it in n.items:
                if it.optional_vars is not None:
                    targets(it.optional_vars, n, None)
        elif isinstance(n, ast.comprehension):
            targets(n.target, n, None)
        elif isinstance(n, ast.ExceptHandler) and n.name:
            add(n.name, n, None)
    return out


class _Unpack(ast.expr):
    """Pseudo expression: element ``index`` of an unpacked value."""

    _fields = ("value",)

    def __init__(self, value, index, total):
        super().__init__()
        self.value = value
        self.index = index
        self.total = total


def is_unpack(e) -> bool:
    return isinstance(e, _Unpack)


def param_names(fn: ast.FunctionDef) -> set[str]:
    a = fn.args
    s = {x.arg for x in a.posonlyargs + a.args + a.kwonlyargs}
    if a.vararg:
        s.add(a.vararg.arg)
    if a.kwarg:
        s.add(a.kwarg.arg)
    return s


def param_annotation(fn: ast.FunctionDef, name: str) -> ast.expr | None:
    a = fn.args
    for x in a.posonlyargs + a.args + a.kwonlyargs:
        if x.arg == name:
            return x.annotation
    return None


def param_default(fn: ast.FunctionDef, name: str):
    """Return default expr for positional/kw param, or the sentinel ``NO_DEFAULT``."""
    a = fn.args
    pos = a.posonlyargs + a.args
    nd = len(a.defaults)
    for i, x in enumerate(pos):
        if x.arg == name:
            j = i - (len(pos) - nd)
            return a.defaults[j] if j >= 0 else NO_DEFAULT
    for x, d in zip(a.kwonlyargs, a.kw_defaults):
        if x.arg == name:
            return d if d is not None else NO_DEFAULT
    return NO_DEFAULT


class _NoDefault:
    def __repr__(self):
        return "<no default>"


NO_DEFAULT = _NoDefault()


class Inliner:
    """Substitute single-assignment locals by their defining expression (recursively).

    A local is inlined only if it has exactly one binding in the function, that binding
    is a plain value, and the name is not a parameter.  This turns straight-line code
    into one expression over *sources* (parameters, attribute reads, calls)."""

    def __init__(self, fn: ast.FunctionDef, extra: dict[str, ast.expr] | None = None, multi_ok: bool = False):
        self.fn = fn
        self.defs = local_defs(fn)
        self.params = param_names(fn)
        self.extra = extra or {}
        self.multi_ok = multi_ok

    def single(self, name: str) -> ast.expr | None:
        if name in self.extra:
            return self.extra[name]
        if name in self.params:
            return None
        d = self.defs.get(name)
        if not d or len(d) != 1:
            return None
        st, val = d[0]
        if val is None or isinstance(st, (ast.For, ast.AugAssign)):
            return None
        return val

    def inline(self, e: ast.expr, depth: int = 0) -> ast.expr:
        if depth > 40:
            return e
        inl = self

        class T(ast.NodeTransformer):
            def visit_Name(self, node):
                if isinstance(node.ctx, ast.Load):
                    v = inl.single(node.id)
                    if v is not None:
                        if is_unpack(v):
                            inner = inl.inline(v.value, depth + 1)
                            if isinstance(inner, (ast.Tuple, ast.List)) and len(inner.elts) == v.total:
                                return copy.deepcopy(inner.elts[v.index])
                            u = _Unpack(inner, v.index, v.total)
                            return u
                        return inl.inline(copy.deepcopy(v), depth + 1)
                return node

            def visit_Lambda(self, node):
                return node

            def generic_visit(self, node):
                if is_unpack(node):
                    return node
                return super().generic_visit(node)

        return T().visit(copy.deepcopy(e))


# ------------------------------------------------------------ boolean contexts
def boolean_contexts(root: ast.AST) -> Iterator[tuple[ast.expr, str, ast.AST]]:
    """Yield (expr, kind, parent) for every expression whose *truth value* is taken."""

    def tested(e: ast.expr, kind: str, parent):
        # descend through not/and/or: their operands are truth-tested too
        if isinstance(e, ast.UnaryOp) and isinstance(e.op, ast.Not):
            yield from tested(e.operand, "not", e)
        elif isinstance(e, ast.BoolOp):
            for v in e.values:
                yield from tested(v, "boolop-in-test", e)
        else:
            yield e, kind, parent

    for n in walk_no_nested(root):
        if isinstance(n, (ast.If, ast.While)):
            yield from tested(n.test, "if" if isinstance(n, ast.If) else "while", n)
        elif isinstance(n, ast.IfExp):
            yield from tested(n.test, "ifexp", n)
        elif isinstance(n, ast.Assert):
            yield from tested(n.test, "assert", n)
        elif isinstance(n, ast.comprehension):
            for c in n.ifs:
                yield from tested(c, "comp-if", n)
        elif isinstance(n, ast.BoolOp):
            # all operands but the last are truth-tested (the last is returned as is)
            for v in n.values[:-1]:
                yield from tested(v, "or" if isinstance(n.op, ast.Or) else "and", n)
        elif isinstance(n, ast.UnaryOp) and isinstance(n.op, ast.Not):
            yield from tested(n.operand, "not", n)
        elif isinstance(n, ast.Call) and isinstance(n.func, ast.Name) and n.func.id == "bool" and len(n.args) == 1:
            yield from tested(n.args[0], "bool()", n)


# ---------------------------------------------------------------- annotations
def ann_text(e: ast.expr | None) -> str:
    if e is None:
        return ""
    if isinstance(e, ast.Constant) and isinstance(e.value, str):
        return e.value
    return norm(e)


def ann_members(e: ast.expr | None) -> list[str]:
    """Flatten ``A | B | None`` / Optional[A] / Union[A, B] into member texts."""
    if e is None:
        return []
    if isinstance(e, ast.Constant) and isinstance(e.value, str):
        try:
            e = ast.parse(e.value, mode="eval").body
        except SyntaxError:
            return [e.value]
    if isinstance(e, ast.BinOp) and isinstance(e.op, ast.BitOr):
        return ann_members(e.left) + ann_members(e.right)
    if isinstance(e, ast.Subscript):
        d = dotted(e.value) or ""
        if d.split(".")[-1] == "Optional":
            return ann_members(e.slice) + ["None"]
        if d.split(".")[-1] == "Union":
            if isinstance(e.slice, ast.Tuple):
                out = []
                for x in e.slice.elts:
                    out += ann_members(x)
                return out
            return ann_members(e.slice)
        if d.split(".")[-1] == "Final":
            return ann_members(e.slice)
    if isinstance(e, ast.Constant) and e.value is None:
        return ["None"]
    return [norm(e)]


def self_attr_annotations(prog: Program, ci: ClassInfo) -> dict[str, ast.expr]:
    """attr -> annotation from ``self.attr: T = ...`` in any method along the MRO and
    class-level annotations."""
    out: dict[str, ast.expr] = {}
    for c in reversed(prog.mro_classes(ci)):
        for k, v in c.class_annotations.items():
            out[k] = v
        for f in list(c.methods.values()) + list(c.setters.values()):
            for n in walk_no_nested(f.node):
                if (
                    isinstance(n, ast.AnnAssign)
                    and isinstance(n.target, ast.Attribute)
                    and isinstance(n.target.value, ast.Name)
                    and n.target.value.id == "self"
                ):
                    out[n.target.attr] = n.annotation
    return out


def self_attr_assignments(prog: Program, ci: ClassInfo, own_only: bool = False) -> dict[str, list[tuple[FuncInfo, ast.stmt, ast.expr | None]]]:
    """attr -> [(function, stmt, value)] for ``self.attr = value`` along the MRO."""
    out: dict[str, list] = {}
    classes = [ci] if own_only else prog.mro_classes(ci)
    for c in classes:
        for f in list(c.methods.values()) + list(c.setters.values()):
            for n in walk_no_nested(f.node):
                tgts = []
                val = None
                if isinstance(n, ast.Assign):
                    tgts, val = n.targets, n.value
                elif isinstance(n, ast.AnnAssign):
                    tgts, val = [n.target], n.value
                elif isinstance(n, ast.AugAssign):
                    tgts, val = [n.target], None
                for t in tgts:
                    if isinstance(t, ast.Attribute) and isinstance(t.value, ast.Name) and t.value.id == "self":
                        out.setdefault(t.attr, []).append((f, n, val))
    return out


def seq_inline(body: list[ast.stmt], e: ast.expr, stop_at: ast.AST | None = None) -> ast.expr:
    """Substitute straight-line definitions in program order: unlike `Inliner` (single-definition locals only) a local may
    be bound several times (`d = a @ b; d = d - c` — the rebinding form of an in-place `d -= c`); each use sees the value
    bound last before it.  Only top-level `Name = expr` statements before `stop_at` (or the statement containing `e`) are
    followed; anything else leaves the names it binds unknown."""
    import copy

    env: dict[str, ast.expr] = {}

    def subst(x: ast.expr) -> ast.expr:
        class T(ast.NodeTransformer):
            def visit_Name(self, node):
                if isinstance(node.ctx, ast.Load) and node.id in env:
                    return copy.deepcopy(env[node.id])
                return node

        return T().visit(copy.deepcopy(x))

    for st in body:
        if stop_at is not None and any(n is stop_at for n in ast.walk(st)):
            break
        if any(n is e for n in ast.walk(st)):
            break
        if isinstance(st, (ast.Assign, ast.AnnAssign)) and st.value is not None:
            tg = st.targets if isinstance(st, ast.Assign) else [st.target]
            if len(tg) == 1 and isinstance(tg[0], ast.Name):
                env[tg[0].id] = subst(st.value)
                continue
        if isinstance(st, ast.AugAssign) and isinstance(st.target, ast.Name):
            # value-wise `x op= e` is `x = x op e` (whether the update is in place matters to aliasing rules, not to the value)
            env[st.target.id] = ast.BinOp(left=subst(ast.Name(id=st.target.id, ctx=ast.Load())), op=st.op, right=subst(st.value))
            continue
        for n in ast.walk(st):
            if isinstance(n, ast.Name) and isinstance(n.ctx, ast.Store):
                env.pop(n.id, None)
    return subst(e)
