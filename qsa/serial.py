"""R-SERIAL support: abstract interpretation of ``to_dict`` bodies into emitted schemas,
constructor parameter chains (``**kwargs`` forwarding), ``from_dict`` reading sites,
registry tables."""

from __future__ import annotations

import ast
from dataclasses import dataclass, field

from .dataflow import NO_DEFAULT, param_annotation, param_default
from .loader import AnalysisError, ClassInfo, FuncInfo, Program, calls_in, dotted, norm, walk_no_nested


# ============================================================== emitted schema
class DV:
    """Abstract dict value built by a to_dict chain."""

    def __init__(self):
        self.items: dict[str, object] = {}
        self.origin: dict[str, FuncInfo] = {}
        self.conditional: set[str] = set()
        self.cond_tests: dict[str, tuple] = {}  # key -> (test expr, polarity, function) for conditionally written keys
        self.opaque_spreads: list[str] = []

    def copy(self) -> "DV":
        d = DV()
        for k, v in self.items.items():
            d.items[k] = v.copy() if isinstance(v, DV) else v
        d.origin = dict(self.origin)
        d.conditional = set(self.conditional)
        d.cond_tests = dict(self.cond_tests)
        d.opaque_spreads = list(self.opaque_spreads)
        return d

    def keys(self):
        return list(self.items)

    def __repr__(self):
        return "DV(" + ", ".join(f"{k}={v!r}" for k, v in self.items.items()) + ")"


@dataclass
class EV:
    """An emitted leaf expression (evaluated in ``func`` with receiver ``self``)."""

    expr: ast.expr
    func: FuncInfo

    def __repr__(self):
        return f"EV({norm(self.expr)})"


class DictInterp:
    def __init__(self, prog: Program, concrete: ClassInfo, method: str = "to_dict"):
        self.prog = prog
        self.concrete = concrete
        self.method = method

    def run(self, fi: FuncInfo) -> DV:
        from .normalize import flat

        env: dict[str, object] = {}
        fi = flat(self.prog, fi, self.concrete)  # private helpers inlined, accumulation loops as comprehensions
        result = self._block(fi, fi.body(), env, False)
        if result is None:
            raise AnalysisError(f"{fi.qualname}: no return value on the straight path")
        if not isinstance(result, DV):
            raise AnalysisError(f"{fi.qualname}: returns `{result!r}`, not a dictionary the interpreter can follow")
        return result

    # ------------------------------------------------------------ statements
    def _block(self, fi, body, env, cond):
        for st in body:
            if isinstance(st, ast.Return):
                return self._expr(fi, st.value, env) if st.value is not None else None
            if isinstance(st, (ast.Assign, ast.AnnAssign)):
                if st.value is None:
                    continue
                val = self._expr(fi, st.value, env)
                tgts = st.targets if isinstance(st, ast.Assign) else [st.target]
                for t in tgts:
                    self._store(fi, t, val, env, cond)
            elif isinstance(st, ast.Expr):
                if isinstance(st.value, ast.Constant):
                    continue
                self._expr(fi, st.value, env, stmt=True, cond=cond)
            elif isinstance(st, ast.If):
                dec = self._decide_membership(fi, st.test, env)
                if dec is not None:
                    # `if "kwargs" not in d:` on a dictionary whose keys are known: only that arm runs
                    r = self._block(fi, st.body if dec else st.orelse, env, cond)
                    if r is not None:
                        raise AnalysisError(f"{fi.qualname}: conditional return in {self.method}")
                    continue
                r1 = self._block(fi, st.body, env, cond if isinstance(cond, tuple) else ("if", st.test, True, fi))
                r2 = self._block(fi, st.orelse, env, cond if isinstance(cond, tuple) else ("if", st.test, False, fi))
                if r1 is not None or r2 is not None:
                    raise AnalysisError(f"{fi.qualname}: conditional return in {self.method}")
            elif isinstance(st, ast.Delete):
                for t in st.targets:
                    if isinstance(t, ast.Subscript):
                        cont = self._expr(fi, t.value, env)
                        k = self._key(t.slice)
                        if isinstance(cont, DV) and k is not None:
                            cont.items.pop(k, None)
                            continue
                    raise AnalysisError(f"{fi.qualname}: unsupported delete `{norm(st)}`")
            elif isinstance(st, ast.Pass):
                continue
            elif isinstance(st, ast.AugAssign) and isinstance(st.op, ast.BitOr) and isinstance(st.target, (ast.Name, ast.Subscript)) \
                    and isinstance(self._expr(fi, st.target, env), DV):
                # `d |= {...}`: in-place update of the dictionary object (every alias of it sees the new keys)
                tgt = self._expr(fi, st.target, env)
                add = self._expr(fi, st.value, env)
                if not isinstance(add, DV):
                    raise AnalysisError(f"{fi.qualname}: `{norm(st)[:60]}` merges something that is not a dictionary the interpreter can follow")
                for k_, v_ in add.items.items():
                    tgt.items[k_] = v_
                    tgt.origin[k_] = add.origin.get(k_, fi)
                    if cond:
                        tgt.conditional.add(k_)
                        if isinstance(cond, tuple):
                            tgt.cond_tests[k_] = cond
                tgt.conditional |= add.conditional
                tgt.cond_tests.update(add.cond_tests)
                tgt.opaque_spreads += add.opaque_spreads
            else:
                # statement kinds that do not touch tracked dicts are fine
                touched = {n.id for n in ast.walk(st) if isinstance(n, ast.Name)} & {k for k, v in env.items() if isinstance(v, DV)}
                if touched:
                    raise AnalysisError(f"{fi.qualname}: statement `{norm(st)[:60]}` manipulates a tracked dictionary in an unsupported way")
        return None

    def _decide_membership(self, fi, test, env):
        neg = False
        while isinstance(test, ast.UnaryOp) and isinstance(test.op, ast.Not):
            neg, test = not neg, test.operand
        if isinstance(test, ast.Compare) and len(test.ops) == 1 and isinstance(test.ops[0], (ast.In, ast.NotIn)):
            k = self._key(test.left)
            cont = self._expr(fi, test.comparators[0], env) if isinstance(test.comparators[0], (ast.Name, ast.Subscript)) else None
            if k is not None and isinstance(cont, DV) and not cont.opaque_spreads and k not in cont.conditional:
                present = k in cont.items
                r = present if isinstance(test.ops[0], ast.In) else not present
                return (not r) if neg else r
        return None

    def _literal_names(self, fi, it, env):
        """a literal tuple/list of string constants, given directly, through a local, or as a class attribute"""
        if isinstance(it, ast.Name) and it.id in env and isinstance(env[it.id], EV):
            it = env[it.id].expr
        if isinstance(it, (ast.Tuple, ast.List)) and all(isinstance(x, ast.Constant) and isinstance(x.value, str) for x in it.elts):
            return [x.value for x in it.elts]
        if isinstance(it, ast.Attribute):
            owner = None
            if isinstance(it.value, ast.Name) and it.value.id in ("self", "cls"):
                owner = self.concrete
            else:
                r = self.prog.resolve_class(fi.module, it.value)
                owner = r if hasattr(r, "class_attrs") else None
            if owner is not None:
                found = self.prog.lookup(owner, it.attr)
                if found is not None and isinstance(found[1], ast.expr):
                    return self._literal_names(fi, found[1], {})
        return None

    @staticmethod
    def _key(e) -> str | None:
        if isinstance(e, ast.Constant) and isinstance(e.value, str):
            return e.value
        return None

    def _store(self, fi, target, val, env, cond):
        if isinstance(target, ast.Name):
            env[target.id] = val
            return
        if isinstance(target, ast.Subscript):
            cont = self._expr(fi, target.value, env)
            k = self._key(target.slice)
            if isinstance(cont, DV) and k is not None:
                cont.items[k] = val
                cont.origin[k] = fi
                if cond:
                    cont.conditional.add(k)
                    if isinstance(cond, tuple):
                        cont.cond_tests[k] = cond
                return
            if isinstance(cont, DV):
                raise AnalysisError(f"{fi.qualname}: non-literal key in `{norm(target)}`")
            return
        # attribute stores etc. are irrelevant to the emitted dict

    # ----------------------------------------------------------- expressions
    def _expr(self, fi, e, env, stmt=False, cond=False):
        if isinstance(e, ast.Name):
            if e.id in env:
                return env[e.id]
            return EV(e, fi)
        if isinstance(e, ast.DictComp) and len(e.generators) == 1 and not e.generators[0].ifs and isinstance(e.generators[0].target, ast.Name):
            # {name: getattr(self, name) for name in <literal table of names>}: one entry per name of the table
            names = self._literal_names(fi, e.generators[0].iter, env)
            var = e.generators[0].target.id
            if names is not None and isinstance(e.key, ast.Name) and e.key.id == var:
                d = DV()
                for nm in names:
                    class Sub(ast.NodeTransformer):
                        def visit_Name(self, node, _nm=nm):
                            if node.id == var and isinstance(node.ctx, ast.Load):
                                return ast.copy_location(ast.Constant(value=_nm), node)
                            return node

                        def visit_Call(self, node):
                            self.generic_visit(node)
                            if isinstance(node.func, ast.Name) and node.func.id == "getattr" and len(node.args) == 2 and isinstance(node.args[1], ast.Constant) and isinstance(node.args[1].value, str):
                                return ast.copy_location(ast.Attribute(value=node.args[0], attr=node.args[1].value, ctx=ast.Load()), node)
                            return node

                    import copy as _copy

                    val = Sub().visit(_copy.deepcopy(e.value))
                    ast.fix_missing_locations(val)
                    d.items[nm] = self._expr(fi, val, env)
                    d.origin[nm] = fi
                return d
        if isinstance(e, ast.Dict):
            d = DV()
            for k, v in zip(e.keys, e.values):
                if k is None:  # **spread
                    sv = self._expr(fi, v, env)
                    if isinstance(sv, DV):
                        c = sv.copy()
                        d.items.update(c.items)
                        d.origin.update(c.origin)
                        d.conditional |= c.conditional
                        d.cond_tests.update(c.cond_tests)
                        d.opaque_spreads += c.opaque_spreads
                    else:
                        d.opaque_spreads.append(norm(v))
                    continue
                ks = self._key(k)
                if ks is None:
                    raise AnalysisError(f"{fi.qualname}: non-literal dictionary key `{norm(k)}`")
                d.items[ks] = self._expr(fi, v, env)
                d.origin[ks] = fi
            return d
        if isinstance(e, ast.Subscript):
            cont = self._expr(fi, e.value, env)
            k = self._key(e.slice)
            if isinstance(cont, DV) and k is not None:
                if k not in cont.items:
                    raise AnalysisError(f"{fi.qualname}: `{norm(e)}` reads key {k!r} that the chain has not emitted (KeyError at run time)")
                return cont.items[k]
            return EV(e, fi)
        if isinstance(e, ast.BinOp) and isinstance(e.op, ast.BitOr):
            a, b = self._expr(fi, e.left, env), self._expr(fi, e.right, env)
            if isinstance(a, DV) and isinstance(b, DV):
                d = a.copy()
                c = b.copy()
                d.items.update(c.items)
                d.origin.update(c.origin)
                return d
            return EV(e, fi)
        if isinstance(e, ast.Call):
            f = e.func
            # super().to_dict()
            if (
                isinstance(f, ast.Attribute)
                and isinstance(f.value, ast.Call)
                and isinstance(f.value.func, ast.Name)
                and f.value.func.id == "super"
                and f.attr == self.method
            ):
                nxt = self.prog.lookup_method(self.concrete, self.method, after=fi.cls)
                if nxt is None:
                    raise AnalysisError(f"{fi.qualname}: super().{self.method}() has no internal target")
                return DictInterp(self.prog, self.concrete, self.method).run(nxt)
            # Base.to_dict(self): explicit call of a named class's method on this object
            if isinstance(f, ast.Attribute) and f.attr in (self.method, "to_dict") and len(e.args) == 1 and isinstance(e.args[0], ast.Name) and e.args[0].id == "self":
                target_cls = self.prog.resolve_class(fi.module, f.value)
                if hasattr(target_cls, "methods"):
                    nxt = self.prog.lookup_method(target_cls, f.attr)
                    if nxt is not None:
                        return DictInterp(self.prog, self.concrete, f.attr).run(nxt)
            if isinstance(f, ast.Attribute):
                recv = self._expr(fi, f.value, env)
                if isinstance(recv, DV):
                    m = f.attr
                    if m == "setdefault" and len(e.args) == 2:
                        k = self._key(e.args[0])
                        if k is None:
                            raise AnalysisError(f"{fi.qualname}: setdefault with non-literal key")
                        if k not in recv.items:
                            recv.items[k] = self._expr(fi, e.args[1], env)
                            recv.origin[k] = fi
                        return recv.items[k]
                    if m == "update" and not e.args and e.keywords and all(k.arg for k in e.keywords):
                        for k in e.keywords:
                            recv.items[k.arg] = self._expr(fi, k.value, env)
                            recv.origin[k.arg] = fi
                            if cond:
                                recv.conditional.add(k.arg)
                        return None
                    if m == "update" and len(e.args) == 1:
                        u = self._expr(fi, e.args[0], env)
                        if isinstance(u, DV):
                            for k, v in u.items.items():
                                recv.items[k] = v
                                recv.origin[k] = fi
                                if cond:
                                    recv.conditional.add(k)
                            return None
                        recv.opaque_spreads.append(norm(e.args[0]))
                        return None
                    if m == "pop" and e.args:
                        k = self._key(e.args[0])
                        if k is None:
                            raise AnalysisError(f"{fi.qualname}: pop with non-literal key")
                        return recv.items.pop(k, None)
                    if m == "get" and e.args:
                        k = self._key(e.args[0])
                        if k is not None and k in recv.items:
                            return recv.items[k]
                        return EV(e, fi)
                    if m == "copy":
                        return recv.copy()
                    raise AnalysisError(f"{fi.qualname}: unsupported dict method `{m}` on a tracked dictionary")
            if isinstance(f, ast.Name) and f.id == "dict" and not e.args:
                d = DV()
                for kw in e.keywords:
                    if kw.arg is None:
                        raise AnalysisError(f"{fi.qualname}: dict(**x) not supported")
                    d.items[kw.arg] = self._expr(fi, kw.value, env)
                    d.origin[kw.arg] = fi
                return d
            return EV(e, fi)
        return EV(e, fi)


def emitted_schema(prog: Program, ci: ClassInfo, method: str = "to_dict", entry: FuncInfo | None = None) -> DV | None:
    fi = entry or prog.lookup_method(ci, method)
    if fi is None:
        return None
    return DictInterp(prog, ci, method).run(fi)


# ============================================================ constructor chain
@dataclass
class Param:
    name: str
    owner: FuncInfo
    has_default: bool
    default: object
    annotation: ast.expr | None


@dataclass
class CtorInfo:
    params: dict[str, Param] = field(default_factory=dict)
    accepts_any: bool = False
    chain: list[FuncInfo] = field(default_factory=list)
    dataclass_fields: bool = False


def _is_dataclass(ci: ClassInfo) -> bool:
    for d in ci.decorators:
        core = d.func if isinstance(d, ast.Call) else d
        if (dotted(core) or "").split(".")[-1] == "dataclass":
            return True
    return False


def ctor_info(prog: Program, ci: ClassInfo) -> CtorInfo:
    """Parameters accepted by ``ci(...)``, following ``**kw`` forwarded to super().__init__."""
    info = CtorInfo()
    if _is_dataclass(ci):
        info.dataclass_fields = True
        for name, ann in ci.class_annotations.items():
            has_def = name in ci.class_attrs
            info.params[name] = Param(name, None, has_def, ci.class_attrs.get(name), ann)
        return info
    after = None
    guard = 0
    blocked: set[str] = set()  # parent parameters already bound by the child's super().__init__ call
    while guard < 10:
        guard += 1
        fi = prog.lookup_method(ci, "__init__", after=after)
        if fi is None:
            break
        info.chain.append(fi)
        a = fi.node.args
        pos = a.posonlyargs + a.args
        for x in pos[1:] + a.kwonlyargs:
            if x.arg not in info.params and x.arg not in blocked:
                d = param_default(fi.node, x.arg)
                info.params[x.arg] = Param(x.arg, fi, d is not NO_DEFAULT, d, x.annotation)
        if a.kwarg is None:
            break
        # is **kw forwarded to super().__init__?
        forwarded = False
        for call in calls_in(fi.node):
            f = call.func
            if (
                isinstance(f, ast.Attribute)
                and f.attr == "__init__"
                and isinstance(f.value, ast.Call)
                and isinstance(f.value.func, ast.Name)
                and f.value.func.id == "super"
            ):
                if any(kw.arg is None and isinstance(kw.value, ast.Name) and kw.value.id == a.kwarg.arg for kw in call.keywords):
                    forwarded = True
                    parent = prog.lookup_method(ci, "__init__", after=fi.cls)
                    if parent is not None:
                        ppos = [x.arg for x in parent.node.args.posonlyargs + parent.node.args.args][1:]
                        blocked |= set(ppos[: len(call.args)])
                        blocked |= {kw.arg for kw in call.keywords if kw.arg is not None}
        if not forwarded:
            info.accepts_any = True
            break
        after = fi.cls
    return info


# ==================================================================== registry
@dataclass
class Registration:
    name: str
    cls_expr: ast.expr
    module: object
    lineno: int
    resolved: object  # ClassInfo | str


def registrations(prog: Program) -> list[Registration]:
    """All (name -> class) registrations performed at module level in the package:
    ``*_registry`` dict literals iterated into register_class, direct register_class(...)
    calls, and @register(...) decorators."""
    out: list[Registration] = []
    for mod in prog.modules.values():
        # direct calls at module level
        reg_dicts: dict[str, ast.Dict] = {}
        for st in mod.tree.body:
            val = None
            if isinstance(st, ast.Assign) and len(st.targets) == 1 and isinstance(st.targets[0], ast.Name):
                tgt, val = st.targets[0].id, st.value
            elif isinstance(st, ast.AnnAssign) and isinstance(st.target, ast.Name):
                tgt, val = st.target.id, st.value
            if val is not None and isinstance(val, ast.Dict):
                reg_dicts[tgt] = val
        for st in mod.tree.body:
            if isinstance(st, ast.Expr) and isinstance(st.value, ast.Call):
                c = st.value
                d = dotted(c.func) or ""
                if prog.resolve_dotted(mod, d).endswith("registry.register_class") and c.args:
                    cls_e = c.args[0]
                    name = None
                    if len(c.args) >= 2 and isinstance(c.args[1], ast.Constant):
                        name = c.args[1].value
                    for kw in c.keywords:
                        if kw.arg == "class_name" and isinstance(kw.value, ast.Constant):
                            name = kw.value.value
                    res = prog.resolve_class(mod, cls_e)
                    if name is None and isinstance(res, ClassInfo):
                        name = res.name
                    if name is not None:
                        out.append(Registration(name, cls_e, mod, st.lineno, res))
            elif isinstance(st, ast.For):
                # for name, cls in X_registry.items(): register_class(cls, name)
                it = st.iter
                if (
                    isinstance(it, ast.Call)
                    and isinstance(it.func, ast.Attribute)
                    and it.func.attr == "items"
                    and isinstance(it.func.value, ast.Name)
                    and it.func.value.id in reg_dicts
                    and isinstance(st.target, ast.Tuple)
                    and len(st.target.elts) == 2
                ):
                    kname, vname = (norm(x) for x in st.target.elts)
                    ok = False
                    for c in calls_in(st):
                        d = dotted(c.func) or ""
                        if prog.resolve_dotted(mod, d).endswith("registry.register_class") and len(c.args) >= 1:
                            a0 = norm(c.args[0])
                            a1 = norm(c.args[1]) if len(c.args) > 1 else None
                            for kw in c.keywords:
                                if kw.arg == "class_name":
                                    a1 = norm(kw.value)
                            if a0 == vname and a1 == kname:
                                ok = True
                    if ok:
                        dct = reg_dicts[it.func.value.id]
                        for k, v in zip(dct.keys, dct.values):
                            if isinstance(k, ast.Constant) and isinstance(k.value, str):
                                out.append(Registration(k.value, v, mod, k.lineno, prog.resolve_class(mod, v)))
        for ci in mod.classes.values():
            for dec in ci.decorators:
                if isinstance(dec, ast.Call) and prog.resolve_dotted(mod, dotted(dec.func) or "").endswith("registry.register"):
                    name = ci.name
                    if dec.args and isinstance(dec.args[0], ast.Constant):
                        name = dec.args[0].value
                    out.append(Registration(name, ast.Name(id=ci.name), mod, ci.node.lineno, ci))
    return out


# ======================================================= from_dict reading sites
@dataclass
class LookupSite:
    func: FuncInfo
    key_text: str  # text of the name expression, e.g. operation_data['name']
    slot: str | None  # kwargs key the data came from ("operation", "moves", ...)
    base_expr: ast.expr
    base: object  # ClassInfo | str
    call: ast.Call


def _slot_of_expr(v: ast.expr) -> str | None:
    """the dictionary slot an expression reads: d["slot"], d.get("slot"[, default]), also through .items()/.values()"""
    if isinstance(v, ast.Subscript) and isinstance(v.slice, ast.Constant) and isinstance(v.slice.value, str):
        return v.slice.value
    if isinstance(v, ast.Call) and isinstance(v.func, ast.Attribute):
        if v.func.attr in ("get", "pop") and v.args and isinstance(v.args[0], ast.Constant) and isinstance(v.args[0].value, str):
            return v.args[0].value
        if v.func.attr in ("items", "values") and not v.args:
            return _slot_of_expr(v.func.value)
    return None


def _lookup_wrappers(prog: Program) -> dict[str, tuple[int, int]]:
    """module-level functions f(…, data, …, base, …) that call get_typed_class(data["name"], base): {qualified name: (index of data, index of base)}"""
    cache = prog.__dict__.setdefault("_lookup_wrappers", None)
    if cache is not None:
        return cache
    out: dict[str, tuple[int, int]] = {}
    for mod in prog.modules.values():
        for fn in mod.functions.values():
            params = [a.arg for a in fn.node.args.args]
            for c in calls_in(fn.node):
                if not prog.resolve_dotted(mod, dotted(c.func) or "").endswith("registry.get_typed_class") or len(c.args) < 2:
                    continue
                a0, a1 = c.args[0], c.args[1]
                if isinstance(a0, ast.Subscript) and isinstance(a0.value, ast.Name) and a0.value.id in params and isinstance(a0.slice, ast.Constant) and a0.slice.value == "name" \
                        and isinstance(a1, ast.Name) and a1.id in params:
                    out[f"{mod.name}.{fn.name}"] = (params.index(a0.value.id), params.index(a1.id))
    prog.__dict__["_lookup_wrappers"] = out
    return out


def lookup_sites(prog: Program, fi: FuncInfo) -> list[LookupSite]:
    from .normalize import flat

    fi = flat(prog, fi, fi.cls)  # private helpers inlined, loops over literal (key, protocol) tables unrolled
    out = []
    # map local data variables to the slot they were read from: x = kwargs["operation"] ; for x in kwargs["moves"]
    slot_of: dict[str, str] = {}
    for n in ast.walk(fi.node):
        if isinstance(n, ast.Assign) and len(n.targets) == 1 and isinstance(n.targets[0], ast.Name):
            sl = _slot_of_expr(n.value)
            if sl is not None:
                slot_of[n.targets[0].id] = sl
        elif isinstance(n, (ast.For, ast.comprehension)):
            sl = _slot_of_expr(n.iter)
            if sl is None:
                continue
            if isinstance(n.target, ast.Name):
                slot_of[n.target.id] = sl
            elif isinstance(n.target, ast.Tuple):
                for el in n.target.elts:
                    if isinstance(el, ast.Name):
                        slot_of[el.id] = sl
    wrappers = _lookup_wrappers(prog)
    for c in calls_in(fi.node):
        d = dotted(c.func) or ""
        full = prog.resolve_dotted(fi.module, d)
        if full in wrappers and fi.qualname != full:
            # a helper that looks the class up by data["name"] against a base it is handed
            i_data, i_base = wrappers[full]
            if len(c.args) <= max(i_data, i_base):
                continue
            data_e, base_e = c.args[i_data], c.args[i_base]
            name_e = ast.Subscript(value=data_e, slice=ast.Constant(value="name"), ctx=ast.Load())
            ast.copy_location(name_e, c)
        elif full.endswith("registry.get_typed_class") or (d == "get_typed_class" and "get_typed_class" not in fi.module.bindings and d not in fi.module.functions):
            # (second form: the call sits in code inlined from a helper of another module, where the name is bound)
            if len(c.args) < 2:
                continue
            name_e, base_e = c.args[0], c.args[1]
        else:
            continue
        slot = None
        if isinstance(name_e, ast.Subscript) and isinstance(name_e.value, ast.Name):
            slot = slot_of.get(name_e.value.id)
        elif isinstance(name_e, ast.Subscript):
            slot = _slot_of_expr(name_e.value)
        out.append(LookupSite(fi, norm(name_e), slot, base_e, prog.resolve_class(fi.module, base_e), c))
    return out


def protocol_members(prog: Program, proto: ClassInfo) -> set[str]:
    """Method names a runtime-checkable Protocol demands (its own and inherited protocol members)."""
    out = set()
    for c in prog.mro_classes(proto):
        out |= set(c.methods)
    return out


def class_members(prog: Program, ci: ClassInfo) -> set[str]:
    out = set()
    for c in prog.mro_classes(ci):
        out |= set(c.methods) | set(c.class_attrs)
    return out
