"""Frozen facts about the ASE API that the rules rely on, each *validated on every run*
against the installed ASE source (parsed with ast, never imported).  If ASE changes under
a table entry the run ends as analysis-broken (exit 2), not as a pass."""

from __future__ import annotations

import ast
import functools
import os

from . import ASE_ROOT
from .loader import AnalysisError, norm


@functools.lru_cache(maxsize=None)
def _tree(rel: str) -> ast.Module:
    path = os.path.join(ASE_ROOT, rel)
    try:
        with open(path, encoding="utf-8") as fh:
            return ast.parse(fh.read(), filename=path)
    except (OSError, SyntaxError) as exc:
        raise AnalysisError(f"ASE source {path} unavailable: {exc}") from exc


def _func(rel: str, name: str, cls: str | None = None, setter: bool = False) -> ast.FunctionDef:
    tree = _tree(rel)
    body = tree.body
    if cls is not None:
        for st in body:
            if isinstance(st, ast.ClassDef) and st.name == cls:
                body = st.body
                break
        else:
            raise AnalysisError(f"ASE: class {cls} not found in {rel}")
    hits = []
    for st in body:
        if isinstance(st, ast.FunctionDef) and st.name == name:
            decs = [norm(d) for d in st.decorator_list]
            if any("overload" in d for d in decs):
                continue
            is_setter = any(d.endswith(".setter") for d in decs)
            if is_setter == setter:
                hits.append(st)
    if not hits:
        raise AnalysisError(f"ASE: function {cls + '.' if cls else ''}{name} not found in {rel}")
    return hits[-1]


def _params(fn: ast.FunctionDef) -> list[str]:
    return [a.arg for a in fn.args.posonlyargs + fn.args.args]


def _default(fn: ast.FunctionDef, name: str):
    pos = fn.args.posonlyargs + fn.args.args
    nd = len(fn.args.defaults)
    for i, a in enumerate(pos):
        if a.arg == name:
            j = i - (len(pos) - nd)
            return fn.args.defaults[j] if j >= 0 else None
    return None


def _require(cond: bool, what: str) -> None:
    if not cond:
        raise AnalysisError(f"ASE table out of date: {what}")


@functools.lru_cache(maxsize=None)
def validate_json_todict() -> str:
    """ase.io.jsonio.default(obj) serialises objects through ``obj.todict()``."""
    fn = _func("io/jsonio.py", "default")
    src = norm(fn)
    _require("hasattr(obj, 'todict')" in src and "obj.todict()" in src, "jsonio.default no longer calls obj.todict()")
    wj = _func("io/jsonio.py", "write_json")
    src2 = norm(wj)
    _require("write(" in src2 and src2.count(".write(") == 1, "jsonio.write_json no longer performs exactly one write")
    return "ase.io.jsonio.default calls obj.todict(); write_json performs one fd.write(encode(obj))"


@functools.lru_cache(maxsize=None)
def validate_atoms_setters() -> dict[str, str]:
    """Effects and defaults of the Atoms mutators used by quansino."""
    out = {}
    f = _func("atoms.py", "positions", "Atoms", setter=True)
    _require("self.arrays['positions'][:] = pos" in norm(f), "Atoms.positions setter is no longer an in-place copy")
    out["positions="] = "in-place copy into arrays['positions'] (the right-hand side is not aliased)"
    f = _func("atoms.py", "set_positions", "Atoms")
    _require(_params(f)[:3] == ["self", "newpositions", "apply_constraint"] and norm(_default(f, "apply_constraint")) == "True",
             "Atoms.set_positions(newpositions, apply_constraint=True) signature changed")
    _require("constraint.adjust_positions(self, newpositions)" in norm(f), "set_positions no longer applies adjust_positions")
    out["set_positions"] = "applies every constraint's adjust_positions when apply_constraint (default True)"
    f = _func("atoms.py", "set_momenta", "Atoms")
    _require(_params(f)[:3] == ["self", "momenta", "apply_constraint"] and norm(_default(f, "apply_constraint")) == "True",
             "Atoms.set_momenta(momenta, apply_constraint=True) signature changed")
    _require("constraint.adjust_momenta(self, momenta)" in norm(f), "set_momenta no longer applies adjust_momenta")
    out["set_momenta"] = "applies adjust_momenta when apply_constraint (default True)"
    f = _func("atoms.py", "set_cell", "Atoms")
    _require(_params(f)[:4] == ["self", "cell", "scale_atoms", "apply_constraint"], "Atoms.set_cell signature changed")
    _require(norm(_default(f, "scale_atoms")) == "False" and norm(_default(f, "apply_constraint")) == "True", "set_cell defaults changed")
    src = norm(f)
    _require("self.positions[:] = np.dot(self.positions, M)" in src and "self.cell[:] = cell" in src, "set_cell no longer writes cell (and positions when scale_atoms)")
    out["set_cell"] = "writes cell; writes positions iff scale_atoms"
    f = _func("atoms.py", "get_positions", "Atoms")
    _require("self.arrays['positions'].copy()" in norm(f), "get_positions no longer returns a copy")
    f = _func("atoms.py", "get_momenta", "Atoms")
    _require("self.arrays['momenta'].copy()" in norm(f), "get_momenta no longer returns a copy")
    f = _func("atoms.py", "get_cell", "Atoms")
    _require("self.cell.copy()" in norm(f), "get_cell no longer returns a copy")
    out["getters"] = "get_positions/get_momenta/get_cell return copies"
    f = _func("atoms.py", "__delitem__", "Atoms")
    src = norm(f)
    _require("self.constraints = constraints" in src and "c.delete_atoms(i, n)" in src, "__delitem__ no longer rewrites constraints")
    out["__delitem__"] = "re-indexes/drops FixAtoms constraints (writes atoms.constraints), shrinks every array"
    f = _func("atoms.py", "extend", "Atoms")
    src = norm(f)
    _require("other.arrays" in src and "other.arrays[" not in src.replace("other.arrays.get", "") and "other.set_" not in src,
             "Atoms.extend may now write to `other`")
    out["extend"] = "grows every array of self; reads but never writes `other`"
    return out


@functools.lru_cache(maxsize=None)
def unconstrained_position_writers() -> frozenset[str]:
    """Public Atoms methods that write the positions array directly (no ``adjust_positions``): computed from the
    installed ASE source, not listed by hand.  A method counts when it assigns / augments ``self.positions`` or
    ``self.arrays['positions']`` (whole or a part) and never calls ``self.set_positions``."""
    tree = _tree("atoms.py")
    cls = next((st for st in tree.body if isinstance(st, ast.ClassDef) and st.name == "Atoms"), None)
    _require(cls is not None, "class Atoms not found")
    out = set()
    for fn in cls.body:
        if not isinstance(fn, ast.FunctionDef) or fn.name.startswith("_") or fn.name == "set_positions":
            continue
        if any(norm(d).endswith(".setter") or norm(d) == "property" for d in fn.decorator_list):
            continue
        writes = False
        for n in ast.walk(fn):
            tg = n.targets if isinstance(n, ast.Assign) else ([n.target] if isinstance(n, ast.AugAssign) else [])
            for t in tg:
                base = t.value if isinstance(t, ast.Subscript) and norm(t.value) in ("self.positions", "self.arrays['positions']") else t
                if norm(base) in ("self.positions", "self.arrays['positions']"):
                    writes = True
        calls_sp = any(isinstance(n, ast.Call) and norm(n.func) == "self.set_positions" for n in ast.walk(fn))
        if writes and not calls_sp:
            out.add(fn.name)
    _require({"translate", "rotate"} <= out, "Atoms.translate / rotate no longer write the positions array directly")
    return frozenset(out)


@functools.lru_cache(maxsize=None)
def validate_euler_rotate() -> str:
    f = _func("atoms.py", "euler_rotate", "Atoms")
    src = norm(f)
    _require("degrees=True" in src and _params(f)[1:4] == ["phi", "theta", "psi"], "Atoms.euler_rotate no longer takes degrees (phi, theta, psi)")
    _require("'COM'" in (ast.get_docstring(f) or ""), "euler_rotate no longer documents center='COM'")
    return "Atoms.euler_rotate(phi, theta, psi, center) takes angles in degrees (R.from_euler(..., degrees=True))"


@functools.lru_cache(maxsize=None)
def validate_write_xyz() -> str:
    f = _func("io/extxyz.py", "write_xyz")
    src = norm(f)
    _require(".seek(" not in src and ".truncate(" not in src, "write_xyz now seeks/truncates")
    _require("fileobj.write(" in src, "write_xyz no longer writes to fileobj")
    _require(_params(f)[:2] == ["fileobj", "images"], "write_xyz(fileobj, images, ...) signature changed")
    return "ase.io.extxyz.write_xyz only appends (several fileobj.write calls per frame, no seek/truncate)"


@functools.lru_cache(maxsize=None)
def validate_calculator_cache() -> str:
    """Calculator.get_property re-computes when check_state reports a change and
    calculate() stores a *copy* of atoms; results are replaced via reset()/assignment."""
    f = _func("calculators/calculator.py", "get_property", "BaseCalculator")
    src = norm(f)
    _require("system_changes = self.check_state(atoms)" in src and "self.results = {}" in src and "self.atoms = None" in src,
             "BaseCalculator.get_property no longer check_state() + replace results")
    _require("self.results.clear()" not in src, "get_property now clears the results dict in place (aliased snapshots would be emptied)")
    g = _func("calculators/calculator.py", "compare_atoms")
    _require("all_changes" in norm(g), "compare_atoms no longer driven by all_changes")
    changes = None
    for st in _tree("calculators/calculator.py").body:
        if isinstance(st, ast.Assign) and any(isinstance(t, ast.Name) and t.id == "all_changes" for t in st.targets):
            changes = [e.value for e in st.value.elts if isinstance(e, ast.Constant)]
    _require(changes is not None and {"positions", "numbers", "cell"} <= set(changes) and "momenta" not in changes,
             "calculator.all_changes no longer {positions, numbers, cell, ...} without momenta")
    return ("BaseCalculator.get_property compares calc.atoms with the live atoms on " + ", ".join(changes) + " (not momenta) and on change "
            "*replaces* self.results by a new dict (an aliased old dict is not cleared) and recomputes")


def validate_calculator_reinit() -> str:
    """Shipped ASE calculators with per-atom internal state rebuild it only when `numbers` is among the reported
    system changes (EMT.initialize, LennardJones' neighbour list)."""
    emt = norm(_func("calculators/emt.py", "calculate", "EMT"))
    _require("if 'numbers' in system_changes" in emt and "self.initialize(self.atoms)" in emt and "self.nl.update" in emt,
             "EMT.calculate no longer re-initialises its neighbour list exactly on a `numbers` change")
    lj = norm(_func("calculators/lj.py", "calculate", "LennardJones"))
    _require("'numbers' in system_changes" in lj and "self.nl.update" in lj, "LennardJones.calculate no longer rebuilds its neighbour list on a `numbers` change")
    cmp_ = norm(_func("calculators/calculator.py", "compare_atoms"))
    _require("len(atoms1) != len(atoms2)" in cmp_ or "len(atoms1.numbers) != len(atoms2.numbers)" in cmp_ or "all_changes" in cmp_, "compare_atoms no longer reports all changes for atom sets of different length")
    return ("ASE calculators keeping per-atom state (EMT, LennardJones) rebuild it only when `numbers` is among the changes get_property derives from "
            "calc.atoms vs the live atoms; otherwise they update it in place (nl.update) assuming the same atom count")


COMPARE_COMPONENTS = ("positions", "numbers", "cell")
