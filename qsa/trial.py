"""Scenario harness on top of qsa.absim: build an abstract {atoms, calculator, context,
driver, move table} world for a (driver class, move table) pair, interpret the driver's own
``validate_simulation`` and ``step`` over it, and hand each completed trial (one iteration of
the move loop, on one abstract path) to rule callbacks."""

from __future__ import annotations

import ast
import copy
from dataclasses import dataclass, field

from .absim import (
    Cand,
    LabelTok,
    EMPTY_ATOMS,
    NONE,
    Bound,
    Choices,
    ClassVal,
    FreshAtoms,
    Idx,
    Machine,
    NoneV,
    Opaque,
    Ref,
    SimRaise,
    SimUnsupported,
    UserCallable,
    V,
    _NO,
    _Break,
    _Continue,
    _Prune,
    all_runs,
    length,
    simp,
)
from .loader import AnalysisError, ClassInfo, FuncInfo, Program, norm


@dataclass
class MoveSpec:
    cls: str
    children: list | None = None  # for composites: list of MoveSpec or ints (alias of an earlier child)
    name: str = ""
    criteria: str | None = None  # explicit criteria class (else the driver's default)

    def label(self) -> str:
        if self.children is None:
            return self.cls
        return f"{self.cls}[{', '.join(c.label() if isinstance(c, MoveSpec) else f'same#{c}' for c in self.children)}]"


@dataclass
class TrialRecord:
    driver: str
    table: str
    move_name: str
    move_obj: str
    move_cls: str
    outcome: str  # accepted | rejected | failed | raised
    before: dict
    after: dict
    ctx_before: dict
    ctx_after: dict
    events: list
    evals: int
    path: list
    machine: Machine
    index: int
    criteria_cls: str = ""
    calls: list = field(default_factory=list)
    raised: str = ""


class Scenario:
    def __init__(self, prog: Program, driver: ClassInfo, table: list[MoveSpec], iterations: int = 1):
        self.prog = prog
        self.driver = driver
        self.table = table
        self.iterations = iterations
        self.ctx_cls = prog.classvar_class(driver, "default_context")
        if self.ctx_cls is None:
            raise AnalysisError(f"{driver.name}: default_context does not resolve to a class")

    # ------------------------------------------------------------ world
    def default_criteria(self, move_cls: ClassInfo) -> ClassInfo | None:
        r = self.prog.classvar(self.driver, "default_criteria")
        if r is None:
            return None
        owner, expr = r
        return _lookup_criteria(self.prog, owner, expr, move_cls)

    def build(self, m: Machine):
        prog = self.prog
        m.init_atoms()
        m.new_obj("rng", None)
        m.new_obj("template", None)
        m.hooks["construct"] = self._construct
        m.hooks["external"] = self._external
        m.hooks["hstack"] = self._hstack
        m.hooks["where"] = self._where
        m.hooks["subscript"] = self._subscript
        # context
        m.new_obj("ctx", self.ctx_cls)
        init = prog.lookup_method(self.ctx_cls, "__init__")
        m.call_function(init, [Ref("ctx"), Ref("atoms"), Ref("rng")], {})
        slots = m.heap["ctx"]
        if "exchange_atoms" in slots:
            slots["exchange_atoms"] = Ref("template")
        if "number_of_exchange_particles" in slots:
            slots["number_of_exchange_particles"] = V(("count", (("nex0", 1),)))
        # move table
        moves = {}
        self.move_objs: list[str] = []
        self.label_objs: list[str] = []
        made_top: list[str] = []
        for i, spec in enumerate(self.table):
            if isinstance(spec, int):
                # the same move object stored under a second name
                name = f"m{i}"
                mobj = made_top[spec]
                spec = self.table[spec]
            else:
                name = spec.name or f"m{i}"
                mobj = self._make_move(m, spec, f"move{i}")
            made_top.append(mobj)
            mci = m.cls_of[mobj]
            crit_ci = prog.cls(spec.criteria) if spec.criteria else self.default_criteria(mci)
            if crit_ci is None:
                raise AnalysisError(f"{self.driver.name}: no default criteria for {mci.name}")
            cobj = f"crit{i}"
            m.new_obj(cobj, crit_ci)
            sobj = f"storage{i}"
            m.new_obj(sobj, prog.cls("MoveStorage"), {"move": Ref(mobj), "criteria": Ref(cobj), "interval": 1, "probability": 1.0, "minimum_count": 0})
            moves[name] = Ref(sobj)
        m.new_obj("driver", self.driver, {
            "context": Ref("ctx"), "atoms": Ref("atoms"), "moves": moves, "_rng": Ref("rng"), "move_history": [],
            "acceptance_rate": 0.0, "max_cycles": len(moves), "step_count": 0, "default_logger": NONE,
        })
        self.move_names = list(moves)

    def _make_move(self, m: Machine, spec: MoveSpec, obj: str, made: list | None = None) -> str:
        prog = self.prog
        ci = prog.cls(spec.cls)
        m.new_obj(obj, ci)
        init = prog.lookup_method(ci, "__init__")
        if spec.children is not None:
            kids = []
            made = []
            for j, ch in enumerate(spec.children):
                if isinstance(ch, int):
                    kids.append(Ref(made[ch]))
                else:
                    k = self._make_move(m, ch, f"{obj}_{j}")
                    made.append(k)
                    kids.append(Ref(k))
            m.call_function(init, [Ref(obj), kids], {})
        else:
            params = init.params()[1:]
            args = []
            for p in params:
                if p == "labels":
                    args.append(Opaque("labels"))
                else:
                    break
            m.call_function(init, [Ref(obj)] + args, {})
            if "labels" in m.heap[obj]:
                m.heap[obj]["labels"] = V(("labels", ("init", "A")))
                self.label_objs.append(obj)
        self.move_objs.append(obj)
        return obj

    # ------------------------------------------------------------ hooks
    def _construct(self, m: Machine, ci: ClassInfo, args, kwargs, e, fi):
        if ci.name in ("CompositeMove", "CompositeOperation") or self.prog.lookup_method(ci, "__init__") is None:
            name = m.fresh(f"obj:{ci.name}#")
            m.new_obj(name, ci)
            init = self.prog.lookup_method(ci, "__init__")
            if init is not None:
                m.call_function(init, [Ref(name)] + args, kwargs)
            return Ref(name)
        name = m.fresh(f"obj:{ci.name}#")
        m.new_obj(name, ci)
        init = self.prog.lookup_method(ci, "__init__")
        m.call_function(init, [Ref(name)] + args, kwargs)
        return Ref(name)

    def _external(self, m: Machine, full, args, kwargs, e, env, fi):
        if full in ("ase.atoms.Atoms", "ase.Atoms") and not args and not kwargs:
            return EMPTY_ATOMS
        if full == "numpy.full" and len(args) >= 2:
            n = m.as_count(args[0])
            if n is not None:
                return V(("full", n, args[1]))
        if full in ("numpy.asarray", "numpy.array") and args and isinstance(args[0], (V, Idx)):
            return args[0]
        if full == "numpy.delete" and len(args) == 2 and isinstance(args[0], V) and args[0].term[0] == "labels":
            if isinstance(args[1], Idx):
                return V(("labels", ("del", args[0].term[1], args[1].parts)))
            return V(("labels", ("new", m.fresh("lab"))))
        if full == "numpy.setdiff1d":
            taken = args[1] if len(args) > 1 else None
            if isinstance(taken, list):
                return Cand("setdiff1d", True, tuple(t.tid for t in taken if isinstance(t, LabelTok)))
            return Opaque("setdiff1d", True)
        if full == "numpy.unique":
            if args and isinstance(args[0], list):
                toks = list(args[0])
                # labels collected from successive draws: distinct for sure only where each later draw came from a
                # candidate set that excludes the earlier ones (np.setdiff1d(all, taken)); otherwise two of them
                # may be the same label value — both outcomes are explored
                unsure = [j for j in range(len(toks)) for i in range(j) if isinstance(toks[i], LabelTok) and isinstance(toks[j], LabelTok) and toks[i].tid not in toks[j].excluded]
                if unsure and m.ch.choose(2, f"{fi.name}:labels-coincide@{getattr(e, 'lineno', 0)}") == 1:
                    del toks[unsure[0]]
                return toks
            return Opaque("unique", True)
        return None

    def _hstack(self, m: Machine, parts, e, fi):
        if len(parts) == 2 and isinstance(parts[0], V) and parts[0].term[0] == "labels" and isinstance(parts[1], V) and parts[1].term[0] == "full":
            m.log("labels-extend", "labels extended", e, fi, {"count": parts[1].term[1], "label": parts[1].term[2]})
            return V(("labels", ("extn", parts[0].term[1], parts[1].term[1])))
        return None

    def _where(self, m: Machine, args, e, env, fi):
        # np.where(labels == x): a group of atoms sharing one label (size unknown, may be empty)
        w = m.fresh("w")
        return (Idx(("where:" + w,)),)

    def _subscript(self, m: Machine, base, e, env, fi):
        return None

    # ------------------------------------------------------------ running
    def run_paths(self, on_trial, limit: int = 6000, extra_hooks: dict | None = None):
        prog = self.prog
        step = prog.lookup_method(self.driver, "step")
        validate = prog.lookup_method(self.driver, "validate_simulation")
        if step is None or validate is None:
            raise AnalysisError(f"{self.driver.name}: step/validate_simulation missing")
        stats = {"paths": 0, "trials": 0, "pruned": 0}

        def once(ch: Choices):
            m = Machine(prog, ch)
            self.build(m)
            trials: list[TrialRecord] = []
            state = {"iter": 0}

            def for_hook(mm: Machine, st: ast.For, env, fi):
                if norm(st.iter) != "self.yield_moves()":
                    return False
                for k in range(self.iterations):
                    which = mm.ch.choose(len(self.move_names), f"move@iter{k}") if len(self.move_names) > 1 else 0
                    mname = self.move_names[which]
                    mm.store(st.target, mname, env, fi, st)
                    sobj = mm.heap["driver"]["moves"][mname].obj
                    mobj = mm.heap[sobj]["move"].obj
                    before = copy.deepcopy(mm.heap["atoms"])
                    ctx_before = dict(mm.heap["ctx"])
                    ev0 = len(mm.events)
                    evals0 = mm.evals
                    calls0 = len(mm.trace_calls)
                    raised = ""
                    try:
                        mm.block(st.body, env, fi)
                    except SimRaise as exc:
                        raised = exc.what
                    except (_Continue, _Break):
                        pass
                    calls = mm.trace_calls[calls0:]
                    dsave = any(c.endswith(".save_state") and c.split(".")[0] in _driver_names(prog, self.driver) for c in calls)
                    drev = any(c.endswith(".revert_state") and c.split(".")[0] in _driver_names(prog, self.driver) for c in calls)
                    outcome = "raised" if raised else ("accepted" if dsave else ("rejected" if drev else "failed"))
                    rec = TrialRecord(
                        self.driver.name, "+".join(s.label() if not isinstance(s, int) else f"same#{s}" for s in self.table), mname, mobj, mm.cls_of[mobj].name, outcome,
                        before, copy.deepcopy(mm.heap["atoms"]), ctx_before, dict(mm.heap["ctx"]), mm.events[ev0:], mm.evals - evals0,
                        list(mm.ch.labels), mm, k, mm.cls_of[mm.heap[sobj]["criteria"].obj].name, calls, raised,
                    )
                    rec.both = dsave and drev
                    trials.append(rec)
                    on_trial(rec)
                    if raised:
                        raise SimRaise(raised)
                return True

            m.hooks["for"] = for_hook
            for hk, hv in (extra_hooks or {}).items():
                m.hooks[hk] = hv
            try:
                m.call_function(validate, [Ref("driver")], {})
                m.call_function(step, [Ref("driver")], {})
            except _Prune:
                stats["pruned"] += 1
            except SimRaise:
                pass
            stats["trials"] += len(trials)
            return trials

        for ch, trials in all_runs(once, limit=limit):
            stats["paths"] += 1
        return stats


def _driver_names(prog: Program, driver: ClassInfo) -> set[str]:
    return {c.name for c in prog.mro_classes(driver)}


def _lookup_criteria(prog: Program, owner: ClassInfo, expr: ast.expr, move_cls: ClassInfo) -> ClassInfo | None:
    """Resolve ``default_criteria`` dict literal (with ``**Base.default_criteria`` spreads) the way
    add_move does: first key (in insertion order) that the move is an instance of."""
    entries: list[tuple[ClassInfo, ClassInfo]] = []

    def collect(own: ClassInfo, ex: ast.expr):
        if not isinstance(ex, ast.Dict):
            return
        for k, v in zip(ex.keys, ex.values):
            if k is None:
                d = norm(v)
                if d.endswith(".default_criteria"):
                    base = prog.resolve_class(own.module, v.value)
                    if isinstance(base, ClassInfo):
                        r = prog.classvar(base, "default_criteria")
                        if r:
                            collect(r[0], r[1])
                continue
            kc, vc = prog.resolve_class(own.module, k), prog.resolve_class(own.module, v)
            if isinstance(kc, ClassInfo) and isinstance(vc, ClassInfo):
                for i, (ek, _) in enumerate(entries):
                    if ek == kc:
                        entries[i] = (kc, vc)
                        break
                else:
                    entries.append((kc, vc))

    collect(owner, expr)
    for kc, vc in entries:
        if kc in prog.mro(move_cls):
            return vc
    return None
