"""R-TYPEKIND: a checker-owned interpreter for the small Python fragment in which quansino's
``__add__`` / ``__mul__`` dispatch is written, run over a finite world of *model objects*:
elementary items (one per leaf, carrying only their class and the ``composite_move_type``
their ``__init__`` chain assigns), composites (class + element list) and class values
(plain classes and subscripted generic aliases).  The meta-level distinction between a
class object and an instance is kept: ``type(<class>)`` is the metaclass, ``type(<generic
alias>)`` is typing's alias type.  Nothing from quansino is imported or executed."""

from __future__ import annotations

import ast
import copy
from dataclasses import dataclass, field

from .loader import AnalysisError, ClassInfo, FuncInfo, Program, dotted, norm


class PyRaise(Exception):
    def __init__(self, exc_type: str, msg: str = ""):
        self.exc_type = exc_type
        self.msg = msg


class InterpUnsupported(AnalysisError):
    pass


@dataclass(frozen=True)
class ClsV:
    ci: object  # ClassInfo | str (builtin / external name)

    @property
    def name(self) -> str:
        return self.ci.name if isinstance(self.ci, ClassInfo) else str(self.ci)


@dataclass(frozen=True)
class AliasV:
    origin: ClsV
    args: str  # normalised text of the subscript + defining module (identity of the cached alias)


META = ClsV("type")
ALIAS_T = ClsV("typing._GenericAlias")


@dataclass
class Obj:
    cls: ClassInfo
    attrs: dict = field(default_factory=dict)
    uid: int = 0

    def __repr__(self):
        return f"<{self.cls.name}#{self.uid}>"


class NotImpl:
    pass


NOT_IMPLEMENTED = NotImpl()


class Interp:
    def __init__(self, prog: Program):
        self.prog = prog
        self.steps = 0

    # ------------------------------------------------------------ objects
    def construct(self, cv, args: list, kwargs: dict | None = None) -> Obj:
        """Instantiate a class value by abstractly running its __init__ chain."""
        if isinstance(cv, AliasV):
            cv = cv.origin
        if not isinstance(cv, ClsV) or not isinstance(cv.ci, ClassInfo):
            raise InterpUnsupported(f"cannot instantiate {cv}")
        o = Obj(cv.ci)
        init = self.prog.lookup_method(cv.ci, "__init__")
        if init is not None:
            self.call_function(init, [o] + args, kwargs or {}, self_cls=cv.ci)
        return o

    # ---------------------------------------------------------- functions
    def call_function(self, fi: FuncInfo, args: list, kwargs: dict, self_cls: ClassInfo | None = None):
        a = fi.node.args
        names = [x.arg for x in a.posonlyargs + a.args]
        env = {}
        for n, v in zip(names, args):
            env[n] = v
        extra = args[len(names):]
        if extra and not a.vararg:
            raise PyRaise("TypeError", "too many positional arguments")
        # defaults
        nd = len(a.defaults)
        for i, n in enumerate(names):
            if n not in env:
                if n in kwargs:
                    env[n] = kwargs[n]
                else:
                    j = i - (len(names) - nd)
                    if j >= 0:
                        env[n] = self.ev(a.defaults[j], {}, fi)
                    else:
                        raise PyRaise("TypeError", f"missing argument {n}")
        for x, d in zip(a.kwonlyargs, a.kw_defaults):
            env[x.arg] = kwargs.get(x.arg, self.ev(d, {}, fi) if d is not None else None)
        if a.kwarg:
            env[a.kwarg.arg] = {k: v for k, v in kwargs.items() if k not in names}
        env["__class_cell__"] = fi.cls
        try:
            self.block(fi.body(), env, fi)
        except _Return as r:
            return r.value
        return None

    def block(self, body, env, fi):
        for st in body:
            self.steps += 1
            if self.steps > 200000:
                raise InterpUnsupported("interpreter step budget exceeded")
            if isinstance(st, ast.Return):
                raise _Return(self.ev(st.value, env, fi) if st.value is not None else None)
            if isinstance(st, ast.Match):
                from .loader import lower_match

                low = getattr(st, "_qsa_lowered", False)
                if low is False:
                    low = lower_match(st)
                    st._qsa_lowered = low  # lowered once per statement, not once per evaluated tree
                if low is None:
                    raise InterpUnsupported(f"{fi.qualname}: `match` with patterns outside the modelled kinds")
                self.block(low, env, fi)
                continue
            if isinstance(st, ast.If):
                if self.truth(self.ev(st.test, env, fi)):
                    self.block(st.body, env, fi)
                else:
                    self.block(st.orelse, env, fi)
            elif isinstance(st, ast.Raise):
                e = st.exc
                name = "Exception"
                if isinstance(e, ast.Call):
                    name = norm(e.func)
                elif e is not None:
                    name = norm(e)
                raise PyRaise(name)
            elif isinstance(st, (ast.Assign, ast.AnnAssign)):
                if st.value is None:
                    continue
                v = self.ev(st.value, env, fi)
                for t in (st.targets if isinstance(st, ast.Assign) else [st.target]):
                    self.store(t, v, env, fi)
            elif isinstance(st, ast.ImportFrom):
                for al in st.names:
                    full = self.prog.canonical(f"{self.prog._abs_module(fi.module, st.level, st.module)}.{al.name}")
                    ci = self.prog.classes.get(full)
                    env[al.asname or al.name] = ClsV(ci) if ci else ClsV(full)
            elif isinstance(st, ast.Expr):
                if isinstance(st.value, ast.Constant):
                    continue
                self.ev(st.value, env, fi)
            elif isinstance(st, ast.Pass):
                continue
            elif isinstance(st, ast.For) and not st.orelse:
                for item in self.iterate(self.ev(st.iter, env, fi)):
                    self.store(st.target, item, env, fi)
                    try:
                        self.block(st.body, env, fi)
                    except _Continue:
                        continue
                    except _Break:
                        break
            elif isinstance(st, ast.Continue):
                raise _Continue()
            elif isinstance(st, ast.Break):
                raise _Break()
            elif isinstance(st, ast.AugAssign) and isinstance(st.target, (ast.Name, ast.Attribute)):
                load = copy.deepcopy(st.target)
                load.ctx = ast.Load()
                cur = self.ev(load, env, fi)
                val = self.ev(st.value, env, fi)
                if isinstance(cur, list) and isinstance(st.op, ast.Add) and isinstance(val, (list, tuple)):
                    cur.extend(val)  # Python's `list += …` extends IN PLACE: every alias of the list sees it
                    new = cur
                elif isinstance(cur, list) and isinstance(st.op, ast.Mult) and isinstance(val, int) and not isinstance(val, bool):
                    cur[:] = cur * val
                    new = cur
                else:
                    new = self.binop(st.op, cur, val, fi)
                self.store(st.target, new, env, fi)
            else:
                raise InterpUnsupported(f"{fi.qualname}: statement `{norm(st)[:60]}` outside the dispatch fragment")

    def store(self, t, v, env, fi):
        if isinstance(t, ast.Name):
            env[t.id] = v
        elif isinstance(t, (ast.Tuple, ast.List)) and isinstance(v, (list, tuple)) and len(v) == len(t.elts):
            for tt, vv in zip(t.elts, v):
                self.store(tt, vv, env, fi)
        elif isinstance(t, ast.Attribute):
            o = self.ev(t.value, env, fi)
            if isinstance(o, Obj):
                o.attrs[t.attr] = v
            else:
                raise InterpUnsupported(f"{fi.qualname}: store on non-object `{norm(t)}`")
        else:
            raise InterpUnsupported(f"{fi.qualname}: store `{norm(t)}`")

    # -------------------------------------------------------- expressions
    def truth(self, v) -> bool:
        if isinstance(v, (bool, int, float, str, list, tuple, dict)) or v is None:
            return bool(v)
        if isinstance(v, Obj):
            ln = self.prog.lookup_method(v.cls, "__len__")
            if ln is not None:
                return bool(self.call_function(ln, [v], {}))
            return True
        return True

    def resolve_name(self, name: str, fi: FuncInfo):
        full = self.prog.resolve_dotted(fi.module, name)
        ci = self.prog.classes.get(full)
        if ci is not None:
            return ClsV(ci)
        if name in ("int", "float", "str", "bool", "list", "tuple", "type"):
            return ClsV(name)
        if name == "NotImplemented":
            return NOT_IMPLEMENTED
        # a module-level function of the package (e.g. a shared argument check): called like any other function
        modname, _, fname = full.rpartition(".")
        mod = self.prog.modules.get(modname)
        if mod is not None and fname in mod.functions:
            return _Unbound(None, mod.functions[fname])
        return _Opaque(full)

    def ev(self, e, env, fi):
        if isinstance(e, ast.Constant):
            return e.value
        if isinstance(e, ast.Name):
            if e.id in env:
                return env[e.id]
            return self.resolve_name(e.id, fi)
        if isinstance(e, ast.JoinedStr):
            return "<str>"
        if isinstance(e, ast.Lambda):
            return _Opaque("lambda")
        if isinstance(e, ast.List):
            out = []
            for x in e.elts:
                if isinstance(x, ast.Starred):
                    out.extend(self.iterate(self.ev(x.value, env, fi)))
                else:
                    out.append(self.ev(x, env, fi))
            return out
        if isinstance(e, ast.Tuple):
            return tuple(self.ev(x, env, fi) for x in e.elts)
        if isinstance(e, ast.Attribute):
            o = self.ev(e.value, env, fi)
            return self.getattr(o, e.attr, fi)
        if isinstance(e, ast.Subscript):
            base = self.ev(e.value, env, fi)
            if isinstance(base, _Opaque):
                return _Opaque(f"{base.what}[...]")
            if isinstance(base, ClsV):
                return AliasV(base, f"{fi.module.name}:{norm(e.slice)}")
            if isinstance(base, AliasV):
                return AliasV(base.origin, f"{base.args}[{norm(e.slice)}]")
            idx = self.ev(e.slice, env, fi)
            if isinstance(base, (list, tuple)) and isinstance(idx, int):
                return base[idx]
            raise InterpUnsupported(f"{fi.qualname}: subscript `{norm(e)}`")
        if isinstance(e, ast.BoolOp):
            if isinstance(e.op, ast.And):
                v = True
                for s in e.values:
                    v = self.ev(s, env, fi)
                    if not self.truth(v):
                        return v
                return v
            v = False
            for s in e.values:
                v = self.ev(s, env, fi)
                if self.truth(v):
                    return v
            return v
        if isinstance(e, ast.UnaryOp):
            v = self.ev(e.operand, env, fi)
            if isinstance(e.op, ast.Not):
                return not self.truth(v)
            if isinstance(e.op, ast.USub) and isinstance(v, (int, float)):
                return -v
            if isinstance(e.op, ast.Invert) and isinstance(v, bool):
                return not v
            if isinstance(e.op, (ast.Invert, ast.USub, ast.UAdd)):
                return _Opaque("unary")  # array arithmetic in a constructor: irrelevant to the dispatch
        if isinstance(e, ast.IfExp):
            return self.ev(e.body if self.truth(self.ev(e.test, env, fi)) else e.orelse, env, fi)
        if isinstance(e, ast.Compare):
            left = self.ev(e.left, env, fi)
            for op, c in zip(e.ops, e.comparators):
                right = self.ev(c, env, fi)
                if (isinstance(left, _Opaque) or isinstance(right, _Opaque)) and not isinstance(op, (ast.Is, ast.IsNot)):
                    return _Opaque("compare")
                if isinstance(op, ast.Is):
                    r = self.identical(left, right)
                elif isinstance(op, ast.IsNot):
                    r = not self.identical(left, right)
                elif isinstance(op, (ast.Eq, ast.NotEq)):
                    r = self.identical(left, right) if not isinstance(left, (int, float, str)) else left == right
                    if isinstance(op, ast.NotEq):
                        r = not r
                else:
                    if not (isinstance(left, (int, float)) and not isinstance(left, bool) or isinstance(left, bool)) or not isinstance(right, (int, float)):
                        raise PyRaise("TypeError", f"ordering {type(left).__name__} with {type(right).__name__}")
                    r = {ast.Lt: left < right, ast.LtE: left <= right, ast.Gt: left > right, ast.GtE: left >= right}[type(op)]
                if not r:
                    return False
                left = right
            return True
        if isinstance(e, ast.BinOp):
            a, b = self.ev(e.left, env, fi), self.ev(e.right, env, fi)
            return self.binop(e.op, a, b, fi)
        if isinstance(e, ast.Call):
            return self.call(e, env, fi)
        if isinstance(e, ast.ListComp):
            return list(self._comp(e.elt, e.generators, dict(env), fi))
        if isinstance(e, ast.GeneratorExp):
            return _Lazy(self._comp(e.elt, e.generators, dict(env), fi))  # consumed lazily: any()/all() short-circuit
        raise InterpUnsupported(f"{fi.qualname}: expression `{norm(e)[:60]}` outside the dispatch fragment")

    def _comp(self, elt, gens, env, fi):
        g = gens[0]
        for item in self.iterate(self.ev(g.iter, env, fi)):
            self.store(g.target, item, env, fi)
            if all(self.truth(self.ev(c, env, fi)) for c in g.ifs):
                if len(gens) == 1:
                    yield self.ev(elt, env, fi)
                else:
                    yield from self._comp(elt, gens[1:], env, fi)

    def iterate(self, v):
        if isinstance(v, (list, tuple)):
            return list(v)
        if isinstance(v, _Lazy):
            return v.gen
        if isinstance(v, Obj):
            it = self.prog.lookup_method(v.cls, "__iter__")
            if it is not None:
                r = self.call_function(it, [v], {})
                return self.iterate(r)
        if isinstance(v, _Iter):
            return list(v.items)
        raise InterpUnsupported(f"cannot iterate {v!r}")

    def identical(self, a, b) -> bool:
        if isinstance(a, Obj) or isinstance(b, Obj):
            return a is b
        if isinstance(a, ClsV) and isinstance(b, ClsV):
            return a == b
        if isinstance(a, AliasV) and isinstance(b, AliasV):
            return a == b  # typing caches parameterised aliases: same parameters, same object
        if a is None or b is None:
            return a is b
        if isinstance(a, (ClsV, AliasV)) or isinstance(b, (ClsV, AliasV)):
            return False
        return a is b or a == b

    def binop(self, op, a, b, fi):
        if isinstance(a, _Opaque) or isinstance(b, _Opaque):
            return _Opaque("binop")
        if isinstance(op, ast.Add) and isinstance(a, list) and isinstance(b, list):
            return a + b
        if isinstance(op, ast.Mult) and isinstance(a, list) and isinstance(b, int):
            return a * b
        if isinstance(op, ast.Mult) and isinstance(b, list) and isinstance(a, int):
            return b * a
        if isinstance(a, (int, float)) and isinstance(b, (int, float)):
            if isinstance(op, ast.Add):
                return a + b
            if isinstance(op, ast.Sub):
                return a - b
            if isinstance(op, ast.Mult):
                return a * b
        if isinstance(a, Obj):
            name = {ast.Add: "__add__", ast.Mult: "__mul__"}.get(type(op))
            if name:
                return self.dunder(a, name, b)
        if isinstance(b, Obj):
            name = {ast.Add: "__radd__", ast.Mult: "__rmul__"}.get(type(op))
            if name:
                return self.dunder(b, name, a)
        raise PyRaise("TypeError", f"unsupported operand types for {type(op).__name__}")

    def dunder(self, o: Obj, name: str, arg):
        m = self.prog.lookup_method(o.cls, name)
        if m is None:
            raise PyRaise("TypeError", f"{o.cls.name} has no {name}")
        r = self.call_function(m, [o, arg], {})
        if r is NOT_IMPLEMENTED:
            raise PyRaise("TypeError", f"{name} returned NotImplemented")
        return r

    def getattr(self, o, attr: str, fi):
        if isinstance(o, Obj):
            if attr in o.attrs:
                return o.attrs[attr]
            if attr == "__class__":
                return ClsV(o.cls)
            r = self.prog.lookup(o.cls, attr)
            if r is not None:
                owner, val = r
                if isinstance(val, FuncInfo):
                    if val.kind == "property":
                        return self.call_function(val, [o], {})
                    return _Bound(o, val)
                return _Opaque(f"classattr:{attr}")
            raise PyRaise("AttributeError", f"{o.cls.name}.{attr}")
        if isinstance(o, ClsV):
            if attr == "__name__":
                return o.name
            if isinstance(o.ci, ClassInfo):
                m = self.prog.lookup_method(o.ci, attr)
                if m is not None:
                    return _Unbound(o.ci, m)
            return _Opaque(f"{o.name}.{attr}")
        if isinstance(o, _Opaque):
            return _Opaque(f"{o.what}.{attr}")
        if isinstance(o, str) and attr == "__name__":
            return "<str>"
        if isinstance(o, list) and attr in ("append", "extend", "copy", "insert", "pop"):
            return _ListMeth(o, attr)
        if isinstance(o, Stub) and attr == "__call__":
            return o  # the bound call of a callable stand-in is the stand-in
        raise InterpUnsupported(f"{fi.qualname}: attribute `{attr}` on {o!r}")

    def call(self, e: ast.Call, env, fi):
        f = e.func
        args = []
        for a in e.args:
            if isinstance(a, ast.Starred):
                args.extend(self.iterate(self.ev(a.value, env, fi)))
            else:
                args.append(self.ev(a, env, fi))
        kwargs = {k.arg: self.ev(k.value, env, fi) for k in e.keywords if k.arg}
        if isinstance(f, ast.Name) and f.id not in env:
            if f.id == "isinstance":
                return self.isinstance(args[0], args[1])
            if f.id == "type" and len(args) == 1:
                return self.typeof(args[0])
            if f.id == "len":
                v = args[0]
                if isinstance(v, (list, tuple, str)):
                    return len(v)
                if isinstance(v, Obj):
                    ln = self.prog.lookup_method(v.cls, "__len__")
                    if ln:
                        return self.call_function(ln, [v], {})
                raise PyRaise("TypeError", "len()")
            if f.id == "id" and len(args) == 1 and not kwargs:
                return id(args[0])  # identity of the model object stands for the identity of the object it models
            if f.id == "cast" and len(args) == 2:
                return args[1]
            if f.id == "iter":
                return _Iter(self.iterate(args[0]))
            if f.id == "warn":
                return None
            if f.id in ("getattr", "hasattr") and len(args) >= 2 and isinstance(args[1], str):
                try:
                    v = self.getattr(args[0], args[1], fi)
                    found = True
                except (PyRaise, InterpUnsupported):
                    v, found = None, False
                if f.id == "hasattr":
                    return found
                if found:
                    return v
                if len(args) == 3:
                    return args[2]
                raise PyRaise("AttributeError", args[1])
            if f.id == "range" and args and all(isinstance(a_, int) and not isinstance(a_, bool) for a_ in args):
                return list(range(*args))
            if f.id == "range":
                raise PyRaise("TypeError", "range() with a non-integer argument")
            if f.id in ("any", "all") and len(args) == 1:
                it = self.iterate(args[0])
                if f.id == "any":
                    for x in it:
                        if self.truth(x):
                            return True
                    return False
                for x in it:
                    if not self.truth(x):
                        return False
                return True
            if f.id in ("list", "tuple") and len(args) <= 1:
                items = list(self.iterate(args[0])) if args else []
                return items if f.id == "list" else tuple(items)
            if f.id == "bool" and len(args) == 1:
                return self.truth(args[0])
            if f.id in ("int", "float") and len(args) == 1:
                v = args[0]
                if isinstance(v, bool) or isinstance(v, (int, float)):
                    return int(v) if f.id == "int" else float(v)
                if isinstance(v, str):
                    try:
                        return int(v) if f.id == "int" else float(v)
                    except ValueError:
                        raise PyRaise("ValueError", f"{f.id}({v!r})") from None
                raise PyRaise("TypeError", f"{f.id}() argument")
            if f.id == "abs" and len(args) == 1 and isinstance(args[0], (int, float)):
                return abs(args[0])
            if f.id == "sum" and len(args) == 1:
                tot = 0
                for x in self.iterate(args[0]):
                    if not isinstance(x, (int, float)):
                        raise InterpUnsupported("sum() over non-numbers")
                    tot += x
                return tot
            if f.id == "enumerate" and len(args) == 1:
                return [(i_, x) for i_, x in enumerate(self.iterate(args[0]))]
            if f.id == "reversed" and len(args) == 1:
                return list(reversed(list(self.iterate(args[0]))))
            if f.id == "super":
                return _Super(env.get("self"), env.get("__class_cell__"))
        fv = self.ev(f, env, fi)
        if isinstance(fv, (ClsV, AliasV)):
            target = fv.origin if isinstance(fv, AliasV) else fv
            if isinstance(target.ci, ClassInfo):
                return self.construct(target, args, kwargs)
            if target.ci == "type" and len(args) == 1:
                return self.typeof(args[0])
            raise InterpUnsupported(f"{fi.qualname}: call of external class {target.name}")
        if isinstance(fv, _Bound):
            return self.call_function(fv.func, [fv.obj] + args, kwargs)
        if isinstance(fv, _Unbound):
            return self.call_function(fv.func, args, kwargs)
        if isinstance(fv, Stub):
            return fv.called(args, kwargs)
        if isinstance(fv, _ListMeth):
            if fv.name == "append" and len(args) == 1:
                fv.lst.append(args[0])
                return None
            if fv.name == "extend" and len(args) == 1:
                fv.lst.extend(self.iterate(args[0]))
                return None
            if fv.name == "copy" and not args:
                return list(fv.lst)
            if fv.name == "insert" and len(args) == 2 and isinstance(args[0], int):
                fv.lst.insert(args[0], args[1])
                return None
            if fv.name == "pop":
                return fv.lst.pop(*[a_ for a_ in args[:1] if isinstance(a_, int)])
            raise InterpUnsupported(f"{fi.qualname}: list.{fv.name}")
        if isinstance(fv, _Opaque):
            return _Opaque(f"call:{fv.what}")
        raise InterpUnsupported(f"{fi.qualname}: call `{norm(e)[:60]}`")

    def typeof(self, v):
        if isinstance(v, Obj):
            return ClsV(v.cls)
        if isinstance(v, ClsV):
            return META
        if isinstance(v, AliasV):
            return ALIAS_T
        if isinstance(v, bool):
            return ClsV("bool")
        if isinstance(v, int):
            return ClsV("int")
        if isinstance(v, float):
            return ClsV("float")
        if isinstance(v, str):
            return ClsV("str")
        if isinstance(v, list):
            return ClsV("list")
        return ClsV("object")

    def isinstance(self, v, c) -> bool:
        if isinstance(c, tuple):
            return any(self.isinstance(v, x) for x in c)
        if isinstance(c, AliasV):
            raise PyRaise("TypeError", "isinstance() argument 2 cannot be a parameterized generic")
        if not isinstance(c, ClsV):
            if isinstance(c, _Opaque) and "|" in c.what:
                raise InterpUnsupported("union in isinstance")
            raise InterpUnsupported(f"isinstance against {c!r}")
        if isinstance(v, Obj):
            if isinstance(c.ci, ClassInfo):
                return c.ci in self.prog.mro(v.cls)
            return c.ci == "object"
        if isinstance(c.ci, ClassInfo):
            return False
        if c.ci == "int":
            return isinstance(v, int)
        if c.ci == "float":
            return isinstance(v, float)
        if c.ci == "str":
            return isinstance(v, str)
        if c.ci == "bool":
            return isinstance(v, bool)
        if c.ci == "list":
            return isinstance(v, list)
        return False


class _Break(Exception):
    pass


class _Continue(Exception):
    pass


class _ListMeth:
    def __init__(self, lst, name):
        self.lst, self.name = lst, name


class _Lazy:
    def __init__(self, gen):
        self.gen = gen


class Stub:
    """A stand-in for a user object that is only called: records each call, returns a preset value."""

    def __init__(self, name: str, result, log: list):
        self.name, self.result, self.log = name, result, log

    def called(self, args, kwargs):
        self.log.append((self.name, args, kwargs))
        return self.result


class _Return(Exception):
    def __init__(self, value):
        self.value = value


@dataclass
class _Opaque:
    what: str


@dataclass
class _Bound:
    obj: Obj
    func: FuncInfo


@dataclass
class _Unbound:
    cls: ClassInfo
    func: FuncInfo


@dataclass
class _Iter:
    items: list


class _Super:
    def __init__(self, obj, cls):
        self.obj, self.cls = obj, cls


def _super_getattr(interp: Interp, s: _Super, attr: str):
    m = interp.prog.lookup_method(s.obj.cls, attr, after=s.cls)
    if m is None:
        return _Opaque(f"super.{attr}")
    return _Bound(s.obj, m)


_orig_getattr = Interp.getattr


def _getattr(self, o, attr, fi):
    if isinstance(o, _Super):
        return _super_getattr(self, o, attr)
    return _orig_getattr(self, o, attr, fi)


Interp.getattr = _getattr
