"""qsa — quansino static analyser.

Repository-specific static checks for the 20 given properties of
Atomic-Samplers/quansino.  Nothing from quansino is imported or executed: the
package under /repo/src/quansino is parsed with ``ast`` on every run, resolved
(classes, MRO, methods, imports, call targets), and rules are evaluated over
that resolved program.
"""

ASE_ROOT = "/venv/lib/python3.12/site-packages/ase"
DEFAULT_REPO = "/repo"
VERIF_ROOT = __file__.rsplit("/", 2)[0]
