"""Static simulation of Python's import-time execution order inside the package.

Module-level ``import`` / ``from X import n`` statements are executed in order against
a model of ``sys.modules`` holding, for each module, whether it is still being
initialised and which names it has bound so far.  ``from X import n`` fails (as the
interpreter does) when X is partially initialised, ``n`` is not yet bound in it and
``X.n`` is not an importable sub-module.  TYPE_CHECKING blocks, function bodies and
class bodies are skipped exactly as Python skips them."""

from __future__ import annotations

import ast
from dataclasses import dataclass, field

from .loader import Module, Program, is_type_checking_test


@dataclass
class ImportFailure:
    first_import: str
    importer: str
    lineno: int
    stmt: str
    reason: str
    stack: list[str]


@dataclass
class State:
    loading: list[str] = field(default_factory=list)
    done: set[str] = field(default_factory=set)
    bound: dict[str, set[str]] = field(default_factory=dict)
    executed: list[str] = field(default_factory=list)


class ImportSim:
    def __init__(self, prog: Program):
        self.prog = prog

    def simulate(self, first: str, state: State | None = None) -> tuple[State, ImportFailure | None]:
        st = state or State()
        self._first = first
        try:
            self._import(st, first)
        except _Fail as f:
            return st, f.failure
        return st, None

    # ------------------------------------------------------------------
    def _import(self, st: State, name: str) -> bool:
        """Import dotted module ``name`` (parents first). Returns False if not internal."""
        if not name.startswith(self.prog.package):
            return False
        parts = name.split(".")
        for i in range(1, len(parts) + 1):
            sub = ".".join(parts[:i])
            if sub not in self.prog.modules:
                return False
            if sub in st.done or sub in st.loading:
                continue
            self._exec(st, self.prog.modules[sub])
            # the submodule becomes an attribute of its parent package
            if i > 1:
                st.bound.setdefault(".".join(parts[: i - 1]), set()).add(parts[i - 1])
        return True

    def _exec(self, st: State, mod: Module) -> None:
        st.loading.append(mod.name)
        st.bound.setdefault(mod.name, set())
        self._body(st, mod, mod.tree.body)
        st.loading.remove(mod.name)
        st.done.add(mod.name)
        st.executed.append(mod.name)

    def _body(self, st: State, mod: Module, body) -> None:
        bound = st.bound[mod.name]
        for s in body:
            if isinstance(s, ast.Import):
                for a in s.names:
                    self._import(st, a.name)
                    bound.add(a.asname or a.name.split(".")[0])
            elif isinstance(s, ast.ImportFrom):
                base = self.prog._abs_module(mod, s.level, s.module)
                internal = self._import(st, base)
                for a in s.names:
                    if internal and a.name != "*":
                        tb = st.bound.get(base, set())
                        if a.name not in tb:
                            sub = f"{base}.{a.name}"
                            if sub in self.prog.modules:
                                self._import(st, sub)
                            else:
                                partial = base in st.loading
                                reason = (
                                    f"cannot import name {a.name!r} from partially initialized module {base!r} (circular import)"
                                    if partial
                                    else f"cannot import name {a.name!r} from {base!r} (never bound at module level)"
                                )
                                raise _Fail(
                                    ImportFailure(self._first, mod.name, s.lineno, " ".join(ast.unparse(s).split()), reason, list(st.loading))
                                )
                    bound.add(a.asname or a.name)
            elif isinstance(s, (ast.FunctionDef, ast.AsyncFunctionDef, ast.ClassDef)):
                bound.add(s.name)
            elif isinstance(s, ast.Assign):
                for t in s.targets:
                    for n in ast.walk(t):
                        if isinstance(n, ast.Name):
                            bound.add(n.id)
            elif isinstance(s, (ast.AnnAssign, ast.AugAssign)):
                if isinstance(s.target, ast.Name):
                    bound.add(s.target.id)
            elif isinstance(s, ast.If):
                if is_type_checking_test(s.test):
                    self._body(st, mod, s.orelse)
                else:
                    self._body(st, mod, s.body)
                    self._body(st, mod, s.orelse)
            elif isinstance(s, ast.Try):
                self._body(st, mod, s.body)
                self._body(st, mod, s.orelse)
                self._body(st, mod, s.finalbody)
            elif isinstance(s, (ast.For, ast.While, ast.With)):
                if isinstance(s, ast.For):
                    for n in ast.walk(s.target):
                        if isinstance(n, ast.Name):
                            bound.add(n.id)
                self._body(st, mod, s.body)


class _Fail(Exception):
    def __init__(self, failure: ImportFailure):
        self.failure = failure
