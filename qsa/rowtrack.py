"""Row-provenance tracking for freshly allocated numpy arrays (used by C19 reinsert_atoms and C11 displacement).

A flow-sensitive abstract run over straight-line assignment code: locals bound to pure expressions are substituted at
their uses; arrays created by np.zeros/empty/full/ones(/zeros_like) are objects that remember their shape, dtype, fill
and every row-scatter store (`Z[sel] = v`, `Z[sel] += v`, `Z += v`) they receive; boolean np.ones masks remember where
they were set False.  Anything outside the fragment raises AnalysisError (unrecognised idiom), never a verdict."""

from __future__ import annotations

import ast

from .loader import AnalysisError, norm


class Obj:
    """A freshly allocated array followed through one iteration of the per-array loop."""

    def __init__(self, kind, length, trailing, dtype, node):
        self.kind = kind  # "array" | "mask"
        self.length = length  # ast expr (substituted)
        self.trailing = trailing  # ast expr | None
        self.dtype = dtype  # ast expr | None
        self.node = node
        self.shape = None  # whole (substituted) shape expression
        self.fill = None  # "0" for zeros, "1" for ones, the fill text for full, None for empty
        self.like = None  # zeros_like(<expr>)
        self.false_at: list[str] = []  # mask: selectors set to False (for an all-False mask — `inverted` — set to True)
        self.inverted = False
        self.dirty: list[str] = []  # mask: any other store
        self.stores: list[tuple] = []  # array: (selector description, value text, lineno)


class RowTracker:
    """Flow-sensitive abstract run of reinsert_atoms' prefix and of one iteration of its first loop: locals bound to
    pure expressions are substituted at their uses, fresh arrays / boolean masks are tracked as objects with the
    row-scatter stores they receive.  Anything outside that fragment is an unrecognised idiom (AnalysisError)."""

    ALLOC = ("np.zeros", "np.empty", "np.full", "np.ones", "numpy.zeros", "numpy.empty", "numpy.full", "numpy.ones",
             "np.zeros_like", "numpy.zeros_like", "np.full_like", "np.empty_like", "np.ones_like")

    def __init__(self, target_prefix: str | None, where: str = "reinsert_atoms"):
        self.where = where
        self.env: dict[str, ast.expr] = {}
        self.objs: dict[str, Obj] = {}
        self.final: list[tuple] = []  # (key text, value name / text, lineno, snapshot)
        self.after_final: list[str] = []
        self.target_prefix = target_prefix

    def subst(self, e: ast.expr) -> ast.expr:
        import copy

        me = self

        class T(ast.NodeTransformer):
            def visit_Name(self, node):
                if isinstance(node.ctx, ast.Load) and node.id in me.env:
                    return copy.deepcopy(me.env[node.id])
                return node

            def visit_Call(self, node):
                if norm(node.func) == "len" and len(node.args) == 1 and isinstance(node.args[0], ast.Name) and node.args[0].id in me.objs:
                    return copy.deepcopy(me.objs[node.args[0].id].length)
                return self.generic_visit(node)

        return T().visit(copy.deepcopy(e))

    def _decide_none_test(self, test):
        """`v is None` / `v is not None` where v is bound to a literal None or to a stored per-atom array / call result"""
        if isinstance(test, ast.Compare) and len(test.ops) == 1 and isinstance(test.ops[0], (ast.Is, ast.IsNot)) \
                and isinstance(test.comparators[0], ast.Constant) and test.comparators[0].value is None:
            v = self.subst(test.left)
            if isinstance(test.left, ast.Name) and test.left.id in self.objs:
                is_none = False
            elif isinstance(v, ast.Constant):
                is_none = v.value is None
            elif isinstance(v, ast.Subscript) and norm(v.value).endswith(".arrays"):
                is_none = False  # an entry of Atoms.arrays is an array
            elif isinstance(v, (ast.Call, ast.IfExp)) and not isinstance(test.left, ast.Constant):
                return None
            else:
                return None
            return is_none if isinstance(test.ops[0], ast.Is) else not is_none
        return None

    def _alloc(self, call: ast.Call):
        fn = norm(call.func)
        if fn.endswith("_like") and call.args and isinstance(call.args[0], ast.Name) and call.args[0].id in self.objs:
            # a new array shaped like a tracked one (`buf = np.full_like(buf, 0.0)`, the rebinding form of `buf.fill(0.0)`)
            src = self.objs[call.args[0].id]
            o = Obj(src.kind if src.kind == "array" else "array", src.length, src.trailing, src.dtype, call)
            o.shape = src.shape
            kws = {k.arg: k.value for k in call.keywords}
            if fn.endswith("full_like"):
                fv = call.args[1] if len(call.args) > 1 else kws.get("fill_value")
                o.fill = norm(self.subst(fv)) if fv is not None else None
                if o.fill in ("0.0", "0"):
                    o.fill = "0"
            elif fn.endswith("zeros_like"):
                o.fill = "0"
            elif fn.endswith("ones_like"):
                o.fill = "1"
            else:
                o.fill = None
            return o
        o = self._alloc0(call)
        o.shape = self.subst(call.args[0]) if call.args else None
        if fn.endswith("zeros_like"):
            o.like, o.fill = o.shape, "0"
        elif fn.endswith(".zeros"):
            o.fill = "0"
        elif fn.endswith(".ones"):
            o.fill = "1"
        elif fn.endswith(".full"):
            kws = {k.arg: k.value for k in call.keywords}
            fv = call.args[1] if len(call.args) > 1 else kws.get("fill_value")
            o.fill = norm(self.subst(fv)) if fv is not None else None
        return o

    def _alloc0(self, call: ast.Call):
        fn = norm(call.func)
        kws = {k.arg: k.value for k in call.keywords}
        shape = self.subst(call.args[0]) if call.args else (self.subst(kws["shape"]) if "shape" in kws else None)
        if shape is None:
            raise AnalysisError(f"{self.where}: allocation `{norm(call)[:60]}` without a shape")
        dtype = kws.get("dtype")
        npos = 2 if fn.endswith(".full") else 1
        if dtype is None and len(call.args) > npos:
            dtype = call.args[npos]
        dtype = self.subst(dtype) if dtype is not None else None
        if fn.endswith(".ones") and dtype is not None and norm(dtype) in ("bool", "np.bool_", "numpy.bool_"):
            return Obj("mask", shape, None, dtype, call)
        fillv = call.args[1] if len(call.args) > 1 else kws.get("fill_value")
        if fn.endswith(".full") and fillv is not None and norm(fillv) == "True" and (dtype is None or norm(dtype) in ("bool", "np.bool_", "numpy.bool_")):
            return Obj("mask", shape, None, dtype, call)  # np.full(n, True) is a boolean array whatever dtype is (not) given
        if fn.endswith(".full") and fillv is not None and norm(fillv) == "False" and dtype is None:
            o = Obj("mask", shape, None, dtype, call)
            o.inverted = True
            return o
        # the dual idiom: an all-False mask in which the selected rows are set True (`m = zeros(n, bool); m[idx] = True`);
        # `Z[~m]` then addresses what `Z[ones-mask]` addresses, and `Z[m]` what `Z[~ones-mask]` does
        if (fn.endswith(".zeros") or (fn.endswith(".full") and len(call.args) > 1 and norm(call.args[1]) == "False")) and dtype is not None and norm(dtype) in ("bool", "np.bool_", "numpy.bool_"):
            o = Obj("mask", shape, None, dtype, call)
            o.inverted = True
            return o
        if isinstance(shape, ast.Tuple) and len(shape.elts) == 2 and isinstance(shape.elts[1], ast.Starred):
            return Obj("array", shape.elts[0], shape.elts[1].value, dtype, call)
        if isinstance(shape, ast.Tuple) and len(shape.elts) == 1:
            return Obj("array", shape.elts[0], None, dtype, call)
        return Obj("array", shape, None, dtype, call)

    def run(self, stmts):
        for st in stmts:
            self.stmt(st)

    def stmt(self, st):
        if isinstance(st, ast.Expr) and isinstance(st.value, ast.Constant):
            return
        if isinstance(st, ast.Pass):
            return
        if isinstance(st, ast.AnnAssign) and st.value is not None:
            st = ast.Assign(targets=[st.target], value=st.value, lineno=st.lineno)
        if isinstance(st, ast.If):
            dec = self._decide_none_test(st.test)
            if dec is not None:
                for x in (st.body if dec else st.orelse):
                    self.stmt(x)
                return
            # both arms bind the same single local to a pure expression: a conditional expression
            def single(arm):
                return len(arm) == 1 and isinstance(arm[0], ast.Assign) and len(arm[0].targets) == 1 and isinstance(arm[0].targets[0], ast.Name)

            if single(st.body) and single(st.orelse) and st.body[0].targets[0].id == st.orelse[0].targets[0].id:
                nm = st.body[0].targets[0].id
                self.env[nm] = ast.IfExp(test=self.subst(st.test), body=self.subst(st.body[0].value), orelse=self.subst(st.orelse[0].value))
                self.objs.pop(nm, None)
                return
            # a special-case arm that ends the iteration (`if <cond>: …; continue`): an alternative complete iteration.  What
            # it stores into the target is recorded separately (branch_finals) and must satisfy the same rule; the main path
            # goes on with the statements after the `if`
            if st.body and isinstance(st.body[-1], ast.Continue) and not st.orelse and self.target_prefix is not None:
                import copy as _copy

                sub = _copy.copy(self)
                sub.env, sub.objs, sub.final, sub.after_final = dict(self.env), dict(self.objs), [], []
                for x in st.body[:-1]:
                    sub.stmt(x)
                if not hasattr(self, "branch_finals"):
                    self.branch_finals = []
                self.branch_finals.append((norm(st.test), list(sub.final), st.lineno))
                return
            if st.body and st.orelse and self.target_prefix is not None:
                # a two-armed branch the tracker cannot decide: each arm is followed on its own copy of the state.  The arm
                # that builds a tracked array becomes the main path; what the other arm stores into the target is recorded
                # (branch_finals) and must satisfy the same rule
                import copy as _copy

                arms = []
                for arm_, pol_ in ((st.body, True), (st.orelse, False)):
                    sub = _copy.copy(self)
                    sub.env, sub.objs, sub.final, sub.after_final = dict(self.env), dict(self.objs), list(self.final), list(self.after_final)
                    for x in arm_:
                        if isinstance(x, ast.Continue):
                            break
                        sub.stmt(x)
                    arms.append((sub, pol_))
                n0 = len(self.final)
                good = [a for a in arms if any(f_[1] is not None for f_ in a[0].final[n0:])]
                main = (good[-1] if good else arms[-1])
                other = [a for a in arms if a is not main][0]
                if not hasattr(self, "branch_finals"):
                    self.branch_finals = []
                self.branch_finals.append((norm(st.test) if other[1] else f"not ({norm(st.test)})", list(other[0].final[n0:]), st.lineno))
                self.env, self.objs, self.final, self.after_final = main[0].env, main[0].objs, main[0].final, main[0].after_final
                return
            raise AnalysisError(f"{self.where}: branch `{norm(st.test)[:60]}` inside the array loop is outside the recognised fragment")
        if isinstance(st, ast.AugAssign):
            t = st.target
            base = t.value if isinstance(t, ast.Subscript) else t
            if isinstance(base, ast.Name) and base.id in self.objs:
                o = self.objs[base.id]
                sel = ("aug", norm(self.subst(t.slice)) if isinstance(t, ast.Subscript) else "<whole>", type(st.op).__name__)
                o.stores.append((sel, norm(self.subst(st.value)), st.lineno))
                return
            if isinstance(t, ast.Name):
                op = st.op
                self.env[t.id] = ast.BinOp(left=self.subst(ast.Name(id=t.id, ctx=ast.Load())), op=op, right=self.subst(st.value))
                return
            raise AnalysisError(f"{self.where}: statement `{norm(st)[:60]}` is outside the recognised fragment")
        if not isinstance(st, ast.Assign):
            raise AnalysisError(f"{self.where}: statement `{norm(st)[:60]}` is outside the recognised fragment")
        for tgt in st.targets:
            self.assign(tgt, st.value, st.lineno)

    def assign(self, tgt, value, lineno):
        if isinstance(tgt, (ast.Tuple, ast.List)) and isinstance(value, (ast.Tuple, ast.List)) and len(tgt.elts) == len(value.elts) \
                and all(isinstance(t, ast.Name) for t in tgt.elts) \
                and not any((isinstance(v, ast.Call) and norm(v.func) in self.ALLOC) or (isinstance(v, ast.Name) and v.id in self.objs) for v in value.elts):
            # simultaneous rebinding of locals to pure expressions (`a, b = a[p], b[p]`): every right-hand side is read
            # before any name is bound; env values are always in terms of the original names, so they are bound as they are
            vals = [self.subst(v) for v in value.elts]
            for t, v in zip(tgt.elts, vals):
                self.env[t.id] = v
                self.objs.pop(t.id, None)
            return
        if isinstance(tgt, ast.Name):
            if isinstance(value, ast.Call) and norm(value.func) in self.ALLOC:
                self.objs[tgt.id] = self._alloc(value)
                self.env.pop(tgt.id, None)
            elif isinstance(value, ast.Name) and value.id in self.objs:
                self.objs[tgt.id] = self.objs[value.id]
                self.env.pop(tgt.id, None)
            else:
                selfref = tgt.id in self.objs and any(isinstance(n, ast.Name) and n.id == tgt.id for n in ast.walk(value))
                if selfref and isinstance(value, ast.BinOp) and isinstance(value.left, ast.Name) and value.left.id == tgt.id \
                        and norm(self.subst(value.right)) not in getattr(self, "sum_operands", ()):
                    # `buf = buf <op> e` — the rebinding form of an in-place `buf <op>= e`: an update of the tracked array
                    o = self.objs[tgt.id]
                    o.stores.append((("aug", "<whole>", type(value.op).__name__), norm(self.subst(value.right)), lineno))
                    return
                if selfref:
                    # `buf = buf + x` (an in-place `buf += x` on a private array, rewritten by the normaliser): the tracked
                    # array keeps living under an internal name, the local now names the sum
                    keep = f"{tgt.id}__buf"
                    self.objs[keep] = self.objs[tgt.id]
                    import copy as _copy

                    class _R(ast.NodeTransformer):
                        def visit_Name(self, node):
                            if node.id == tgt.id and isinstance(node.ctx, ast.Load):
                                return ast.copy_location(ast.Name(id=keep, ctx=ast.Load()), node)
                            return node

                    value = _R().visit(_copy.deepcopy(value))
                self.env[tgt.id] = self.subst(value)
                self.objs.pop(tgt.id, None)
            return
        if isinstance(tgt, ast.Subscript):
            base = tgt.value
            if isinstance(base, ast.Name) and base.id in self.objs:
                o = self.objs[base.id]
                if self.final:
                    self.after_final.append(norm(tgt))
                sel = tgt.slice
                if o.kind == "mask":
                    v = norm(self.subst(value))
                    if v == ("True" if getattr(o, "inverted", False) else "False"):
                        o.false_at.append(norm(self.subst(sel)))
                    else:
                        o.dirty.append(f"{norm(tgt)} = {v}")
                    return
                if isinstance(sel, ast.Name) and sel.id in self.objs and self.objs[sel.id].kind == "mask":
                    m = self.objs[sel.id]
                    seld = ("notmask" if getattr(m, "inverted", False) else "mask", tuple(m.false_at), tuple(m.dirty), norm(m.length))
                elif isinstance(sel, ast.UnaryOp) and isinstance(sel.op, ast.Invert) and isinstance(sel.operand, ast.Name) and sel.operand.id in self.objs and self.objs[sel.operand.id].kind == "mask":
                    m = self.objs[sel.operand.id]
                    seld = ("mask" if getattr(m, "inverted", False) else "notmask", tuple(m.false_at), tuple(m.dirty), norm(m.length))
                else:
                    seld = ("index", norm(self.subst(sel)))
                o.stores.append((seld, norm(self.subst(value)), lineno))
                return
            if self.target_prefix is not None and norm(self.subst(base)) == self.target_prefix:
                val = value
                o = self.objs.get(val.id) if isinstance(val, ast.Name) else None
                self.final.append((norm(self.subst(tgt.slice)), o, norm(self.subst(val)), lineno))
                return
        raise AnalysisError(f"{self.where}: store `{norm(tgt)[:60]}` is outside the recognised fragment")


