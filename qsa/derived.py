"""Derived attributes (caches): `self.X` read by a formula but computed elsewhere from other attributes or from
constructor parameters.

The resolver is a Translator hook: an otherwise unknown `self.X` (or `self.X["k"]` for a dict literal) with exactly one
definition along the class's MRO is replaced by its definition, value-numbered over the same vocabulary (constructor
parameters stand for the attributes they are stored in).  So a formula that was merely re-expressed through a cache still
normalises to the reference.  What a cache adds is a *freshness* obligation, checked afterwards:

  F1  every method (of the class, its bases or its subclasses) that writes one of the cache's source attributes also
      refreshes the cache (assigns it, or calls / triggers the function that defines it);
  F2  a source that is a plain public attribute (stored from a constructor parameter, no property setter that refreshes)
      can be re-assigned by the user between runs — a cache computed once in the constructor then silently keeps the
      old value.
"""

from __future__ import annotations

import ast

from .dataflow import self_attr_assignments
from .loader import ClassInfo, FuncInfo, Program, calls_in, norm, walk_no_nested


class CacheResolver:
    def __init__(self, prog: Program, ci: ClassInfo, vocab, make_translator):
        self.prog, self.ci, self.vocab = prog, ci, vocab
        self.make_translator = make_translator
        self.assigns = self._all_assignments()
        self.used: dict[str, tuple[FuncInfo, ast.stmt, set[str]]] = {}
        self._busy: set[str] = set()

    def _all_assignments(self):
        out = dict(self_attr_assignments(self.prog, self.ci))
        # writers in subclasses count as well (a subclass that retunes a source must refresh the cache)
        for sub in self.prog.subclasses(self.ci, strict=True):
            for attr, lst in self_attr_assignments(self.prog, sub, own_only=True).items():
                out.setdefault(attr, []).extend(lst)
        return out

    # -------------------------------------------------------------- translator hook
    def hook(self, tr, node):
        key = None
        attr = None
        if isinstance(node, ast.Attribute) and isinstance(node.value, ast.Name) and node.value.id == "self":
            attr = node.attr
        elif isinstance(node, ast.Subscript) and isinstance(node.value, ast.Attribute) and isinstance(node.value.value, ast.Name) and node.value.value.id == "self" \
                and isinstance(node.slice, ast.Constant):
            attr, key = node.value.attr, node.slice.value
        if attr is None or norm(node) in self.vocab.table or f"self.{attr}" in self.vocab.table or norm(node) in getattr(self.vocab, "values", {}) or attr in self._busy:
            return None
        if f"self.{attr}" in getattr(self.vocab, "values", {}):
            return None
        defs = [(f, st, v) for f, st, v in self.assigns.get(attr, []) if v is not None]
        if len(defs) != 1:
            return None
        f_def, st_def, v_def = defs[0]
        if isinstance(v_def, (ast.Name, ast.Constant)):
            return None  # plain storage of a parameter / constant is not a cache
        if key is None and isinstance(v_def, (ast.Dict, ast.List, ast.Tuple, ast.Set, ast.Lambda, ast.ListComp, ast.DictComp)):
            return None  # a table of callables / a container is not a cached quantity
        if key is not None:
            if not isinstance(v_def, ast.Dict):
                return None
            hit = [v for k, v in zip(v_def.keys, v_def.values) if isinstance(k, ast.Constant) and k.value == key]
            if len(hit) != 1:
                return None
            v_def = hit[0]
        # constructor parameters stand for the attributes they are stored in
        params = {a.arg for a in f_def.node.args.args[1:]} | {a.arg for a in f_def.node.args.kwonlyargs}
        stored: dict[str, str] = {}
        for n in walk_no_nested(f_def.node):
            # … and so does a local that is stored, as it is, into an attribute next to the cached value (`self.a = x; self.c = f(x)`)
            is_local_store = (isinstance(n, (ast.Assign, ast.AnnAssign)) and isinstance(n.value, ast.Name) and n.value.id not in params
                              and abs(n.lineno - st_def.lineno) <= 3 and not any(
                                  isinstance(m, (ast.Assign, ast.AugAssign)) and min(n.lineno, st_def.lineno) < m.lineno < max(n.lineno, st_def.lineno)
                                  and any(isinstance(t_, ast.Name) and t_.id == n.value.id for t_ in (m.targets if isinstance(m, ast.Assign) else [m.target]))
                                  for m in walk_no_nested(f_def.node)))
            if isinstance(n, (ast.Assign, ast.AnnAssign)) and n.value is not None and isinstance(n.value, ast.Name) and (n.value.id in params or is_local_store):
                for t in (n.targets if isinstance(n, ast.Assign) else [n.target]):
                    if isinstance(t, ast.Attribute) and norm(t.value) == "self":
                        stored.setdefault(n.value.id, t.attr)
        sub = self.make_translator()
        for h in tr.hooks:
            if h not in sub.hooks:
                sub.hooks.append(h)
        sub.module = getattr(tr, "module", None)
        self._busy.add(attr)
        try:
            used_names = {n_.id for n_ in ast.walk(v_def) if isinstance(n_, ast.Name)}
            for p, a in stored.items():
                if p not in used_names:
                    continue
                sub.env[p] = sub.tr(ast.Attribute(value=ast.Name(id="self", ctx=ast.Load()), attr=a, ctx=ast.Load()))
            # the vocabulary recognises quantities by their text (`np.min(self.shaped_masses)`): translate the definition
            # with the stored parameters / locals spelled as the attributes they are stored in
            import copy as _copy

            class _Sub(ast.NodeTransformer):
                def visit_Name(self_, n_):
                    if isinstance(n_.ctx, ast.Load) and n_.id in stored and n_.id in used_names:
                        return ast.Attribute(value=ast.Name(id="self", ctx=ast.Load()), attr=stored[n_.id], ctx=ast.Load())
                    return n_

            v_sub = ast.fix_missing_locations(_Sub().visit(_copy.deepcopy(v_def)))
            val = sub.tr(v_sub)
        except Exception:
            return None
        finally:
            self._busy.discard(attr)
        sources = {n_.attr for n_ in ast.walk(v_def) if isinstance(n_, ast.Attribute) and norm(n_.value) == "self"}
        sources |= {stored[n_.id] for n_ in ast.walk(v_def) if isinstance(n_, ast.Name) and n_.id in stored}
        # a property-backed source: the attribute its getter returns is a source too
        for src in list(sources):
            g = self.prog.lookup_method(self.ci, src)
            if g is not None and g.kind == "property":
                for r_ in g.body():
                    if isinstance(r_, ast.Return) and isinstance(r_.value, ast.Attribute) and norm(r_.value.value) == "self":
                        sources.add(r_.value.attr)
        self.used[attr] = (f_def, st_def, sources)
        return val

    # -------------------------------------------------------------- freshness obligations
    def check(self, L, rule: str, consumer: str, effect: str) -> None:
        for attr, (f_def, st_def, sources) in sorted(self.used.items()):
            where_def = f"{f_def.module.relpath}:{st_def.lineno}"
            for src in sorted(sources):
                writers = [(wf, wst) for wf, wst, _wv in self.assigns.get(src, []) if wf.name != "__init__"]
                for wf, wst in writers:
                    if wf is f_def:
                        continue
                    writes = {t.attr for x in walk_no_nested(wf.node) if isinstance(x, (ast.Assign, ast.AnnAssign, ast.AugAssign))
                              for t in (x.targets if isinstance(x, ast.Assign) else [x.target]) if isinstance(t, ast.Attribute) and norm(t.value) == "self"}
                    called = {c.func.attr for c in calls_in(wf.node) if isinstance(c.func, ast.Attribute) and norm(c.func.value) == "self"}
                    fresh = attr in writes or f_def.name in called or (f_def.kind == "setter" and f_def.name in writes)
                    L.check(fresh, rule, f"{wf.qualname}:stale-{attr}", f"{wf.module.relpath}:{wst.lineno}",
                            f"{wf.qualname} changes `self.{src}`, from which the cached `self.{attr}` (computed in {f_def.qualname}, {where_def}) is derived, but does not refresh the cache: {consumer} then works with stale data",
                            effect, f"{attr}<-{src}")
                # F2: plain public attribute, cache computed only at construction
                setter = self.prog.lookup_setter(self.ci, src)
                meth = self.prog.lookup_method(self.ci, src)
                is_plain = setter is None and not src.startswith("_") and (meth is None or meth.kind == "property") and bool(self.assigns.get(src))
                if is_plain and f_def.name == "__init__":
                    L.violation(rule, f"{f_def.qualname}:construction-time-{attr}", where_def,
                                f"`self.{attr}` is computed once in the constructor from `{src}`, a plain public attribute that can be re-assigned on the object afterwards; {consumer} reads the cached value, other code reads `self.{src}` live — the two disagree after a re-assignment",
                                effect, f"{attr}<-{src}")
