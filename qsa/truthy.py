"""R-TRUTHY: truth-testing a value whose static type admits a *valid falsy value that is
not "absent"* (``int | None`` → 0, ``float | None`` → 0.0) or an ndarray (ambiguous /
element-wise truth value).

The rule is type-directed: the tested expression is traced (single-assignment inlining)
to a parameter / attribute annotation or to an array-producing call."""

from __future__ import annotations

import ast
from dataclasses import dataclass

from .dataflow import (
    Inliner,
    ann_members,
    boolean_contexts,
    param_annotation,
    param_names,
    self_attr_annotations,
)
from .loader import ClassInfo, FuncInfo, Program, dotted, norm

NUMERIC = {"int", "float", "np.integer", "np.floating", "numpy.integer", "numpy.floating", "complex", "np.int_", "np.float64"}
ARRAY_CTORS = {
    "asarray", "array", "full", "zeros", "ones", "empty", "hstack", "vstack", "unique", "arange",
    "concatenate", "delete", "append", "setdiff1d", "full_like", "zeros_like", "ones_like", "fromiter",
    "column_stack", "repeat", "where", "clip", "abs", "sqrt", "exp", "power", "sum", "mean", "std",
}
ARRAY_CTORS_SCALAR_RESULT = {"sum", "mean", "std", "where"}  # may be scalar/tuple: not flagged
ARRAY_TYPE_NAMES = {"NDArray", "np.ndarray", "numpy.ndarray", "ndarray"}


@dataclass
class TruthySite:
    func: FuncInfo
    expr: ast.expr
    kind: str  # context kind
    verdict: str  # 'optnum' | 'ndarray' | 'ok' | 'unknown'
    type_text: str
    witness: str = ""


def _array_aliases(prog: Program) -> set[str]:
    """Names in quansino.type_hints whose definition mentions NDArray."""
    out = set()
    m = prog.modules.get(f"{prog.package}.type_hints")
    if m:
        for name, val in m.assigns.items():
            if "NDArray" in norm(val):
                out.add(name)
    return out


def classify_annotation(prog: Program, ann: ast.expr | None, aliases: set[str]) -> tuple[str, str]:
    members = ann_members(ann)
    text = " | ".join(members)
    if not members:
        return "unknown", ""
    has_none = "None" in members
    others = [m for m in members if m != "None"]
    is_array = any(
        (m.split("[")[0] in ARRAY_TYPE_NAMES) or (m in aliases) or m.startswith("NDArray") for m in others
    )
    if is_array:
        return "ndarray", text
    if has_none and others and all(m in NUMERIC for m in others):
        return "optnum", text
    return "ok", text


def classify_expr(prog: Program, fi: FuncInfo, e: ast.expr, aliases: set[str], attr_anns: dict[str, ast.expr] | None) -> tuple[str, str]:
    fn = fi.node
    inl = Inliner(fn)
    seen = 0
    while seen < 10:
        seen += 1
        if isinstance(e, ast.NamedExpr):
            e = e.value
            continue
        if isinstance(e, ast.Name):
            if e.id in param_names(fn):
                return classify_annotation(prog, param_annotation(fn, e.id), aliases)
            v = inl.single(e.id)
            if v is None:
                return "unknown", ""
            e = v
            continue
        break
    if isinstance(e, ast.Attribute) and isinstance(e.value, ast.Name) and e.value.id == "self" and attr_anns is not None:
        ann = attr_anns.get(e.attr)
        if ann is not None:
            return classify_annotation(prog, ann, aliases)
        return "unknown", ""
    if isinstance(e, ast.Call):
        d = dotted(e.func) or ""
        head, _, last = d.rpartition(".")
        if head in ("np", "numpy") and last in ARRAY_CTORS and last not in ARRAY_CTORS_SCALAR_RESULT:
            return "ndarray", f"result of {d}(...)"
    return "ok" if isinstance(e, (ast.Compare, ast.Constant)) else "unknown", ""


def scan_function(prog: Program, fi: FuncInfo, aliases: set[str] | None = None) -> list[TruthySite]:
    aliases = aliases if aliases is not None else _array_aliases(prog)
    attr_anns = self_attr_annotations(prog, fi.cls) if fi.cls is not None else None
    out = []
    for expr, kind, _parent in boolean_contexts(fi.node):
        verdict, ttext = classify_expr(prog, fi, expr, aliases, attr_anns)
        wit = ""
        if verdict == "optnum":
            wit = f"value 0 (a valid {ttext}) is falsy, so `{norm(expr)}` takes the 'absent' branch"
        elif verdict == "ndarray":
            wit = (
                f"`{norm(expr)}` is an ndarray: truth value raises ValueError for length != 1 "
                "and is the element's truth for length 1"
            )
        out.append(TruthySite(fi, expr, kind, verdict, ttext, wit))
    return out


def scan_all(prog: Program) -> list[TruthySite]:
    aliases = _array_aliases(prog)
    out = []
    for fi in prog.iter_functions():
        out.extend(scan_function(prog, fi, aliases))
    return out
