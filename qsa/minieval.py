"""Checker-owned evaluator for small integer/boolean predicates extracted from the source
(guards such as ``interval > 0 and step % interval == 0``).  Used to decide equivalence of
an extracted predicate with a reference predicate by exhaustive enumeration of a bounded
integer domain.  Python semantics for short-circuiting, ``%`` (sign of divisor) and
ZeroDivisionError are reproduced; nothing from quansino is executed."""

from __future__ import annotations

import ast

from .loader import AnalysisError, norm


class Raises(Exception):
    def __init__(self, what: str):
        self.what = what


class PredUnsupported(AnalysisError):
    pass


def ev(e: ast.expr, env: dict[str, object]):
    key = norm(e) if isinstance(e, (ast.Name, ast.Attribute)) else None
    if key is not None:
        if key in env:
            return env[key]
        raise PredUnsupported(f"predicate mentions `{key}`, which is not one of the modelled quantities {sorted(env)}")
    if isinstance(e, (ast.Call, ast.Subscript)) and norm(e) in env:
        if isinstance(e, ast.Call) and "__trace__" in env:
            env["__trace__"].append(norm(e))  # the caller wants to know that (and when) the call is made
        return env[norm(e)]  # a modelled quantity spelled as a call or an item, e.g. `len(atoms)`
    if isinstance(e, ast.Tuple):
        return tuple(ev(x, env) for x in e.elts)
    if isinstance(e, ast.Subscript) and isinstance(e.slice, ast.Constant) and isinstance(e.slice.value, int):
        v = ev(e.value, env)
        if isinstance(v, tuple):
            try:
                return v[e.slice.value]
            except IndexError:
                raise Raises("IndexError") from None
        if v is None or isinstance(v, (int, float)):
            raise Raises("TypeError")
    if isinstance(e, ast.Call) and norm(e.func) == "isinstance" and len(e.args) == 2:
        v = ev(e.args[0], env)
        names = [norm(x) for x in (e.args[1].elts if isinstance(e.args[1], ast.Tuple) else [e.args[1]])]
        if isinstance(e.args[1], ast.BinOp):
            names = [x.strip() for x in norm(e.args[1]).split("|")]
        table = {"int": int, "float": float, "tuple": tuple, "bool": bool, "list": list, "np.integer": (), "numbers.Integral": int, "Integral": int}
        if not all(n in table for n in names):
            raise PredUnsupported(f"isinstance against `{norm(e.args[1])}`")
        return any(isinstance(v, table[n]) for n in names if table[n] != ())
    if isinstance(e, ast.Constant):
        if isinstance(e.value, (bool, int, float)) or e.value is None:
            return e.value
        raise PredUnsupported(f"constant {e.value!r}")
    if isinstance(e, ast.BoolOp):
        if isinstance(e.op, ast.And):
            v = True
            for s in e.values:
                v = ev(s, env)
                if not v:
                    return v
            return v
        v = False
        for s in e.values:
            v = ev(s, env)
            if v:
                return v
        return v
    if isinstance(e, ast.UnaryOp):
        v = ev(e.operand, env)
        if isinstance(e.op, ast.Not):
            return not v
        if isinstance(e.op, ast.Invert) and isinstance(v, bool):
            return not v  # numpy boolean mask negation
        if isinstance(e.op, ast.USub):
            return -v
        if isinstance(e.op, ast.UAdd):
            return +v
    if isinstance(e, ast.BinOp) and isinstance(e.op, (ast.BitAnd, ast.BitOr)):
        a, b = ev(e.left, env), ev(e.right, env)
        if isinstance(a, bool) and isinstance(b, bool):
            return (a and b) if isinstance(e.op, ast.BitAnd) else (a or b)
        raise PredUnsupported(f"`{norm(e)}`: bitwise operator on non-boolean operands")
    if isinstance(e, ast.BinOp):
        a, b = ev(e.left, env), ev(e.right, env)
        try:
            if isinstance(e.op, ast.Add):
                return a + b
            if isinstance(e.op, ast.Sub):
                return a - b
            if isinstance(e.op, ast.Mult):
                return a * b
            if isinstance(e.op, ast.Mod):
                return a % b
            if isinstance(e.op, ast.FloorDiv):
                return a // b
            if isinstance(e.op, ast.Div):
                return a / b
        except ZeroDivisionError:
            raise Raises("ZeroDivisionError") from None
        except TypeError:
            raise Raises("TypeError") from None
    if isinstance(e, ast.Compare):
        left = ev(e.left, env)
        for op, c in zip(e.ops, e.comparators):
            right = ev(c, env)
            try:
                if isinstance(op, ast.Eq):
                    r = left == right
                elif isinstance(op, ast.NotEq):
                    r = left != right
                elif isinstance(op, ast.Lt):
                    r = left < right
                elif isinstance(op, ast.LtE):
                    r = left <= right
                elif isinstance(op, ast.Gt):
                    r = left > right
                elif isinstance(op, ast.GtE):
                    r = left >= right
                elif isinstance(op, ast.Is):
                    r = left is right
                elif isinstance(op, ast.IsNot):
                    r = left is not right
                elif isinstance(op, (ast.In, ast.NotIn)) and isinstance(right, (list, tuple, set, frozenset, dict)):
                    r = (left in right) if isinstance(op, ast.In) else (left not in right)
                else:
                    raise PredUnsupported(norm(e))
            except TypeError:
                raise Raises("TypeError") from None
            if not r:
                return False
            left = right
        return True
    if isinstance(e, ast.IfExp):
        return ev(e.body, env) if ev(e.test, env) else ev(e.orelse, env)
    if isinstance(e, ast.Call) and isinstance(e.func, ast.Name) and not e.keywords:
        args = [ev(a, env) for a in e.args]
        if e.func.id == "abs" and len(args) == 1:
            return abs(args[0])
        if e.func.id == "min":
            return min(args)
        if e.func.id == "max":
            return max(args)
        if e.func.id == "bool" and len(args) == 1:
            return bool(args[0])
        if e.func.id == "int" and len(args) == 1:
            return int(args[0])
    if isinstance(e, ast.Call) and norm(e.func) in ("np.abs", "math.fabs", "np.sign") and len(e.args) == 1:
        v = ev(e.args[0], env)
        return abs(v) if "abs" in norm(e.func) else ((v > 0) - (v < 0))
    raise PredUnsupported(f"`{norm(e)}` is outside the integer-predicate fragment")


def equivalent(e: ast.expr, reference, domain: list[dict[str, object]]):
    """Compare truthiness of ``e`` with ``reference(env)`` over every env in ``domain``.
    Returns None when equivalent, else (env, got, want)."""
    for env in domain:
        want = reference(env)
        try:
            got = bool(ev(e, env))
        except Raises as r:
            got = f"raises {r.what}"
        if got != want:
            return env, got, want
    return None


# ------------------------------------------------------------------ statement-level evaluation
class _Flow(Exception):
    def __init__(self, kind):
        self.kind = kind


class FuncTok:
    """a known callable held in a variable (so that `h = self.save_state if ok else self.revert_state; h()` is followed)"""

    def __init__(self, name: str):
        self.name = name

    def __repr__(self):
        return f"<callable {self.name}>"

    def __bool__(self):
        return True


class _Unknown:
    def __repr__(self):
        return "<unknown>"


_UNKNOWN = _Unknown()


def run_stmts(stmts, env: dict, on_call=None, budget: int = 2000, on_store=None):
    """Execute a small statement list over the integer/boolean environment ``env`` (mutated in place):
    assignments to names, if/elif/else, pass, continue/break/return (reported by name), expression
    statements that are calls (handed to ``on_call(text, call)``).  Anything else → PredUnsupported.
    Returns 'fallthrough' | 'continue' | 'break' | 'return'."""
    for st in stmts:
        if isinstance(st, ast.Pass):
            continue
        if isinstance(st, ast.Expr):
            if isinstance(st.value, ast.Constant):
                continue
            if isinstance(st.value, ast.Call):
                f = st.value.func
                while isinstance(f, ast.IfExp):  # (a if c else b)(...)
                    f = f.body if ev(f.test, env) else f.orelse
                ftxt = norm(f)
                if isinstance(f, (ast.Name, ast.Attribute)) and isinstance(env.get(ftxt), FuncTok):
                    ftxt = env[ftxt].name  # a local standing for a known callable
                elif isinstance(f, ast.Name) and ftxt not in env and env.get("__strict_calls__"):
                    raise PredUnsupported(f"call of `{ftxt}`, a local the evaluator has no value for")
                if on_call is not None:
                    on_call(ftxt, st.value)
                continue
            raise PredUnsupported(f"statement `{norm(st)[:60]}`")
        if isinstance(st, (ast.Assign, ast.AnnAssign)):
            if st.value is None:
                continue
            tg = st.targets if isinstance(st, ast.Assign) else [st.target]
            try:
                v = ev(st.value, env)
                known = True
            except PredUnsupported:
                # an unmodelled right-hand side: the name becomes unknown (an error only if it is used)
                v, known = None, False
            for t in tg:
                if on_store is not None and not isinstance(t, ast.Name):
                    on_store(t, st.value, v if known else _UNKNOWN)
                if isinstance(t, (ast.Name, ast.Attribute)):
                    if known:
                        env[norm(t)] = v
                    elif norm(t) in env.get("__modelled__", {}):
                        env[norm(t)] = env["__modelled__"][norm(t)]  # the caller models this quantity whatever expression computes it
                    else:
                        env.pop(norm(t), None)
                elif on_store is None and known:
                    raise PredUnsupported(f"store `{norm(t)}`")
            continue
        if isinstance(st, ast.AugAssign) and isinstance(st.target, (ast.Name, ast.Attribute)):
            cur = ev(st.target, env)
            val = ev(st.value, env)
            op = {ast.Add: lambda a, b: a + b, ast.Sub: lambda a, b: a - b, ast.Mult: lambda a, b: a * b}.get(type(st.op))
            if op is None:
                raise PredUnsupported(norm(st))
            env[norm(st.target)] = op(cur, val)
            continue
        if isinstance(st, ast.If):
            r = run_stmts(st.body if ev(st.test, env) else st.orelse, env, on_call, budget, on_store)
            if r != "fallthrough":
                return r
            continue
        if isinstance(st, ast.Continue):
            return "continue"
        if isinstance(st, ast.Break):
            return "break"
        if isinstance(st, ast.Return):
            if st.value is not None:
                try:
                    env["<return>"] = ev(st.value, env)
                except PredUnsupported:
                    env["<return>"] = _UNKNOWN
            else:
                env["<return>"] = None
            return "return"
        raise PredUnsupported(f"statement `{norm(st)[:60]}` is outside the predicate fragment")
    return "fallthrough"
