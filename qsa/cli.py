"""Command line: ./check <ID> [--tier quick|thorough] [--replay FILE] [--repo DIR]."""

from __future__ import annotations

import argparse
import importlib
import json
import os
import sys
import traceback

from . import DEFAULT_REPO
from .loader import AnalysisError, Program
from .report import Ledger

PROPS = [f"C{n:02d}" for n in range(2, 21)]


class _Undecided(Exception):
    """the run ends as exit 2 even though rule violations were recorded (they are withheld, see run_property)"""


def run_property(pid: str, repo: str, tier: str, seed: int, quiet: bool = False, write_files: bool = True) -> tuple[int, Ledger | None, str]:
    """Run one property's rules on ``repo``. Returns (exit code, ledger, error text)."""
    ledger = Ledger(pid=pid, tier=tier, seed=seed, repo=repo, quiet=quiet, write_files=write_files)
    try:
        mod = importlib.import_module(f"qsa.props.{pid.lower()}")
        prog = Program(repo)
        from . import memo

        m_floor = memo.check(prog, ledger, pid)  # rule M (shared): no history-dependent memo on the property's path
        mod.run(prog, ledger)
        m_floor()  # the size floor of rule M's call-graph slice comes last: it must not pre-empt a verdict of the property's own rules
        # A correctly keyed memo on the property's path is equivalent to recomputation, but the property's own recognisers
        # (formula translators, the abstract heap) do not see through it: what they then report is about their model, not
        # about the code.  With such a site on the path and no verdict of rule M itself, their violations are withheld and
        # the run ends undecided (exit 2) — never a pass, never an alarm on code where the property holds.
        transparent = ledger.extra.get("rule_M_transparent_sites") or []
        listed = ledger._known()
        own = [o for o in ledger.obligations if o.status == "violation" and o.rule != "M"
               and not any(k.get("rule") == o.rule and k.get("construct") == o.construct and (not k.get("stmt") or k.get("stmt") == o.stmt) for k in listed)]
        if transparent and own and not any(o.status == "violation" and o.rule == "M" for o in ledger.obligations):
            raise _Undecided(f"{len(own)} finding(s) of rule(s) {sorted({o.rule for o in own})} were reached through code that goes through the correctly keyed memo "
                             f"{', '.join(transparent[:3])}, which those rules do not see through: undecided (first: {own[0].construct})")
        return ledger.finish(), ledger, ""
    except _Undecided as exc:
        return 2, ledger, f"{exc}"
    except AnalysisError as exc:
        if any(o.status == "violation" for o in ledger.obligations):
            # a construct was already shown to violate a rule before the recogniser gave up on a
            # later part: the violation stands; the rest of the analysis is reported as incomplete
            ledger.note(f"analysis incomplete after the reported violation(s): {exc}")
            code = ledger.finish()
            if code == 1:
                return 1, ledger, ""
        return 2, ledger, f"{exc}"
    except Exception as exc:  # a crash of the checker is never a violation
        return 2, ledger, f"checker crashed: {exc!r}\n{traceback.format_exc()}"


def main(argv=None) -> int:
    try:
        import signal

        signal.signal(signal.SIGPIPE, signal.SIG_DFL)  # a closed stdout pipe ends the run quietly
    except (AttributeError, ValueError):
        pass
    ap = argparse.ArgumentParser(prog="check")
    ap.add_argument("pid")
    ap.add_argument("--tier", default=os.environ.get("VERIF_TIER", "quick"), choices=["quick", "thorough"])
    ap.add_argument("--repo", default=os.environ.get("QSA_REPO", DEFAULT_REPO))
    ap.add_argument("--replay", default=None)
    ap.add_argument("--no-selftest", action="store_true")
    args = ap.parse_args(argv)
    pid = args.pid.upper()
    seed = int(os.environ.get("VERIF_SEED", "0") or 0)
    if pid not in PROPS:
        print(f"ANALYSIS-ERROR property={pid} unknown or not-applicable property")
        return 2

    code, ledger, err = run_property(pid, args.repo, args.tier, seed, write_files=not os.environ.get("QSA_NOWRITE"))
    if code == 2:
        print(f"ANALYSIS-ERROR property={pid} {err}")
        return 2

    if args.replay:
        with open(args.replay, encoding="utf-8") as fh:
            rp = json.load(fh)
        hit = [
            o for o in ledger.obligations
            if o.status in ("violation", "known") and o.rule == rp.get("rule") and o.construct == rp.get("construct")
        ]
        print(f"[{pid}] replay {args.replay}: rule={rp.get('rule')} construct={rp.get('construct')} -> "
              + ("still violated" if hit else "no longer violated"))

    if args.tier == "thorough" and code == 0 and not args.no_selftest:
        from . import selftest

        st = selftest.run(pid, args.repo, seed)
        if not os.environ.get("QSA_NOWRITE") and selftest.LAST_SUMMARY:
            # the self-test outcome belongs to what this run covered
            evp = os.path.join(os.path.dirname(os.path.dirname(os.path.abspath(__file__))), "evidence", f"{pid}.json")
            try:
                with open(evp, encoding="utf-8") as fh:
                    evd = json.load(fh)
                evd.setdefault("coverage", {})["checker_self_test"] = dict(selftest.LAST_SUMMARY)
                with open(evp, "w", encoding="utf-8") as fh:
                    json.dump(evd, fh, indent=1, ensure_ascii=False)
            except (OSError, ValueError):
                pass
        if st != 0:
            if selftest.tree_digest(args.repo) == selftest.reference_digest():
                print(f"ANALYSIS-ERROR property={pid} self-test of the checker failed (checker weaker or noisier than claimed)")
                return 2
            # the variants were written and validated against the reference tree; on an edited tree a variant that no
            # longer behaves as catalogued says nothing certain about either the tree or the checker: reported, not fatal
            print(f"[{pid}] note: self-test variants disagree on this edited tree (catalogue validated on the reference tree only); verdict above stands")
    return code


if __name__ == "__main__":
    sys.exit(main())
