"""C14 — Hamiltonian proposals are reversible and correctly thermalised.

V  one iteration of Verlet.integrate (unconstrained) normalises to the velocity-Verlet map
   p½ = p + ½F(x)dt ; x' = x + p½/m·dt ; p' = p½ + ½F(x')dt, forces re-evaluated between drift and
   second kick, same dt in all three places; two iterations = the map applied twice (force reuse)
MB momenta = standard_normal((N,3))·sqrt(m·kB·T) drawn from context.rng; the forced branch rescales by
   sqrt(T_target/T_actual)
KE on every path of HamiltonianDisplacementMove the kinetic energy stored for the acceptance test is
   that of the momenta present when the integrator starts (abstract-heap check)
"""

from __future__ import annotations

import ast

from ..absim import Bound, V, _NO, simp
from ..loader import AnalysisError, Program, norm, walk_no_nested
from ..normalize import flat
from ..report import Ledger
from ..sym import DIFFERENT, EQUAL, UNDECIDED, Translator, Unsupported, Vocabulary, same, sp
from ..trial import MoveSpec, Scenario

_MASS_FORMS = tuple(f"{a}.{g}{sl}" for a in ("atoms", "context.atoms") for g in ("get_masses()",) for sl in ("[:, None]", "[:, np.newaxis]", ".reshape(-1, 1)", "[..., None]"))
EKf = sp.Function("EK")  # kinetic energy of a momentum field (uninterpreted; quadratic: EK(s·p) = s²·EK(p))
Ffun = sp.Function("F")
Con = sp.Function("ConstrainPositions")
ConM = sp.Function("ConstrainMomenta")


class AtomsState:
    """Stateful summary of the Atoms API for value numbering: positions/momenta are expressions,
    forces are a function of the current positions."""

    def __init__(self, x, p, atoms_names=("atoms", "context.atoms")):
        self.x, self.p = x, p
        self.names = atoms_names
        self.force_evals = []
        self.events = []
        self.ke_function = False  # model get_kinetic_energy() as EK(current momenta) instead of a free symbol

    def hook(self, tr, node):
        if isinstance(node, ast.Attribute) and norm(node) in [f"{a}.positions" for a in self.names]:
            return self.x
        if not isinstance(node, ast.Call):
            return None
        f = norm(node.func)
        for a in self.names:
            if f == f"{a}.get_positions":
                return self.x
            if f == f"{a}.get_momenta":
                return self.p
            if f == f"{a}.get_kinetic_energy" and self.ke_function:
                return EKf(self.p)
            if f == f"{a}.get_forces":
                self.force_evals.append(self.x)
                self.events.append(("forces", self.x))
                return Ffun(self.x)
            if f == f"{a}.set_positions":
                val = tr.tr(node.args[0])
                ac = _kw(tr, node, "apply_constraint", 1, True)
                self.x = val if ac is False else (Con(val) if ac is True else sp.Piecewise((Con(val), ac), (val, True)))
                self.events.append(("set_positions", ac))
                return sp.Integer(0)
            if f == f"{a}.set_momenta":
                val = tr.tr(node.args[0])
                ac = _kw(tr, node, "apply_constraint", 1, True)
                self.p = val if ac is False else (ConM(val) if ac is True else val)
                self.events.append(("set_momenta", ac))
                return sp.Integer(0)
        return None


def _kw(tr, call, name, pos, default):
    for k in call.keywords:
        if k.arg == name:
            v = tr.tr(k.value)
            return True if v is sp.true or v == True else (False if v is sp.false or v == False else v)  # noqa: E712
    if len(call.args) > pos:
        v = tr.tr(call.args[pos])
        return True if v is sp.true else (False if v is sp.false else v)
    return default


def _split_momenta(e, G):
    """momentum expression = (global scalar factor) · core, core ∈ {G·per-atom factors, ConM(core)}; the constraint
    map is linear (scalars move out) and idempotent."""
    e = sp.sympify(e)
    if isinstance(e, ConM):
        s_, c_ = _split_momenta(e.args[0], G)
        return s_, (c_ if isinstance(c_, ConM) else ConM(c_))
    def vec_like(f):  # G outside any EK(...): a per-atom field, not a number
        return f.replace(lambda x: isinstance(x, EKf), lambda x: sp.Symbol("ek_", positive=True)).has(G)

    if e.is_Mul:
        vec = [f for f in e.args if vec_like(f)]
        if len(vec) != 1:
            raise Unsupported(f"momenta `{e}` are not (scalar)·(one draw)")
        rest = sp.Mul(*[f for f in e.args if not vec_like(f)])
        s_, c_ = _split_momenta(vec[0], G)
        # per-atom factors (the masses) belong to the core; everything else (constants, temperatures, EK-dependent
        # rescaling) is one number for the whole system and moves out of ConM / EK
        msym_ = [x for x in rest.free_symbols if x.name == "m"]
        facs = sp.powsimp(rest).as_ordered_factors()
        local = sp.Mul(*[f for f in facs if any(f.has(x) for x in msym_) and not f.has(EKf)])
        glob = sp.simplify(rest / local)
        if local != 1:
            c_ = ConM(sp.simplify(c_.args[0] * local)) if isinstance(c_, ConM) else sp.simplify(c_ * local)
        return s_ * glob, c_
    if vec_like(e) and not e.has(EKf):
        return sp.Integer(1), e
    raise Unsupported(f"momenta `{e}` are not (scalar)·(one draw)")


def _ek_normal(e, G):
    """rewrite every EK(arg) to (scalar)²·EK(core)"""
    def one(arg):
        s_, c_ = _split_momenta(arg, G)
        s_ = _ek_normal(s_, G)
        return s_**2 * EKf(c_)

    prev = None
    cur = sp.sympify(e)
    for _ in range(6):
        if cur == prev:
            break
        prev = cur
        cur = cur.replace(lambda x: isinstance(x, EKf) and not _is_core(x.args[0], G), lambda x: one(x.args[0]))
    return cur


def _is_core(e, G):
    try:
        s_, c_ = _split_momenta(e, G)
    except Unsupported:
        return True
    return s_ == 1 and c_ == e


def _decide(L, rule, cons, where, got, ref, what):
    got, ref = sp.sympify(got), sp.sympify(ref)
    if sp.simplify(sp.expand(got - ref)) == 0:
        L.ok(rule, cons, where)
        return
    def inst(e):
        for _ in range(6):
            e = e.replace(Ffun, lambda y: sp.sin(y) + y**2 / 3).replace(Con, lambda y: y * sp.Rational(9, 10) + sp.Rational(1, 7)).replace(ConM, lambda y: y * sp.Rational(4, 5))
            if not (e.has(Ffun) or e.has(Con) or e.has(ConM)):
                break
        return e

    verdict, wit = same(inst(got), inst(ref))
    if verdict == DIFFERENT:
        L.violation(rule, cons, where, f"{what} (witness with the test force F(y)=sin y + y²/3: {wit})", wit, cons)
    elif verdict == EQUAL:
        raise AnalysisError(f"{cons}: symbolic forms differ but the instantiated formulas agree")
    else:
        raise AnalysisError(f"{cons}: {wit}")


def run_block_stmts(t: Translator, stmts):
    """Value-number a block; effectful calls (also inside decided branches) go to the translator's hooks.  Returns the
    value of the `return` reached, evaluated in the final state, or None."""
    t.expr_calls = True
    r = t.run_block(list(stmts))
    if r is not None and r[1] is not None:
        return t.tr(r[1])
    return None


def verlet_constrained(prog: Program, L: Ledger, rule: str) -> None:
    """Constrained branch of Verlet.integrate: the second kick starts from the momentum of the
    constrained displacement and both writes are constraint-aware."""
    ver = prog.cls("Verlet")
    integ = ver.methods.get("integrate")
    if integ is None:
        raise AnalysisError("Verlet.integrate missing")
    integ = flat(prog, integ, ver)
    loops = [s for s in integ.body() if isinstance(s, ast.For)]
    if len(loops) != 1:
        raise AnalysisError("Verlet.integrate: expected one loop")
    loop = loops[0]
    pre = integ.body()[: integ.body().index(loop)]
    x, p, m, dt = sp.Symbol("x", real=True), sp.Symbol("p", real=True), sp.Symbol("m", positive=True), sp.Symbol("dt", positive=True)
    # constrained branch: half-step momentum recomputed from the constrained displacement
    vocab = Vocabulary({"self.dt": ("dt", {"positive": True}), **{k: ("m", {"positive": True}) for k in _MASS_FORMS}})
    vocab.symbols.update({"dt": dt, "m": m})
    vocab.bind("self.apply_constraints", sp.true)
    st = AtomsState(x, p)
    t = Translator(vocab)
    t.hooks.append(st.hook)
    run_block_stmts(t, pre)
    run_block_stmts(t, loop.body)
    xc = Con(x + (p + sp.Rational(1, 2) * Ffun(x) * dt) / m * dt)
    pc = ConM((xc - x) * m / dt + sp.Rational(1, 2) * Ffun(xc) * dt)
    _decide(L, rule, "Verlet.integrate[constrained]:positions", integ.where, st.x, xc, "constrained drift is not the constrained velocity-Verlet drift")
    _decide(L, rule, "Verlet.integrate[constrained]:momenta", integ.where, st.p, pc, "with constraints the second kick must start from the momentum of the *constrained* displacement, (x'−x)·m/dt")



def run(prog: Program, L: Ledger) -> None:
    L.explanation = (
        "C14: the shipped integrator's loop body is value-numbered with a stateful summary of the Atoms API (positions and momenta are "
        "expressions, forces an uninterpreted function of the current positions) and compared by normal form with the velocity-Verlet map "
        "for one and for two iterations (the second checks that the force evaluated for the second kick is the one reused for the next "
        "first kick); reversibility and the O(dt²) energy error are then the textbook theorem about this scheme (trusted). The "
        "Maxwell–Boltzmann draw is compared with standard_normal·sqrt(m·kB·T) (forced: times sqrt(T_target/T_actual)). The kinetic-energy "
        "ordering is decided on the abstract heap: on every path, when the integrator starts, the stored reference kinetic energy is "
        "that of the momenta then present. Not decided: numerical reversibility 'up to rounding', the measured order of the energy error, "
        "statistics of the drawn momenta."
    )
    L.rule("V", "Verlet.integrate (unconstrained): one/two loop iterations equal the velocity-Verlet map applied once/twice, forces evaluated at the drifted positions")
    L.rule("MB", "momentum refresh: standard_normal((N,3)) from context.rng times sqrt(m·kB·T); forced branch rescales by sqrt(T_target/T_actual)")
    L.rule("KE", "the kinetic energy stored for the acceptance test is that of the momenta present when integration starts, on every path")
    L.assume("velocity Verlet is time-reversible and its energy error is O(dt²) (textbook theorem about the scheme)")

    ver = prog.cls("Verlet")
    integ = ver.methods.get("integrate")
    if integ is None:
        raise AnalysisError("Verlet.integrate missing")
    integ = flat(prog, integ, ver)
    loops = [s for s in integ.body() if isinstance(s, ast.For)]
    if len(loops) != 1 or norm(loops[0].iter) != "range(self.max_steps)":
        raise AnalysisError("Verlet.integrate: expected one loop over range(self.max_steps)")
    loop = loops[0]
    pre = integ.body()[: integ.body().index(loop)]
    x, p, m, dt = sp.Symbol("x", real=True), sp.Symbol("p", real=True), sp.Symbol("m", positive=True), sp.Symbol("dt", positive=True)

    def vv(x0, p0):
        ph = p0 + sp.Rational(1, 2) * Ffun(x0) * dt
        x1 = x0 + ph / m * dt
        p1 = ph + sp.Rational(1, 2) * Ffun(x1) * dt
        return x1, p1

    for iters in (1, 2):
        vocab = Vocabulary({"self.dt": ("dt", {"positive": True}), **{k: ("m", {"positive": True}) for k in _MASS_FORMS}})
        vocab.symbols.update({"dt": dt, "m": m})
        vocab.bind("self.apply_constraints", sp.false)
        st = AtomsState(x, p)
        t = Translator(vocab)
        t.hooks.append(st.hook)
        try:
            run_block_stmts(t, pre)
            for _ in range(iters):
                run_block_stmts(t, loop.body)
        except Unsupported as exc:
            raise AnalysisError(f"Verlet.integrate: {exc}") from exc
        xr, pr = x, p
        for _ in range(iters):
            xr, pr = vv(xr, pr)
        unk = [k for k, s_ in vocab.unknown.items() if s_ in (sp.sympify(st.x).free_symbols | sp.sympify(st.p).free_symbols) and k not in ("atoms", "context")]
        if unk:
            raise AnalysisError(f"Verlet.integrate: unrecognised sources {unk[:3]}")
        _decide(L, "V", f"Verlet.integrate[{iters} step(s)]:positions", integ.where, st.x, xr, f"positions after {iters} iteration(s) are not those of velocity Verlet")
        _decide(L, "V", f"Verlet.integrate[{iters} step(s)]:momenta", integ.where, st.p, pr, f"momenta after {iters} iteration(s) are not those of velocity Verlet (kick/drift/kick with forces at the new positions)")
        L.check(len(st.force_evals) == iters + 1, "V", f"Verlet.integrate[{iters} step(s)]:force-evaluations", integ.where,
                f"{len(st.force_evals)} force evaluations for {iters} step(s) (expected one initial plus one per step)", "forces recomputed needlessly or reused stale", "forces")

    verlet_constrained(prog, L, "V")

    # ------------------------------------------------------------------ MB
    mb = flat(prog, prog.func(f"{prog.package}.utils.dynamics", "maxwell_boltzmann_distribution"), None, keep=())
    draws = [c for c in walk_no_nested(mb.node) if isinstance(c, ast.Call) and isinstance(c.func, ast.Attribute) and c.func.attr in ("standard_normal", "normal", "randn")]
    gen_ok = len(draws) == 1 and norm(draws[0].func.value) == "context.rng"
    L.check(gen_ok, "MB", "maxwell_boltzmann_distribution:generator", mb.where,
            f"the normal draw is `{norm(draws[0])[:70] if draws else None}`: it must come from context.rng, exactly once", "momenta not tied to the simulation's seed", "rng")
    for forced in ((False, True) if gen_ok else ()):
        vocab = Vocabulary({
            "context.temperature": ("T", {"positive": True}), "kB": ("kB", {"positive": True}),
            "atoms.get_masses()": ("m", {"positive": True}), "context.atoms.get_masses()": ("m", {"positive": True}),
            "context.rng.standard_normal((len(context.atoms), 3))": ("G", {"real": True}),
            "context.rng.standard_normal((len(atoms), 3))": ("G", {"real": True}),
            "context.rng.standard_normal(size=(len(context.atoms), 3))": ("G", {"real": True}),
            "atoms.get_kinetic_energy()": ("Ekin", {"positive": True}), "atoms.get_number_of_degrees_of_freedom()": ("ndof", {"positive": True}),
            "context.atoms.get_kinetic_energy()": ("Ekin", {"positive": True}), "context.atoms.get_number_of_degrees_of_freedom()": ("ndof", {"positive": True}),
            # 3N is NOT the number of degrees of freedom once constraints remove some: its own symbol
            "len(atoms) * 3": ("N3", {"positive": True}), "3 * len(atoms)": ("N3", {"positive": True}),
            "len(context.atoms) * 3": ("N3", {"positive": True}), "3 * len(context.atoms)": ("N3", {"positive": True}),
        })
        vocab.bind("forced", sp.true if forced else sp.false)
        st = AtomsState(sp.Symbol("x"), sp.Symbol("p0"))
        st.ke_function = True
        t = Translator(vocab)
        t.hooks.append(st.hook)
        Gs = vocab.sym("G", real=True)
        msym = vocab.sym("m", positive=True)

        def size_hook(tr, node, _G=Gs):
            # `<the (N, 3) draw or anything proportional to it>.size` is 3N
            if isinstance(node, ast.Attribute) and node.attr == "size":
                try:
                    inner = sp.sympify(tr.tr(node.value))
                except Exception:
                    return None
                if isinstance(inner, sp.Basic) and inner.has(_G):
                    return vocab.sym("N3", positive=True)
            return None

        t.hooks.append(size_hook)

        def ke_hook(tr, node, _G=Gs, _m=msym):
            # a hand-written kinetic energy: np.sum(p*p/m) (the caller supplies the 1/2) of a momentum expression p
            if isinstance(node, ast.Call) and norm(node.func) in ("np.sum", "numpy.sum", "sum") and len(node.args) == 1:
                inner = sp.sympify(tr.tr(node.args[0]))
                cands = [v for v in list(tr.env.values()) + [st.p] if isinstance(v, sp.Basic) and v.has(_G)]
                for pexp in cands:
                    q = sp.simplify(inner * _m / pexp**2)
                    if q.is_number and q != 0:
                        return 2 * q * EKf(pexp)
            if isinstance(node, ast.Call) and isinstance(node.func, ast.Attribute) and node.func.attr == "sum" and not node.args:
                inner = sp.sympify(tr.tr(node.func.value))
                cands = [v for v in list(tr.env.values()) + [st.p] if isinstance(v, sp.Basic) and v.has(_G)]
                for pexp in cands:
                    q = sp.simplify(inner * _m / pexp**2)
                    if q.is_number and q != 0:
                        return 2 * q * EKf(pexp)
            return None

        t.hooks.append(ke_hook)

        def sub_hook(tr, node):
            # x[:, None] broadcasting is the identity at this level of abstraction
            if isinstance(node, ast.Subscript) and norm(node.slice) in ("(slice(None, None, None), None)", ":, None") or (isinstance(node, ast.Subscript) and norm(node).endswith("[:, None]")):
                return tr.tr(node.value)
            return None

        t.hooks.insert(0, sub_hook)
        try:
            returned = run_block_stmts(t, mb.body())
        except Unsupported as exc:
            raise AnalysisError(f"maxwell_boltzmann_distribution: {exc}") from exc
        if returned is not None and _refresh_value_used(prog):
            # a refresh that reports a kinetic energy (callers may store it as the trial's reference): it must be that of
            # the momenta it leaves on the atoms
            try:
                got_r = sp.simplify(_ek_normal(sp.sympify(returned), Gs))
                want_r = sp.simplify(_ek_normal(EKf(sp.sympify(st.p)), Gs))
            except Unsupported as exc:
                raise AnalysisError(f"maxwell_boltzmann_distribution: returned value `{returned}`: {exc}") from exc
            unk = [k for k, s_ in vocab.unknown.items() if s_ in got_r.free_symbols]
            if unk:
                raise AnalysisError(f"maxwell_boltzmann_distribution: returned value mentions unrecognised sources {unk[:3]}")
            drop_eps = lambda e_: e_.xreplace({f_: 0 for f_ in e_.atoms(sp.Float) if abs(f_) < 1e-9})  # noqa: E731
            L.check(sp.simplify(drop_eps(got_r) - drop_eps(want_r)) == 0, "KE", f"maxwell_boltzmann_distribution[forced={forced}]:returned-kinetic-energy", mb.where,
                    f"the refresh returns `{got_r}` while the momenta it leaves on the atoms have kinetic energy `{want_r}`: a caller that records the returned value as the trial's initial kinetic energy uses that of momenta that are no longer there",
                    "HMC with a forced refresh: ΔH in the acceptance test is off by the rescaling of the kinetic energy", "returned")
        G, T, kB, mm = vocab.sym("G", real=True), vocab.sym("T", positive=True), vocab.sym("kB", positive=True), vocab.sym("m", positive=True)
        base = G * sp.sqrt(mm * kB * T)
        if forced:
            # the clause is about the result: the momenta left on the atoms have kinetic temperature T — whatever the
            # constraints did to the draw.  Decided with EK quadratic and the constraint map linear and idempotent.
            nd = vocab.sym("ndof", positive=True)
            try:
                scal, core = _split_momenta(sp.sympify(st.p), G)
                ek_final = sp.simplify(_ek_normal(scal**2 * EKf(core), G))
            except Unsupported as exc:
                raise AnalysisError(f"maxwell_boltzmann_distribution[forced]: {exc}") from exc
            ek_final = ek_final.xreplace({f_: 0 for f_ in ek_final.atoms(sp.Float) if abs(f_) < 1e-9})
            target = nd * kB * T / 2
            unk = [k for k, s_ in vocab.unknown.items() if s_ in ek_final.free_symbols]
            if unk:
                raise AnalysisError(f"maxwell_boltzmann_distribution: unrecognised sources {unk[:3]}")
            okT = sp.simplify(ek_final - target) == 0
            L.check(okT, "MB", "maxwell_boltzmann_distribution[forced=True]", mb.where,
                    f"with forced=True the kinetic energy of the momenta left on the atoms is `{ek_final}`, not ndof·kB·T/2: the rescaling factor is computed from a kinetic energy other than that of the momenta actually on the atoms (after constraints)",
                    "forced=True with FixAtoms/FixCom: the kinetic temperature after the refresh is not the target temperature", "forced")
            continue
        refm = base
        got = st.p
        # strip the constraint wrapper (momenta are set through the constraint-aware API)
        for _ in range(6):
            if not got.has(ConM):
                break
            got = got.replace(ConM, lambda y: y)
        unk = [k for k, s_ in vocab.unknown.items() if s_ in sp.sympify(got).free_symbols]
        if unk:
            raise AnalysisError(f"maxwell_boltzmann_distribution: unrecognised sources {unk[:3]}")
        _decide(L, "MB", f"maxwell_boltzmann_distribution[forced={forced}]", mb.where, got, refm,
                "momenta are not standard-normal draws from the simulation generator scaled by sqrt(m·kB·T)" + (" and by sqrt(T_target/T_actual)" if forced else ""))

    check_kinetic_reference(prog, L, "KE")


def _refresh_value_used(prog: Program) -> bool:
    """Does any call of the momentum refresh (the move's `distribution` slot or the shipped function by name) use the
    value it returns?  A refresh whose return value every caller drops may return anything."""
    for fi in prog.iter_functions():
        for st in ast.walk(fi.node):
            if not isinstance(st, ast.stmt):
                continue
            for c in ast.walk(st) if not isinstance(st, (ast.FunctionDef, ast.For, ast.While, ast.If, ast.With, ast.Try)) else ():
                if isinstance(c, ast.Call) and ((isinstance(c.func, ast.Attribute) and c.func.attr == "distribution") or (isinstance(c.func, ast.Name) and c.func.id == "maxwell_boltzmann_distribution")):
                    if not (isinstance(st, ast.Expr) and st.value is c):
                        return True
    return False


def check_kinetic_reference(prog: Program, L: Ledger, rule: str) -> None:
    """On every abstract path of a Hamiltonian trial the kinetic energy stored for the acceptance test is that of the
    momenta present when the integrator starts (shared with C02: the K0 its Hamiltonian formula reads)."""
    hmc = prog.cls("HamiltonianCanonical")
    hmove = prog.cls("HamiltonianDisplacementMove")
    sc = Scenario(prog, hmc, [MoveSpec(hmove.name)], 1)
    seen = {"n": 0, "bad": []}

    def call_hook(mach, fv, args, kwargs, e, fi):
        if isinstance(fv, Bound) and fv.func.name == "integrate":
            seen["n"] += 1
            cur = ("Ekin", simp(mach.heap["atoms"]["M"]))
            slot = mach.heap["ctx"].get("last_kinetic_energy")
            ok = isinstance(slot, V) and slot.term == cur
            fresh = isinstance(cur[1], tuple) and cur[1][0] == "new"
            if not ok:
                seen["bad"].append((f"{fi.module.relpath}:{e.lineno}", f"reference kinetic energy is {slot!r} while the momenta entering the integrator are {cur[1]}", list(mach.ch.labels)[-6:]))
            elif not fresh:
                seen["bad"].append((f"{fi.module.relpath}:{e.lineno}", "momenta were not refreshed before integration on the sampling path", list(mach.ch.labels)[-6:]))
        return _NO

    stats = sc.run_paths(lambda rec: None, extra_hooks={"call": call_hook})
    L.extra["ke_paths"] = stats["paths"]
    L.extra["integrate_calls_checked"] = seen["n"]
    if seen["n"] == 0:
        raise AnalysisError("KE: no integrate() call was reached in the Hamiltonian scenario")
    if seen["bad"]:
        w, d, pth = seen["bad"][0]
        L.violation(rule, "HamiltonianDisplacementMove.attempt_displacement:last_kinetic_energy", w,
                    f"when the integrator starts, {d}: the total-energy acceptance test compares against the wrong kinetic energy",
                    f"abstract path {' ; '.join(pth)}", "last_kinetic_energy")
    else:
        L.ok(rule, "HamiltonianDisplacementMove.attempt_displacement:last_kinetic_energy", hmove.where, f"{seen['n']} integrate() calls on {stats['paths']} paths")
