"""C13 — force-bias steps are bounded and follow the published (Bal–Neyts) density.

B  every definition of zeta is a uniform(−1, 1) draw from the simulation generator and the applied
   displacement normalises to zeta·delta·(min(M)/M)^p  ⇒ |Δx| ≤ delta·(m_min/m)^p without constraints
Γ  gamma = clip(F·delta/(2 kB T), −g, g) with g ≤ ln(DBL_MAX); denominator = e^γ − e^−γ
ρ  with sign(zeta) case-split, the trial probability normalises to the Bal–Neyts expressions; the
   zero-denominator branch returns a constant in (0, 1]
A  exactly one position update per step on every path, after the rejection loop; the loop re-draws
   only not-yet-accepted entries, accepts where P > u, and exits when all are accepted
"""

from __future__ import annotations

import ast

from ..cfg import build_cfg
from ..loader import AnalysisError, Program, calls_in, norm, walk_no_nested
from ..dataflow import Inliner
from ..normalize import flat
from ..report import Ledger
from ..sym import DIFFERENT, EQUAL, Translator, Unsupported, Vocabulary, same, sp

LN_DBL_MAX = sp.Float("709.782712893384")


def _eq(L, rule, cons, where, got, ref, what, wit_prefix="", vocab=None):
    if vocab is not None:
        unk = [k for k, s_ in vocab.unknown.items() if s_ in sp.sympify(got).free_symbols]
        if unk:
            raise AnalysisError(f"{cons}: expression mentions unrecognised sources {unk[:3]}")
    verdict, wit = same(got, ref)
    if verdict == EQUAL:
        L.ok(rule, cons, where)
        return True
    if verdict == DIFFERENT:
        L.violation(rule, cons, where, f"{what}: {wit}", f"{wit_prefix}{wit}", cons)
        return False
    raise AnalysisError(f"{cons}: {wit}")


def _custom_source_bypass(prog: Program, L: Ledger) -> None:
    """B (custom source): an attribute the step reads that can be given by the caller (`update_masses(masses)`) and
    otherwise defaults to a live source G (`self.atoms.get_masses()`) is the *only* place G may be read: any other method
    that reads G itself and stores into something the step reads works with the atoms' own value where the caller supplied
    another."""
    fb = prog.cls("ForceBias")
    classes = [fb] + prog.subclasses(fb, strict=True)
    step = prog.lookup_method(fb, "step")
    from .. import memo as _memo

    # what step() reads, helpers and properties it goes through included
    on_step = _memo.reach(prog, [f for c in classes for f in [c.methods.get("step")] if f is not None], by_name=False)
    step_reads = {n.attr for f in on_step.values() if f.cls is not None and f.cls in classes and f.name != "__init__" for n in ast.walk(f.node)
                  if isinstance(n, ast.Attribute) and isinstance(n.value, ast.Name) and n.value.id == "self"}
    customs = []  # (attr, default source text, updater)
    for c in classes:
        for f in c.methods.values():
            if f.name == "__init__":
                continue
            a = f.node.args
            names = [x.arg for x in a.args]
            defaults = dict(zip(names[len(names) - len(a.defaults):], a.defaults))
            optional = {n_ for n_, d_ in defaults.items() if isinstance(d_, ast.Constant) and d_.value is None}
            if not optional:
                continue
            default_src = {}
            for st in walk_no_nested(f.node):
                if isinstance(st, ast.If) and isinstance(st.test, ast.Compare) and isinstance(st.test.left, ast.Name) and st.test.left.id in optional \
                        and isinstance(st.test.ops[0], ast.Is) and isinstance(st.test.comparators[0], ast.Constant) and st.test.comparators[0].value is None:
                    for b in st.body:
                        if isinstance(b, ast.Assign) and len(b.targets) == 1 and isinstance(b.targets[0], ast.Name) and b.targets[0].id == st.test.left.id:
                            default_src[st.test.left.id] = norm(b.value)
                if isinstance(st, ast.Assign) and isinstance(st.value, ast.IfExp) and isinstance(st.value.test, ast.Compare) and isinstance(st.value.test.left, ast.Name) \
                        and st.value.test.left.id in optional and isinstance(st.value.test.comparators[0], ast.Constant) and st.value.test.comparators[0].value is None:
                    arm = st.value.body if isinstance(st.value.test.ops[0], ast.Is) else st.value.orelse
                    default_src[st.value.test.left.id] = norm(arm)
            if not default_src:
                continue
            # the parameter (possibly reshaped) ends in a self attribute
            for st in walk_no_nested(f.node):
                if isinstance(st, ast.Assign):
                    for t in st.targets:
                        if isinstance(t, ast.Attribute) and isinstance(t.value, ast.Name) and t.value.id == "self":
                            used = {n_.id for n_ in ast.walk(st.value) if isinstance(n_, ast.Name)}
                            for p_, g_ in default_src.items():
                                derived = {p_}
                                for _r in range(4):
                                    for s2 in walk_no_nested(f.node):
                                        if isinstance(s2, ast.Assign) and len(s2.targets) == 1 and isinstance(s2.targets[0], ast.Name) \
                                                and any(isinstance(n_, ast.Name) and n_.id in derived for n_ in ast.walk(s2.value)):
                                            derived.add(s2.targets[0].id)
                                if (derived & used) and "self." in g_:
                                    customs.append((t.attr, g_, f))
    n = 0
    for attr, g, upd in customs:
        if attr not in step_reads:
            continue
        for c in classes:
            for f in list(c.methods.values()) + list(c.setters.values()):
                if f.name == "__init__" or f is upd:
                    continue
                reads_g = [x for x in ast.walk(f.node) if isinstance(x, (ast.Call, ast.Attribute)) and norm(x) == g]
                if not reads_g:
                    continue
                n += 1
                # attributes that receive a value computed from G (through locals)
                tainted: set[str] = set()

                def _dep(e_):
                    return any((isinstance(x_, (ast.Call, ast.Attribute)) and norm(x_) == g) or (isinstance(x_, ast.Name) and x_.id in tainted) for x_ in ast.walk(e_))

                for _round in range(4):
                    for st in walk_no_nested(f.node):
                        if isinstance(st, (ast.Assign, ast.AugAssign, ast.AnnAssign)) and getattr(st, "value", None) is not None and _dep(st.value):
                            for t in (st.targets if isinstance(st, ast.Assign) else [st.target]):
                                for tt in (t.elts if isinstance(t, (ast.Tuple, ast.List)) else [t]):
                                    if isinstance(tt, ast.Name):
                                        tainted.add(tt.id)
                written = set()
                for st in walk_no_nested(f.node):
                    if isinstance(st, (ast.Assign, ast.AugAssign, ast.AnnAssign)) and getattr(st, "value", None) is not None and _dep(st.value):
                        for t in (st.targets if isinstance(st, ast.Assign) else [st.target]):
                            b = t
                            while isinstance(b, ast.Subscript):
                                b = b.value
                            if isinstance(b, ast.Attribute) and norm(b.value) == "self":
                                written.add(b.attr)
                hit = sorted((written & step_reads) - {attr})  # storing the default into the attribute itself is a re-default, not a bypass
                if not hit and f.name != "step":
                    continue
                if hit or f.name == "step":
                    L.violation("B", f"{f.qualname}:bypasses-custom-{attr}", f"{f.module.relpath}:{reads_g[0].lineno}",
                                f"{f.qualname} reads `{g}` itself{' and stores into `self.' + hit[0] + '`, which step() reads' if hit else ''}; `self.{attr}` is what {upd.qualname}(...) lets the caller supply (defaulting to `{g}`): the two disagree as soon as custom values were given",
                                f"{upd.name}(custom values), then {f.name}: displacement components exceed delta·(m_min/m)^p of the masses in force", f"{attr}<-{g}")
    L.ok("B", f"custom-sources:{len(customs)}:other-readers:{n}", fb.where)
    L.floor("caller-suppliable sources read by the force-bias step", len({c_[0] for c_ in customs if c_[0] in step_reads}), 1)


def run(prog: Program, L: Ledger) -> None:
    L.explanation = (
        "C13 decided on ForceBias: step(), calculate_gamma(), get_zeta() and calculate_trial_probability() are value-numbered "
        "into sympy expressions over named sources (forces F, delta, T, kB, masses M, min M, power p, zeta z, gamma γ) and compared "
        "by normal form with the reference closed forms; sign(zeta) is case-split into ±1; uniform(−1,1) bounds zeta so the "
        "displacement bound follows; the clip bound is compared with ln(DBL_MAX); the CFG of step() is enumerated (rejection loop taken "
        "0/1/2 times) to show one position write after the loop on every path. Not decided: termination with probability 1 and the "
        "sampled distribution (consequences of ρ by the rejection-sampling lemma)."
    )
    L.rule("B", "zeta ∈ [−1,1) from the simulation generator on every definition; displacement = zeta·delta·(min(M)/M)^p; applied through momenta/positions unchanged")
    _custom_source_bypass(prog, L)
    L.rule("Γ", "gamma = clip(F·delta/(2·kB·T), −g, +g), g ≤ ln(DBL_MAX); denominator = exp(γ) − exp(−γ)")
    L.rule("ρ", "trial probability = (e^{γ} − e^{γ(2ζ−1)})/(e^γ − e^{−γ}) for ζ>0 and (e^{γ(2ζ+1)} − e^{−γ})/(e^γ − e^{−γ}) for ζ<0; zero denominator → constant in (0,1]")
    L.rule("A", "exactly one set_positions per step on every path, after the rejection loop; loop re-draws only unconverged entries and exits when all converged")
    L.assume("rejection sampling against a density bounded by 1 samples that density and terminates with probability 1")

    fb = prog.cls("ForceBias")
    step = fb.methods.get("step")
    cg = fb.methods.get("calculate_gamma")
    gz = fb.methods.get("get_zeta")
    tp = fb.methods.get("calculate_trial_probability")
    if not (step and cg and gz and tp):
        raise AnalysisError("ForceBias anchors missing")
    KEEP = ("get_zeta", "calculate_trial_probability", "calculate_gamma")
    step = flat(prog, step, fb, keep=KEEP, public_methods=True)
    cg, gz, tp = (flat(prog, f_, fb) for f_ in (cg, gz, tp))

    # ------------------------------------------------------------------ B: zeta draws
    rets = [s for s in gz.body() if isinstance(s, ast.Return)]
    if len(rets) != 1:
        raise AnalysisError("get_zeta: single return expected")
    zc = rets[0].value
    okz = isinstance(zc, ast.Call) and norm(zc.func) == "self._rng.uniform" and len(zc.args) >= 2
    lo = hi = None
    if okz:
        try:
            # locals and module-level constants the bounds are named through (`low, high = _ZETA_BOUNDS`) are followed
            tz = Translator(Vocabulary())
            tz.module = gz.module
            pre_ = [s_ for s_ in gz.body() if isinstance(s_, (ast.Assign, ast.AnnAssign)) and not any(isinstance(c_, ast.Call) for c_ in ast.walk(s_))]
            try:
                tz.run_block(pre_)
            except Unsupported:
                pass
            lo, hi = sp.sympify(tz.tr(zc.args[0])), sp.sympify(tz.tr(zc.args[1]))
        except (Unsupported, TypeError, sp.SympifyError):
            okz = False
    L.check(okz and lo == -1 and hi == 1, "B", "ForceBias.get_zeta", gz.where,
            f"zeta is drawn as `{norm(zc)}`: it must be uniform on [−1, 1) from the simulation generator", f"zeta range [{lo}, {hi}) ⇒ |Δx| can reach {hi}·delta·(m_min/m)^p" if okz else "", norm(zc))
    # every assignment to self.zeta (whole or masked) takes its value from get_zeta()
    nz = 0
    for f0 in fb.methods.values():
        # helpers the step calls are seen through (a `sample_zeta()` that draws, loops and returns `self.zeta`)
        f = flat(prog, f0, fb, keep=KEEP, public_methods=True) if f0.kind == "method" and f0.name not in KEEP else f0
        for st in walk_no_nested(f.node):
            if isinstance(st, (ast.Assign, ast.AugAssign)):
                tg = st.targets if isinstance(st, ast.Assign) else [st.target]
                for t in tg:
                    base = t.value if isinstance(t, ast.Subscript) else t
                    if norm(base) == "self.zeta":
                        if isinstance(st, ast.Assign) and norm(st.value) == "self.zeta" and not isinstance(t, ast.Subscript):
                            continue  # `self.zeta = self.zeta` left by an inlined helper that returns the attribute
                        nz += 1
                        L.check(isinstance(st, ast.Assign) and norm(st.value) == "self.get_zeta()", "B", f"{f.qualname}:zeta-def", f"{f.module.relpath}:{st.lineno}",
                                f"zeta defined by `{norm(st)}` rather than a fresh get_zeta() draw", "zeta outside [−1,1) or not from the generator", norm(st))
    L.floor("definitions of self.zeta", nz, 2)

    # displacement
    vocab = Vocabulary({
        "self.zeta": ("z", {"real": True}), "self.delta": ("D", {"positive": True}),
        "np.min(self.shaped_masses)": ("Mmin", {"positive": True}), "self.shaped_masses.min()": ("Mmin", {"positive": True}),
        "np.max(self.shaped_masses)": ("Mmax", {"positive": True}), "self.shaped_masses.max()": ("Mmax", {"positive": True}),
        "np.mean(self.shaped_masses)": ("Mmean", {"positive": True}), "self.shaped_masses.mean()": ("Mmean", {"positive": True}),
        "self.shaped_masses": ("M", {"positive": True}), "self.masses_scaling_power": ("p", {"real": True}),
        "self.atoms.get_positions()": ("x", {"real": True}),
    })
    t = Translator(vocab)
    disp = None
    setmom = None
    setpos = None
    for st in step.body():
        if isinstance(st, ast.Assign) and isinstance(st.targets[0], ast.Name):
            try:
                t.run_block([st])
            except (Unsupported, TypeError):
                t.env[st.targets[0].id] = vocab.atom(norm(st.value))
        elif isinstance(st, ast.Expr) and isinstance(st.value, ast.Call):
            fn = norm(st.value.func)
            if fn == "self.atoms.set_momenta":
                setmom = t.tr(st.value.args[0])
                # what get_momenta() returns afterwards (no constraints): the value just set; get_velocities() divides it by
                # the masses stored ON THE ATOMS, which are not the driver's shaped_masses once update_masses() was used
                vocab.bind("self.atoms.get_momenta()", setmom)
                vocab.bind("self.atoms.get_velocities()", sp.sympify(setmom) / vocab.sym("Matoms", positive=True))
            elif fn == "self.atoms.set_positions":
                setpos = (st, t.tr(st.value.args[0]))
    # derived attributes: `self.X` read by the step formula but computed elsewhere from other
    # attributes (a cache).  The cached definition is substituted, and every writer of one of its
    # source attributes must refresh it — otherwise the step uses stale data.
    from ..dataflow import self_attr_assignments

    assigns = self_attr_assignments(prog, fb)
    # the displacement is whatever is handed to set_momenta divided by the masses (no reliance on a local's name)
    if setmom is not None:
        t.env["displacement"] = sp.simplify(sp.sympify(setmom) / vocab.sym("M", positive=True))
    disp_expr = sp.sympify(t.env.get("displacement", 0))
    resolved_caches: set[str] = set()
    for txt in [k for k, s_ in list(vocab.unknown.items()) if k.startswith("self.") and s_ in disp_expr.free_symbols]:
        attr = txt.split(".", 1)[1]
        from ..normalize import expand_expression_methods

        defs_ = [(f_, st_, expand_expression_methods(prog, fb, v_, {"self"})) for f_, st_, v_ in assigns.get(attr, []) if v_ is not None]
        # several definitions are one cache when they all compute the same expression (the setter and a refresher)
        if not defs_ or len({norm(v_) for _f, _s, v_ in defs_}) != 1:
            continue
        f_def, st_def, v_def = defs_[0]
        # a parameter / local that is stored as it is into an attribute in the same function stands for that attribute
        # (`self.shaped_masses = masses; self.min_mass = np.min(masses)`): quantities are recognised by their attribute text
        stored_ = {}
        for n_ in walk_no_nested(f_def.node):
            if isinstance(n_, ast.Assign) and isinstance(n_.value, ast.Name) and len(n_.targets) == 1 and isinstance(n_.targets[0], ast.Attribute) \
                    and norm(n_.targets[0].value) == "self" and n_.targets[0].attr != attr:
                stored_[n_.value.id] = n_.targets[0].attr
        if stored_ and any(isinstance(n_, ast.Name) and n_.id in stored_ for n_ in ast.walk(v_def)):
            import copy as _copy

            class _Sub(ast.NodeTransformer):
                def visit_Name(self_, n_):
                    if isinstance(n_.ctx, ast.Load) and n_.id in stored_:
                        return ast.Attribute(value=ast.Name(id="self", ctx=ast.Load()), attr=stored_[n_.id], ctx=ast.Load())
                    return n_

            v_def = ast.fix_missing_locations(_Sub().visit(_copy.deepcopy(v_def)))
        try:
            val = Translator(vocab).tr(v_def)
        except Unsupported:
            continue
        disp_expr = disp_expr.subs(vocab.unknown[txt], val)
        t.env["displacement"] = disp_expr
        if setpos is not None:
            setpos = (setpos[0], sp.sympify(setpos[1]).subs(vocab.unknown[txt], val))
        resolved_caches.add(txt)
        for c_ in list(vocab.unknown):
            pass
        sources = {n_.attr for n_ in ast.walk(v_def) if isinstance(n_, ast.Attribute) and norm(n_.value) == "self"}
        # property-backed sources: the attribute a property getter returns
        extra = set()
        for src in list(sources):
            g = prog.lookup_method(fb, src)
            if g is not None and g.kind == "property":
                for r_ in g.body():
                    if isinstance(r_, ast.Return) and isinstance(r_.value, ast.Attribute) and norm(r_.value.value) == "self":
                        extra.add(r_.value.attr)
        sources |= extra
        refreshers = {f_def.qualname}
        for src in sorted(sources):
            for wf, wst, wv in assigns.get(src, []):
                if wf.name == "__init__":
                    continue
                body_assigns = {n_.attr for x_ in ast.walk(wf.node) if isinstance(x_, (ast.Assign, ast.AnnAssign)) for n_ in ([*x_.targets] if isinstance(x_, ast.Assign) else [x_.target]) if isinstance(n_, ast.Attribute) and norm(n_.value) == "self"}
        for src in sorted(sources):
            for wf, wst, wv in assigns.get(src, []):
                if wf.name == "__init__":
                    continue
                writes = {n_.attr for x_ in walk_no_nested(wf.node) if isinstance(x_, (ast.Assign, ast.AnnAssign)) for n_ in (x_.targets if isinstance(x_, ast.Assign) else [x_.target]) if isinstance(n_, ast.Attribute) and norm(n_.value) == "self"}
                called = {c_.func.attr for c_ in calls_in(wf.node) if isinstance(c_.func, ast.Attribute) and norm(c_.func.value) == "self"}
                set_props = {n_.attr for x_ in walk_no_nested(wf.node) if isinstance(x_, ast.Assign) for n_ in x_.targets if isinstance(n_, ast.Attribute) and norm(n_.value) == "self"}
                fresh = attr in writes or f_def.name in called or (f_def.kind == "setter" and f_def.name in set_props)
                L.check(fresh, "B", f"{wf.qualname}:stale-{attr}", f"{wf.module.relpath}:{wst.lineno}",
                        f"{wf.qualname} changes `self.{src}`, from which the cached `self.{attr}` (defined in {f_def.qualname}) is computed, but does not refresh the cache: ForceBias.step then scales displacements with stale data",
                        f"call {wf.name}(...) after the last assignment that computed self.{attr}: displacement components exceed delta·(m_min/m)^p of the current masses", f"{attr}<-{src}")
    z, D, Mmin, M, p, x = (vocab.sym(n, **a) for n, a in (("z", {"real": True}), ("D", {"positive": True}), ("Mmin", {"positive": True}), ("M", {"positive": True}), ("p", {"real": True}), ("x", {"real": True})))
    if "displacement" not in t.env or setpos is None or setmom is None:
        raise AnalysisError("ForceBias.step: displacement / set_momenta / set_positions not found")
    ref_disp = z * D * (Mmin / M) ** p
    _eq(L, "B", "ForceBias.step:displacement", step.where, t.env["displacement"], ref_disp, "displacement is not zeta·delta·(min(M)/M)^p", vocab=vocab)
    _eq(L, "B", "ForceBias.step:applied", step.where, setpos[1], x + ref_disp, "positions are not advanced by the computed displacement (absent constraints)", vocab=vocab)
    kw = {k.arg: norm(k.value) for k in setpos[0].value.keywords}
    L.check(kw.get("apply_constraint", "True") == "True", "B", "ForceBias.step:set_positions", step.where, "position update bypasses constraints", "", "apply_constraint")

    # ------------------------------------------------------------------ Γ
    vg = Vocabulary({"forces": ("F", {"real": True}), "self.delta": ("D", {"positive": True}), "self.temperature": ("T", {"positive": True}), "kB": ("kB", {"positive": True}),
                     "self.gamma_max_value": ("g", {"positive": True})})
    tg_ = Translator(vg)
    from ..derived import CacheResolver

    g_caches = CacheResolver(prog, fb, vg, lambda _v=vg: Translator(_v))
    tg_.hooks.append(g_caches.hook)
    fparam = cg.params()[1]
    if fparam != "forces":
        vg.table[fparam] = ("F", {"real": True})
    try:
        tg_.run_block(cg.body())
    except Unsupported as exc:
        raise AnalysisError(f"calculate_gamma: {exc}") from exc
    gam = vg.values.get("self.gamma")
    den = vg.values.get("self.denominator")
    if gam is None or den is None:
        raise AnalysisError("calculate_gamma does not assign self.gamma / self.denominator")
    F_, D_, T_, kB_, g_ = (vg.sym(n, **a) for n, a in (("F", {"real": True}), ("D", {"positive": True}), ("T", {"positive": True}), ("kB", {"positive": True}), ("g", {"positive": True})))
    ref_g = sp.Min(sp.Max(F_ * D_ / (2 * kB_ * T_), -g_), g_)
    g_caches.check(L, "Γ", "ForceBias.calculate_gamma", "|gamma| exceeds gamma_max_value for the current delta/temperature: exp(γ) overflows or the step law is not the published one")
    _eq(L, "Γ", "ForceBias.calculate_gamma:gamma", cg.where, gam, ref_g, "gamma is not clip(F·delta/(2·kB·T), −g, g)", vocab=vg)
    _eq(L, "Γ", "ForceBias.calculate_gamma:denominator", cg.where, den, sp.exp(ref_g) - sp.exp(-ref_g), "denominator is not exp(γ) − exp(−γ)", vocab=vg)
    gm = fb.class_attrs.get("gamma_max_value")
    if gm is None or not isinstance(gm, ast.Constant):
        raise AnalysisError("ForceBias.gamma_max_value is not a literal class attribute")
    L.check(0 < gm.value <= float(LN_DBL_MAX), "Γ", "ForceBias.gamma_max_value", fb.where,
            f"gamma_max_value = {gm.value} exceeds ln(DBL_MAX) = 709.7827128…: exp(γ) overflows to inf and the trial probability becomes NaN (the rejection loop never exits)",
            f"|F|·delta/(2kT) ≥ {gm.value}", str(gm.value))

    # ------------------------------------------------------------------ ρ
    for sgn in (1, -1):
        vp = Vocabulary({"self.zeta": ("z", {"real": True}), "self.gamma": ("gam", {"real": True}), "self.denominator": ("den", {"real": True})})
        tt = Translator(vp)
        zsym = vp.sym("z", real=True)
        vp.bind("np.sign(self.zeta)", sp.Integer(sgn))
        divide = {}

        tp_inl = Inliner(tp.node)

        def hook(tr, node, _d=divide):
            if isinstance(node, ast.Call) and norm(node.func) == "np.divide":
                _d["call"] = node
                q = tr.tr(node.args[0]) / tr.tr(node.args[1])
                for k in node.keywords:
                    if k.arg == "out" and isinstance(k.value, ast.Name):
                        tr.env[k.value.id] = q  # in-place form: the output array holds the quotient where the mask is true
                return q
            if isinstance(node, ast.Call) and norm(node.func) == "np.sign" and norm(node.args[0]) == "self.zeta":
                return sp.Integer(sgn)
            return None

        tt.hooks.append(hook)
        try:
            body_tp = []
            for st_ in tp.body():
                if isinstance(st_, ast.Expr) and isinstance(st_.value, ast.Call) and norm(st_.value.func) == "np.divide":
                    tt.tr(st_.value)  # statement form np.divide(..., out=x, where=m)
                    continue
                r_ = tt.run_block([st_])
                if r_ is not None:
                    break
            r = r_
        except Unsupported as exc:
            raise AnalysisError(f"calculate_trial_probability: {exc}") from exc
        if r is None:
            raise AnalysisError("calculate_trial_probability: no return")
        got = tt.tr(r[1])
        gam_s, den_s = vp.sym("gam", real=True), vp.sym("den", real=True)
        if sgn == 1:
            refp = (sp.exp(gam_s) - sp.exp(gam_s * (2 * zsym - 1))) / den_s
        else:
            refp = (sp.exp(gam_s * (2 * zsym + 1)) - sp.exp(-gam_s)) / den_s
        _eq(L, "ρ", f"ForceBias.calculate_trial_probability[sign(ζ)={sgn:+d}]", tp.where, got, refp,
            f"trial probability for ζ{'>' if sgn > 0 else '<'}0 is not the Bal–Neyts expression", vocab=vp)
        if sgn == 1:
            dc = divide.get("call")
            if dc is None:
                L.violation("ρ", "ForceBias.calculate_trial_probability:zero-denominator", tp.where, "division by the denominator is not guarded for zero force (γ = 0 ⇒ denominator 0)",
                            "an atom with exactly zero force: 0/0 = NaN, never accepted, the step never terminates", "divide")
            else:
                kws = {k.arg: tp_inl.inline(k.value) for k in dc.keywords}
                okw = "where" in kws and norm(kws["where"]) in ("self.denominator != 0", "self.denominator != 0.0")
                oko = "out" in kws and isinstance(kws["out"], ast.Call) and norm(kws["out"].func) in ("np.ones_like", "np.ones")
                L.check(okw and oko, "ρ", "ForceBias.calculate_trial_probability:zero-denominator", tp.where,
                        f"zero-denominator branch is `{norm(dc)[:100]}`: where the denominator is 0 the result must be a constant in (0, 1]",
                        "zero force: uninitialised / zero acceptance probability, the rejection loop never exits", norm(dc)[:120])

    # ------------------------------------------------------------------ A
    cfg = build_cfg(step.node)
    loops = [n for n in cfg.nodes if n.kind == "test" and n.label.startswith("while")]
    if len(loops) != 1:
        raise AnalysisError(f"ForceBias.step: expected one rejection loop, found {len(loops)}")
    lp = loops[0]
    re_ = __import__("re")
    m_ = re_.match(r"^not (?:np\.all\((\w+)\)|(\w+)\.all\(\))$", norm(lp.ast))
    m2_ = re_.match(r"^(?:np\.any\((\w+)\)|(\w+)\.any\(\))$", norm(lp.ast))
    accv = (m_.group(1) or m_.group(2)) if m_ else ((m2_.group(1) or m2_.group(2)) if m2_ else None)
    rejected_form = bool(m2_) and not m_  # the loop variable holds the NOT-yet-accepted mask
    L.check(accv is not None, "A", "ForceBias.step:loop-exit", f"{step.module.relpath}:{lp.lineno}",
            f"rejection loop condition is `{norm(lp.ast)}`, not `not np.all(<accepted>)` / `np.any(<rejected>)`", "the step ends with unaccepted components / never ends", norm(lp.ast))
    npaths = 0
    refusals = 0
    for path in cfg.paths(max_back=2, include_exc=False):
        npaths += 1
        sp_nodes = [(i, n) for i, (n, lab) in enumerate(path) if n.kind == "stmt" and any(isinstance(c, ast.Call) and norm(c.func) == "self.atoms.set_positions" for c in ast.walk(n.ast))]
        last_loop = max([i for i, (n, lab) in enumerate(path) if n is lp], default=-1)
        okp = len(sp_nodes) == 1 and sp_nodes[0][0] > last_loop
        if path[-1][0] is cfg.raise_exit and not sp_nodes:
            refusals += 1  # an explicit error raised before the configuration was touched: the step did not happen
            continue
        if not okp:
            L.violation("A", "ForceBias.step:single-advance", step.where, f"a path performs {len(sp_nodes)} position updates (or updates inside the rejection loop)",
                        "the configuration advances twice / before all components are accepted", f"{len(sp_nodes)}")
            break
    else:
        L.ok("A", "ForceBias.step:single-advance", step.where, f"{npaths} paths ({refusals} of them raise before any position write)")
    if accv is None:
        return
    # loop body: masked re-draws only; acceptance P > u
    wl = [s_ for s_ in walk_no_nested(step.node) if isinstance(s_, ast.While)]
    body = wl[0].body
    sinl = Inliner(step.node)
    conv_defs = [s_ for s_ in walk_no_nested(step.node) if isinstance(s_, ast.Assign) and norm(s_.targets[0]) == accv]
    uvar = None
    for s_ in conv_defs:
        v = s_.value
        okacc = False
        negated = False
        if rejected_form:
            # rejected = ~(P > u)  |  np.logical_not(P > u)  |  P <= u
            if isinstance(v, ast.UnaryOp) and isinstance(v.op, (ast.Invert, ast.Not)):
                v, negated = v.operand, True
            elif isinstance(v, ast.Call) and norm(v.func) in ("np.logical_not", "numpy.logical_not") and len(v.args) == 1:
                v, negated = v.args[0], True
        if isinstance(v, ast.Compare) and len(v.ops) == 1:
            l_, r_ = norm(v.left), norm(v.comparators[0])
            gt, lt = (ast.Gt, ast.Lt) if (not rejected_form or negated) else (ast.LtE, ast.GtE)
            if isinstance(v.ops[0], gt) and l_ == "self.calculate_trial_probability()" and isinstance(v.comparators[0], ast.Name):
                okacc, uvar = True, r_
            if isinstance(v.ops[0], lt) and r_ == "self.calculate_trial_probability()" and isinstance(v.left, ast.Name):
                okacc, uvar = True, l_
        if rejected_form and not negated and isinstance(s_.value, ast.Compare) and isinstance(s_.value.ops[0], (ast.Gt, ast.Lt)):
            okacc = False  # `rejected = P > u`: polarity inverted
        L.check(okacc, "A", "ForceBias.step:acceptance", f"{step.module.relpath}:{s_.lineno}",
                f"acceptance test is `{norm(s_.value)}`, not `P_trial > u`", "components are accepted with probability 1 − ρ", norm(s_.value))
    L.floor("acceptance tests in step()", len(conv_defs), 2)
    # names for the negated mask inside the loop
    masks = {accv} if rejected_form else {f"~{accv}"}
    for s_ in body:
        if isinstance(s_, ast.Assign) and isinstance(s_.targets[0], ast.Name) and norm(s_.value) in (f"~{accv}", f"np.logical_not({accv})") and not rejected_form:
            masks.add(s_.targets[0].id)
    for s_ in body:
        if isinstance(s_, ast.Assign):
            tg0 = s_.targets[0]
            if isinstance(tg0, ast.Subscript) and norm(tg0.value) in ("self.zeta", uvar or "?"):
                L.check(norm(tg0.slice) in masks, "A", f"ForceBias.step:redraw[{'zeta' if norm(tg0.value) == 'self.zeta' else 'uniform'}]", f"{step.module.relpath}:{s_.lineno}",
                        f"re-draw writes `{norm(tg0)}`: only not-yet-accepted entries may be re-drawn", "already accepted components are re-drawn: the sampled density changes", norm(s_))
            elif norm(tg0) in ("self.zeta", uvar or "?"):
                L.violation("A", f"ForceBias.step:redraw[{'zeta' if norm(tg0) == 'self.zeta' else 'uniform'}]", f"{step.module.relpath}:{s_.lineno}", f"`{norm(s_)}` re-draws all entries inside the rejection loop", "accepted components are re-drawn", norm(s_))
    ur = [c for c in calls_in(step.node) if norm(c.func) == "self._rng.random"]
    L.check(len(ur) == 2, "A", "ForceBias.step:uniforms", step.where, f"{len(ur)} uniform draws for the acceptance test (expected the initial one and the masked re-draw)", "", "uniforms")
