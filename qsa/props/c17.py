"""C17 — combining moves and operations with + and * is faithful and order-preserving.

The bodies of __add__/__mul__/__rmul__ of the move and operation classes are interpreted by
a checker-owned interpreter (qsa.kindinterp) over model objects; every expression tree over
+ and *n up to a bounded size, with every parenthesisation, is evaluated and compared with
the specification: elements = operands' elementary items in order with multiplicity; result
class = the specialised composite iff all leaves are of one displacement/exchange kind.
"""

from __future__ import annotations

import ast
import copy
import itertools
import os
from concurrent.futures import ProcessPoolExecutor

from ..kindinterp import AliasV, ClsV, Interp, InterpUnsupported, Obj, PyRaise, _Opaque
from ..loader import AnalysisError, ClassInfo, Program, norm, walk_no_nested
from ..report import Ledger


# ----------------------------------------------------------------- tree space
def shapes(n):
    """All binary tree shapes with n leaves: 'L' or (left, right)."""
    if n == 1:
        return ["L"]
    out = []
    for k in range(1, n):
        for a in shapes(k):
            for b in shapes(n - k):
                out.append((a, b))
    return out


def count_nodes(shape):
    return 1 if shape == "L" else 1 + count_nodes(shape[0]) + count_nodes(shape[1])


def decorate(shape, kinds_iter, muls: dict, counter):
    """Build a concrete tree: leaves take kinds from kinds_iter; node #i optionally wrapped in
    ('mul', subtree, n, reflected)."""
    idx = counter[0]
    counter[0] += 1
    if shape == "L":
        t = ("leaf", next(kinds_iter))
    else:
        t = ("add", decorate(shape[0], kinds_iter, muls, counter), decorate(shape[1], kinds_iter, muls, counter))
    if idx in muls:
        n, refl = muls[idx]
        t = ("mul", t, n, refl)
    return t


def tree_text(t, names):
    if t[0] == "leaf":
        return names[t[1]]
    if t[0] == "add":
        return f"({tree_text(t[1], names)} + {tree_text(t[2], names)})"
    inner = tree_text(t[1], names)
    return f"{t[2]} * {inner}" if t[3] else f"{inner} * {t[2]}"


class NotOffered(Exception):
    """The reflected spelling n * x is not offered by that class (the property speaks of a * n)."""


class World:
    def __init__(self, prog: Program, family: str):
        self.prog = prog
        self.family = family
        self.interp = Interp(prog)
        self.uid = 0
        self.operands: list = []
        if family == "move":
            self.comp_base = prog.cls("CompositeMove")
            self.item_attr = "moves"
            self.protos, self.names = self._move_protos()
        else:
            self.comp_base = prog.cls("CompositeOperation")
            self.item_attr = "operations"
            self.protos, self.names = self._op_protos()
        # specialised composites: subclasses of the composite base declared over an element class
        self.special: dict[ClassInfo, ClassInfo] = {}
        for sub in prog.subclasses(self.comp_base, strict=True):
            for be in sub.base_exprs:
                if isinstance(be, ast.Subscript):
                    el = prog.resolve_class(sub.module, be.slice)
                    if isinstance(el, ClassInfo):
                        self.special[el] = sub
        # … or named by the element class itself: `self.composite_move_type = <specialised composite>` in its constructor
        # (the declaration `class X(CompositeMove[El])` is a typing detail; a specialised composite may also be derived
        # from another specialised composite)
        if family == "move":
            for el in prog.subclasses(prog.cls("BaseMove"), strict=True):
                init = el.methods.get("__init__") if hasattr(el, "methods") else None
                node = getattr(init, "node", init)
                if node is None:
                    continue
                for st in ast.walk(node):
                    if (isinstance(st, ast.Assign) and len(st.targets) == 1 and isinstance(st.targets[0], ast.Attribute)
                            and st.targets[0].attr == "composite_move_type" and isinstance(st.value, ast.Name)):
                        sub = prog.resolve_class(el.module, st.value)
                        if isinstance(sub, ClassInfo) and sub is not self.comp_base and self.comp_base in prog.mro(sub):
                            self.special[el] = sub

    def _mk(self, cls_name: str, args, kwargs=None):
        ci = self.prog.cls(cls_name)
        return self.interp.construct(ClsV(ci), args, kwargs or {})

    def _move_protos(self):
        op = _Opaque("labels")
        protos = [
            self._mk("DisplacementMove", [op]),
            self._mk("ExchangeMove", [op]),
            self._mk("CellMove", []),
            self._mk("HamiltonianDisplacementMove", []),
            self._mk("BaseMove", [_Opaque("operation")]),
        ]
        return protos, ["D", "E", "C", "H", "G"]

    def _op_protos(self):
        protos = [self._mk("Box", []), self._mk("Translation", []), self._mk("IsotropicDeformation", [0.05])]
        names = ["Box", "Tr", "Iso"]
        # the degenerate operand: an EMPTY composite (legal: the constructor only warns) contributes no elementary operation
        try:
            protos.append(self._mk("CompositeOperation", [[]]))
            names.append("∅")
        except (PyRaise, InterpUnsupported):
            pass
        return protos, names

    def fresh(self, k: int) -> Obj:
        self.uid += 1
        p = self.protos[k]
        return Obj(p.cls, {k_: (list(v_) if isinstance(v_, list) else v_) for k_, v_ in p.attrs.items()}, self.uid)

    def leaf_kind(self, o: Obj):
        best = None
        for el in self.special:
            if el in self.prog.mro(o.cls):
                if best is None or best in self.prog.mro(el) and best != el:
                    best = el
        return best

    def _snapshot(self, o):
        """An operand's value at the moment it was used: the identities of its elements, in order."""
        if isinstance(o, Obj):
            items = o.attrs.get(self.item_attr)
            if isinstance(items, list):
                self.operands.append((o, [getattr(x, "uid", None) for x in items]))

    def evaluate(self, t):
        """Returns (result, expected_uids, leaves).  Every operand is recorded with its element list at the time of
        use (self.operands): + and * are expressions, their operands must still hold the same elements afterwards."""
        if t[0] == "leaf":
            o = self.fresh(t[1])
            if self.comp_base in self.prog.mro(o.cls) and isinstance(o.attrs.get(self.item_attr), list):
                # a composite used as a leaf (the empty composite): it contributes its elements, i.e. none
                return o, [getattr(x, "uid", None) for x in o.attrs[self.item_attr]], list(o.attrs[self.item_attr])
            return o, [o.uid], [o]
        if t[0] == "add":
            a, ea, la = self.evaluate(t[1])
            b, eb, lb = self.evaluate(t[2])
            self._snapshot(a)
            self._snapshot(b)
            r = self.interp.binop(ast.Add(), a, b, None)
            return r, ea + eb, la + lb
        a, ea, la = self.evaluate(t[1])
        n, refl = t[2], t[3]
        if refl and isinstance(a, Obj) and self.prog.lookup_method(a.cls, "__rmul__") is None:
            raise NotOffered(f"{a.cls.name} does not offer n * x")
        self._snapshot(a)
        r = self.interp.binop(ast.Mult(), n, a, None) if refl else self.interp.binop(ast.Mult(), a, n, None)
        return r, ea * n, la

    def expected_class(self, leaves) -> ClassInfo:
        kinds = {self.leaf_kind(o) for o in leaves}
        if len(kinds) == 1:
            k = next(iter(kinds))
            if k is not None:
                return self.special[k]
        return self.comp_base

    def check_tree(self, t):
        """None if the tree conforms, else (what, detail)."""
        self.interp.steps = 0
        self.operands = []
        try:
            r, exp, leaves = self.evaluate(t)
        except NotOffered:
            return None
        except PyRaise as e:
            return "raises", f"{e.exc_type}"
        if not isinstance(r, Obj) or self.comp_base not in self.prog.mro(r.cls):
            return "not-composite", f"result is {r!r}"
        items = r.attrs.get(self.item_attr)
        if not isinstance(items, list) or not all(isinstance(x, Obj) for x in items):
            return "elements", f"result.{self.item_attr} is {items!r}"
        got = [x.uid for x in items]
        if got != exp:
            return "elements", f"elements are {got}, expected {exp} (operands' elementary items in order with multiplicity)"
        want = self.expected_class(leaves)
        if r.cls != want:
            return "class", f"result class is {r.cls.name}, expected {want.name}"
        # the operands (leaves and intermediate results) still hold what they held when they were used
        for o, before in self.operands:
            now = [getattr(x, "uid", None) for x in o.attrs.get(self.item_attr, [])]
            if now != before:
                return "operand-mutated", f"an operand of class {o.cls.name} held elements {before} when it was used and holds {now} after the expression was evaluated: + / * changed one of their operands in place (or the result shares its element list with an operand that a later operation extends)"
        return None


def enumerate_trees(nkinds: int, max_leaves: int, muls_for_leaves):
    """muls_for_leaves(L) -> maximum number of *n decorations for trees with L leaves."""
    for L in range(1, max_leaves + 1):
        for shape in shapes(L):
            nn = count_nodes(shape)
            for kinds in itertools.product(range(nkinds), repeat=L):
                mul_choices = [{}]
                for m in range(1, muls_for_leaves(L) + 1):
                    for nodes in itertools.combinations(range(nn), m):
                        for ns in itertools.product([(1, False), (2, False), (3, False), (2, True)], repeat=m):
                            mul_choices.append(dict(zip(nodes, ns)))
                for muls in mul_choices:
                    if L == 1 and not muls:
                        continue
                    yield decorate(shape, iter(kinds), muls, [0])


def _chunk_worker(args):
    repo, family, trees = args
    prog = Program(repo)
    w = World(prog, family)
    bad = []
    for t in trees:
        try:
            r = w.check_tree(t)
        except InterpUnsupported as exc:
            return ("unsupported", str(exc)), len(trees)
        if r is not None:
            bad.append((tree_text(t, w.names), r))
            if len(bad) > 50:
                break
    return bad, len(trees)


def run(prog: Program, L: Ledger) -> None:
    L.explanation = (
        "C17 decided by interpreting the __add__/__mul__/__rmul__ bodies (and the __init__ chains that set composite_move_type) "
        "with a checker-owned interpreter over model objects — elementary items carrying their class and composite type, composites "
        "carrying an element list, class values distinguishing classes, subscripted generic aliases and the metaclass — and evaluating "
        "EVERY expression tree over + and *n (n∈{1,2,3}, also reflected n*x) up to the stated bound with every parenthesisation. Each "
        "result is compared with the specification: element identities in order with multiplicity; specialised composite iff all leaves "
        "are of one displacement or one exchange kind (the specialised composites and their element classes are read from the class "
        "declarations). Invalid n (0, negative, non-integer) must raise. CompositeMove.__call__ must apply any() to a list built by one "
        "call per child in order."
    )
    L.rule("A1", "for every expression tree within the bound: composite elements = operands' elementary items in order with multiplicity")
    L.rule("A2", "for every expression tree within the bound: result class is the specialised composite iff all leaves are of one displacement / one exchange kind, else the plain composite")
    L.rule("A3", "x * n and n * x raise for n = 0, negative, non-integer, for elementary and composite operands")
    L.rule("A4", "CompositeMove.__call__ calls each element once, in order, without short-circuit, and returns any(results)")
    L.rule("A5", "no comparison `type(X) is ...` where X is statically a class object (the left side is then the metaclass)")

    quick = L.tier == "quick"
    total = 0
    for family in ("move", "operation"):
        try:
            w = World(prog, family)
        except PyRaise as e:
            raise AnalysisError(f"cannot build model {family} objects: {e.exc_type} {e.msg}") from e
        nk = len(w.protos)
        if quick:
            max_leaves, max_muls = 4, 1
            mfl = lambda n: 1 if n <= 3 else 0  # noqa: E731
        else:
            max_leaves, max_muls = 5, 2
            mfl = lambda n: 2 if n <= 3 else (1 if n == 4 else 0)  # noqa: E731
        trees = list(enumerate_trees(nk, max_leaves, mfl))
        total += len(trees)
        # leaves' composite types as seen by the interpreter (evidence)
        L.extra.setdefault("composite_types", {})[family] = {
            n: _cm(p) for n, p in zip(w.names, w.protos)
        }
        if quick or len(trees) < 4000:
            chunks = [trees]
        else:
            nproc = min(16, os.cpu_count() or 4)
            size = (len(trees) + nproc * 4 - 1) // (nproc * 4)
            chunks = [trees[i:i + size] for i in range(0, len(trees), size)]
        results = []
        if len(chunks) == 1:
            bad = []
            for t in trees:
                r = w.check_tree(t)
                if r is not None:
                    bad.append((tree_text(t, w.names), r))
            results.append((bad, len(trees)))
        else:
            with ProcessPoolExecutor(max_workers=min(16, len(chunks))) as ex:
                results = list(ex.map(_chunk_worker, [(prog.repo, family, c) for c in chunks]))
        seen = set()
        nbad = 0
        for bad, n in results:
            if isinstance(bad, tuple) and bad and bad[0] == "unsupported":
                raise AnalysisError(f"{family} algebra: {bad[1]}")
            for text, (what, detail) in bad:
                nbad += 1
                rule = "A2" if what == "class" else "A1"
                key = (rule, what, _signature(text))
                if key in seen:
                    continue
                seen.add(key)
                if len(seen) <= 12:
                    cons = f"{family}:{_blame(prog, family, what, text)}"
                    L.violation(rule, cons, _where(prog, family), f"`{text}`: {detail}", f"expression {text}", what)
        if nbad == 0:
            L.ok("A1", f"{family}:all-trees", _where(prog, family), f"{len(trees)} trees")
            L.ok("A2", f"{family}:all-trees", _where(prog, family), f"{len(trees)} trees")
        L.extra.setdefault("trees", {})[family] = {"count": len(trees), "max_leaves": max_leaves, "max_muls": max_muls, "nonconforming": nbad}

        # ---- A3 invalid multipliers
        comp_samples = []
        for k in range(nk):
            comp_samples.append(("leaf", k))
        comp_samples.append(("add", ("leaf", 0), ("leaf", 0)))
        comp_samples.append(("add", ("leaf", 0), ("leaf", min(2, nk - 1))))
        for base in comp_samples:
            for n in (0, -1, 2.5, "2", 2.0, 1.0):
                for refl in (False, True):
                    try:
                        o, _, _ = w.evaluate(base)
                        if refl and prog.lookup_method(o.cls, "__rmul__") is None:
                            continue
                        if refl:
                            r = w.interp.binop(ast.Mult(), n, o, None)
                        else:
                            r = w.interp.binop(ast.Mult(), o, n, None)
                        raised = False
                    except PyRaise:
                        raised = True
                    txt = tree_text(base, w.names)
                    expr = f"{n!r} * {txt}" if refl else f"{txt} * {n!r}"
                    L.check(raised, "A3", f"{family}:{o.cls.name}.__{'r' if refl else ''}mul__[n={n!r}]", _where(prog, family),
                            f"`{expr}` does not raise: " + ("a composite with no elements is built" if n in (0, -1) and not isinstance(n, float) else "a repeat count that is not an integer is accepted"),
                            expr, f"n={n!r}")
    L.extra["trees_total"] = total
    L.floor("expression trees evaluated", total, 2000)

    # ---------------------------------------------------------------- A4
    # CompositeMove.__call__ evaluated by the checker-owned interpreter on stand-in children with every result vector
    from itertools import product

    from ..kindinterp import Stub

    cm = prog.cls("CompositeMove")
    call = cm.methods.get("__call__")
    if call is None:
        raise AnalysisError("CompositeMove.__call__ missing")
    bad = None
    bad_history = ""
    n_runs = 0
    for k in range(0, 4):
        for results in product((False, True), repeat=k):
            log: list = []
            it = Interp(prog)
            children = [Stub(f"child{i}", r, log) for i, r in enumerate(results)]
            try:
                # the composite as its own constructor leaves it (every attribute __init__ sets, private ones included)
                me = it.construct(ClsV(cm), [children])
                if me.attrs.get("moves") is not children:
                    me.attrs["moves"] = children
            except (PyRaise, InterpUnsupported):
                me = Obj(cm)
                me.attrs["moves"] = children
            ctx = Obj(prog.cls("Context"))
            try:
                got = it.call_function(call, [me, ctx], {})
            except PyRaise as exc:
                got = f"raises {exc.exc_type}"
            n_runs += 1
            names = [c[0] for c in log]
            args_ok = all(len(c[1]) == 1 and c[1][0] is ctx and not c[2] for c in log)
            want = any(results)
            if names != [f"child{i}" for i in range(k)] or not args_ok or not (isinstance(got, bool) and got == want):
                if bad is None:
                    bad = (results, names, got, want)
                continue
            # the same composite called again after its element list was changed in place (an element replaced at the same
            # length, then one appended): what is called is what the list holds *now*
            if k >= 1 and bad is None:
                for change in ("replace", "append"):
                    del log[:]
                    lst = me.attrs["moves"]
                    if change == "replace":
                        lst[0] = Stub("new0", not results[0], log)
                    else:
                        lst.append(Stub("extra", False, log))
                    try:
                        got2 = it.call_function(call, [me, ctx], {})
                    except PyRaise as exc:
                        got2 = f"raises {exc.exc_type}"
                    n_runs += 1
                    names2 = [c[0] for c in log]
                    want_names = [x.name for x in lst]
                    want2 = any(x.result for x in lst)
                    if names2 != want_names or not (isinstance(got2, bool) and got2 == want2):
                        bad = (tuple(x.result for x in lst), names2, got2, want2)
                        bad_history = f"second call after `moves` was changed in place ({change}): expected [{', '.join(want_names)}]; "
                        break
    detail = ""
    if bad is not None:
        results, names, got, want = bad
        called = ", ".join(names) or "none"
        detail = (bad_history + f"children returning {list(results)}: called [{called}] and returned {got!r}; expected every child called once in order with the context and the result {want}"
                  + (" (any() over a generator short-circuits: elements after the first success are not called)" if len(names) < len(results) else ""))
    L.check(bad is None, "A4", "CompositeMove.__call__", call.where, detail, "composite of a failing and a succeeding move / two succeeding moves", "call")
    L.extra["a4_runs"] = n_runs
    # subclasses overriding __call__ are the specialised composites (their guarantees are C05/C11)

    # ---------------------------------------------------------------- A5
    for fi in prog.iter_functions():
        if fi.name not in ("__add__", "__mul__", "__radd__", "__rmul__"):
            continue
        for n in walk_no_nested(fi.node):
            if isinstance(n, ast.Compare):
                for side in [n.left] + n.comparators:
                    if isinstance(side, ast.Call) and norm(side.func) == "type" and len(side.args) == 1:
                        arg = norm(side.args[0])
                        if arg.endswith("composite_move_type") or arg.endswith("__class__"):
                            L.violation("A5", f"{fi.qualname}", f"{fi.module.relpath}:{n.lineno}",
                                        f"`{norm(n)}` takes type() of a class object: the result is the metaclass, so the comparison is constant",
                                        "the specialised branch is dead: a + (b + c) yields a plain composite", norm(n))
    L.ok("A5", "dispatch-functions", "src/quansino", "scanned")


def family_dispatch(prog: Program, leaf: str, max_leaves: int = 4):
    """Result classes of every +/* expression over one move kind (used by C11/C05: their composite guarantees hold
    for the *specialised* composite only).  Returns [(expression text, result class name | 'raises …')]."""
    w = World(prog, "move")
    k = w.names.index(leaf)
    out = []
    for n in range(2, max_leaves + 1):
        for shp in shapes(n):
            t = decorate(shp, iter([k] * n), {}, [0])
            try:
                r, _exp, _leaves = w.evaluate(t)
                out.append((tree_text(t, w.names), r.cls.name if isinstance(r, Obj) else repr(r)))
            except PyRaise as exc:
                out.append((tree_text(t, w.names), f"raises {exc.exc_type}"))
    for n_mul in (2, 3):
        for t in (("mul", ("leaf", k), n_mul, False), ("add", ("leaf", k), ("mul", ("leaf", k), n_mul, False)), ("add", ("mul", ("leaf", k), n_mul, False), ("leaf", k))):
            try:
                r, _exp, _leaves = w.evaluate(t)
                out.append((tree_text(t, w.names), r.cls.name if isinstance(r, Obj) else repr(r)))
            except PyRaise as exc:
                out.append((tree_text(t, w.names), f"raises {exc.exc_type}"))
    return out


def _cm(p: Obj) -> str:
    v = p.attrs.get("composite_move_type")
    if isinstance(v, ClsV):
        return v.name
    if isinstance(v, AliasV):
        return f"{v.origin.name}[{v.args}]"
    return "-"


def _signature(text: str) -> str:
    """Collapse a tree text to its operator skeleton for de-duplicating reports."""
    return "".join(ch for ch in text if ch in "()+*DECHG")[:40]


def _blame(prog: Program, family: str, what: str, text: str) -> str:
    return ("BaseMove/CompositeMove" if family == "move" else "BaseOperation/CompositeOperation") + f".__add__/__mul__[{what}:{_signature(text)}]"


def _where(prog: Program, family: str) -> str:
    c = prog.cls("BaseMove" if family == "move" else "BaseOperation")
    f = c.methods.get("__add__")
    return f.where if f else c.where
