"""C19 — reinsertion inverts deletion; molecule search partitions atoms by bonds.

R1 reinsert_atoms: for *every* existing per-atom array a new array of length len(atoms)+len(new), with
   the trailing shape of the source and the dtype of the *existing* array, receives the kept rows under
   the complement mask of `indices` and the re-inserted rows under `indices`; arrays present only in
   the re-inserted atoms are added
R2 search_molecules: the default array is used whenever it is given (finite case analysis None /
   one-element / multi-element array; no truth test on an array), labels are written only for
   components passing the inclusive size filter, from an enumeration starting at 0; connectivity comes
   from ASE's neighbour list without self-interaction and is fed to networkx's connected components
"""

from __future__ import annotations

import ast

from ..cases import AV, ArrayTruth, CaseEval, Undecided
from ..dataflow import Inliner
from ..loader import AnalysisError, Program, calls_in, norm, walk_no_nested
from ..minieval import PredUnsupported, ev
from ..report import Ledger
from ..truthy import scan_function


def check_reinsert(prog: Program, L: Ledger, rule: str) -> None:
    """reinsert_atoms has the scatter/gather shape that inverts `del atoms[indices]`."""
    mod = f"{prog.package}.utils.atoms"
    ri = prog.func(mod, "reinsert_atoms")
    rel = ri.module.relpath

    # ------------------------------------------------------------------ R1
    p_atoms, p_new, p_idx = ri.params()[:3]
    inl = Inliner(ri.node)
    loops = [s for s in ri.body() if isinstance(s, ast.For)]
    if len(loops) != 2:
        raise AnalysisError(f"reinsert_atoms: expected two loops (existing arrays, new-only arrays), found {len(loops)}")
    l1, l2 = loops
    it1 = norm(l1.iter)
    L.check(it1 in (f"{p_atoms}.arrays", f"{p_atoms}.arrays.keys()", f"list({p_atoms}.arrays)", f"list({p_atoms}.arrays.keys())"), rule, "reinsert_atoms:all-arrays", f"{rel}:{l1.lineno}",
            f"first loop iterates `{it1}`, not every per-atom array of the target", "an array (tags, momenta, charges, custom) keeps its shortened length: Atoms becomes inconsistent", it1)
    name = norm(l1.target)
    body1 = l1.body
    # source array
    src_asg = [s for s in body1 if isinstance(s, ast.Assign) and isinstance(s.targets[0], ast.Name) and ("get_masses" in norm(s.value) or f"{p_new}.arrays" in norm(s.value))]
    if len(src_asg) != 1:
        raise AnalysisError("reinsert_atoms: source-array assignment not found")
    src = src_asg[0]
    src_name = src.targets[0].id
    st = norm(src.value)
    L.check(f"{p_new}.arrays.get({name}" in st or f"{p_new}.arrays[{name}]" in st or f"{p_new}.get_array({name}" in st, rule, "reinsert_atoms:source", f"{rel}:{src.lineno}",
            f"re-inserted rows come from `{st[:90]}`, not from the removed atoms' array of the same name", "re-inserted atoms get values of another array", st[:120])
    # new array
    na = [s for s in body1 if isinstance(s, ast.Assign) and isinstance(s.value, ast.Call) and norm(s.value.func) in ("np.zeros", "np.empty", "np.full")]
    if len(na) != 1:
        raise AnalysisError("reinsert_atoms: new-array allocation not found")
    alloc = na[0]
    new_name = norm(alloc.targets[0])
    shape = alloc.value.args[0]
    kws = {k.arg: k.value for k in alloc.value.keywords}
    dtype = kws.get("dtype")
    if dtype is None and len(alloc.value.args) > 1 and norm(alloc.value.func) != "np.full":
        dtype = alloc.value.args[1]
    L.check(dtype is not None and norm(dtype) == f"{p_atoms}.arrays[{name}].dtype", rule, "reinsert_atoms:dtype", f"{rel}:{alloc.lineno}",
            f"new array dtype is `{norm(dtype) if dtype is not None else 'float64 (default)'}`, not the dtype of the existing array",
            "integer arrays (numbers, tags) come back as floats, or the re-inserted atoms' dtype wins", norm(alloc.value)[:120])
    okshape = False
    if isinstance(shape, ast.Tuple) and len(shape.elts) == 2 and isinstance(shape.elts[1], ast.Starred):
        first = norm(inl.inline(shape.elts[0]))
        rest = norm(shape.elts[1].value)
        okshape = first in (f"len({p_atoms}) + len({p_new})", f"len({p_new}) + len({p_atoms})") and rest == f"{src_name}.shape[1:]"
    L.check(okshape, rule, "reinsert_atoms:shape", f"{rel}:{alloc.lineno}", f"new array shape is `{norm(shape)[:80]}`, not (len(atoms)+len(new), *source.shape[1:])",
            "2-D arrays (positions, momenta, custom) lose their trailing shape / length mismatch", norm(shape)[:100])
    # mask
    masks = [s for s in body1 if isinstance(s, ast.Assign) and isinstance(s.value, ast.Call) and norm(s.value.func) == "np.ones" and "bool" in norm(s.value)]
    if len(masks) != 1:
        raise AnalysisError("reinsert_atoms: boolean mask allocation not found")
    mname = norm(masks[0].targets[0])
    stores = [s for s in body1 if isinstance(s, ast.Assign) and isinstance(s.targets[0], ast.Subscript)]
    texts = [norm(s) for s in stores]
    want = [f"{mname}[{p_idx}] = False", f"{new_name}[{mname}] = {p_atoms}.arrays[{name}]", f"{new_name}[{p_idx}] = {src_name}", f"{p_atoms}.arrays[{name}] = {new_name}"]
    for w in want:
        L.check(w in texts, rule, f"reinsert_atoms:{w.split(' = ')[0]}", f"{rel}:{l1.lineno}",
                f"missing scatter step `{w}` (found: {texts})", "kept rows and re-inserted rows are not placed at complementary positions: the original order is not restored", w)
    if all(w in texts for w in want):
        order = [texts.index(w) for w in want]
        L.check(order == sorted(order), rule, "reinsert_atoms:order", f"{rel}:{l1.lineno}", "scatter steps are out of order", "", "order")
    extra = [t for t in texts if t not in want]
    L.check(not extra, rule, "reinsert_atoms:extra-stores", f"{rel}:{l1.lineno}", f"unexpected stores {extra}", "", ";".join(extra))
    # second loop: new-only arrays
    it2 = norm(l2.iter)
    ok2 = it2 == f"{p_new}.arrays.items()" and any(isinstance(s, ast.If) and norm(s.test) == f"{norm(l2.target.elts[0])} not in {p_atoms}.arrays" for s in l2.body)
    L.check(ok2, rule, "reinsert_atoms:new-only-arrays", f"{rel}:{l2.lineno}", "arrays present only in the re-inserted atoms are not added", "a per-atom array carried only by the removed atoms is lost", it2)



def run(prog: Program, L: Ledger) -> None:
    L.explanation = (
        "C19 decided on utils/atoms.py by dataflow rules: reinsert_atoms is checked for the scatter/gather shape that makes it the "
        "inverse of deletion for any index set in any order (every existing array; result length; trailing shape; dtype of the existing "
        "array; kept rows under the complement mask, re-inserted rows under the indices, in that pairing; arrays only present in the "
        "re-inserted atoms added). search_molecules is decided by finite case analysis of the default-array handling (None / array: an "
        "array is never truth-tested and is what the result starts from), the inclusive size filter is compared with the reference "
        "predicate on a bounded domain, and labels come from an enumeration of networkx's connected components of the symmetric "
        "neighbour-list connectivity. Trusted: the scatter/gather lemma, ASE's neighbour list, networkx's components."
    )
    L.rule("R1", "reinsert_atoms: all arrays; length len(atoms)+len(new); trailing shape of the source; dtype of the existing array; complement-mask scatter of kept rows, indices scatter of new rows; new-only arrays added")
    L.rule("R2", "search_molecules: default array honoured for every array (never truth-tested); inclusive size filter; labels from enumerate(connected components); neighbour list without self-interaction")
    L.assume("numpy boolean-mask / integer-index assignment scatters rows in index order (so any index order works)")
    L.assume("ase.neighborlist.neighbor_list('ij', ...) returns symmetric within-cutoff pairs; networkx.connected_components partitions the graph")

    check_reinsert(prog, L, "R1")
    mod = f"{prog.package}.utils.atoms"
    sm = prog.func(mod, "search_molecules")

    # ------------------------------------------------------------------ R2
    rel2 = sm.module.relpath
    dparam = "default_array"
    if dparam not in sm.params():
        raise AnalysisError("search_molecules: parameter default_array missing")
    for site in scan_function(prog, sm):
        if site.verdict in ("ndarray", "optnum") and ("default_array" in norm(site.expr) or site.verdict == "ndarray"):
            L.violation("R2", "search_molecules:truthiness", f"{rel2}:{site.expr.lineno}", f"`{norm(site.expr)}` is truth-tested ({site.type_text})", site.witness, norm(site.expr))
    mol = [s for s in sm.body() if isinstance(s, (ast.Assign, ast.AnnAssign)) and norm(s.targets[0] if isinstance(s, ast.Assign) else s.target) == "molecules"]
    if len(mol) != 1:
        raise AnalysisError("search_molecules: single definition of `molecules` expected")
    mexpr = mol[0].value
    for case, av in (("None", AV("none", "default_array")), ("array of length 1 (e.g. [0])", AV("array1", "default_array")), ("array of length N", AV("arrayN", "default_array"))):
        ce = CaseEval({"default_array": av})
        cons = f"search_molecules[default_array={case.split(' (')[0]}]"
        try:
            # statements before the definition may normalise the default
            pre = sm.body()[: sm.body().index(mol[0])]
            ce.run([s for s in pre if isinstance(s, (ast.Assign, ast.If)) and "default_array" in norm(s)])
            got = ce.ev(mexpr)
        except ArrayTruth:
            L.violation("R2", cons, f"{rel2}:{mol[0].lineno}", f"`{norm(mexpr)[:90]}` takes the truth value of the default array: ValueError for any array with more than one element",
                        "search_molecules(atoms, cutoff, default_array=np.full(len(atoms), -1)) raises", norm(mexpr)[:120])
            continue
        except Undecided as exc:
            if av.kind == "array1":
                # truth of a one-element array is its element's: whichever way, taking it is the defect
                L.violation("R2", cons, f"{rel2}:{mol[0].lineno}", f"`{norm(mexpr)[:90]}` takes the truth value of the default array", "default_array=[0] is replaced by the fallback", norm(mexpr)[:120])
                continue
            raise AnalysisError(f"search_molecules default handling, case {case}: {exc}") from exc
        if av.kind == "none":
            L.check(got.origin is None, "R2", cons, f"{rel2}:{mol[0].lineno}", "without a default the result must start from a fresh array", "", norm(mexpr)[:100])
        else:
            L.check(got.origin == "default_array", "R2", cons, f"{rel2}:{mol[0].lineno}",
                    f"with a default array the result starts from `{got}` instead of the supplied default", "atoms outside admitted molecules do not keep the supplied default", norm(mexpr)[:120])
    # fallback fill value −1 / size
    # size filter + label store
    stores = []
    for n in walk_no_nested(sm.node):
        if isinstance(n, ast.Assign) and isinstance(n.targets[0], ast.Subscript) and norm(n.targets[0].value) == "molecules":
            stores.append(n)
    if len(stores) != 1:
        raise AnalysisError(f"search_molecules: expected one store into molecules, found {len(stores)}")
    store = stores[0]
    guard = None
    loop = None
    for n in walk_no_nested(sm.node):
        if isinstance(n, ast.For) and any(x is store for x in ast.walk(n)):
            loop = n
        if isinstance(n, ast.If) and any(x is store for x in n.body):
            guard = n
    if loop is None:
        raise AnalysisError("search_molecules: label store is not inside the component loop")
    if guard is None:
        L.violation("R2", "search_molecules:size-filter", f"{rel2}:{store.lineno}", "labels are written for every component, ignoring required_size", "components of the wrong size are labelled", norm(store))
    else:
        bad = None
        try:
            for lo in range(0, 4):
                for hi in range(lo, 5):
                    for sz in range(0, 6):
                        env = {"required_size[0]": lo, "required_size[1]": hi, "molecule_array.size": sz, "len(mol)": sz, "len(molecule_array)": sz}
                        got = bool(ev(_subst_subscripts(guard.test), env))
                        if got != (lo <= sz <= hi):
                            bad = (lo, hi, sz, got)
        except PredUnsupported as exc:
            raise AnalysisError(f"search_molecules size filter: {exc}") from exc
        L.check(bad is None, "R2", "search_molecules:size-filter", f"{rel2}:{guard.lineno}",
                f"size filter `{norm(guard.test)}` is not the inclusive range test" + (f": bounds ({bad[0]}, {bad[1]}), size {bad[2]} -> {bad[3]}" if bad else ""),
                (f"required_size=({bad[0]}, {bad[1]}) and a component of {bad[2]} atoms" if bad else ""), norm(guard.test))
    # enumeration from 0 over connected components of from_numpy_array(connectivity)
    it = loop.iter
    oken = isinstance(it, ast.Call) and norm(it.func) == "enumerate" and len(it.args) == 1 and not it.keywords and isinstance(it.args[0], ast.Call) and norm(it.args[0].func) == "nx.connected_components"
    L.check(oken, "R2", "search_molecules:enumeration", f"{rel2}:{loop.lineno}", f"components are labelled by `{norm(it)[:80]}`, not enumerate(nx.connected_components(...)) from 0", "labels negative or shared between components", norm(it)[:100])
    if oken:
        lab = norm(loop.target.elts[0]) if isinstance(loop.target, ast.Tuple) else None
        L.check(lab is not None and norm(store.value) == lab, "R2", "search_molecules:label-value", f"{rel2}:{store.lineno}", f"stored label `{norm(store.value)}` is not the enumeration index", "two molecules share a label", norm(store))
        g = it.args[0].args[0]
        L.check(isinstance(g, ast.Call) and norm(g.func) == "nx.from_numpy_array" and norm(g.args[0]) == "connectivity", "R2", "search_molecules:graph", f"{rel2}:{loop.lineno}", "graph is not built from the connectivity matrix", "", norm(g)[:80])
    nl = [c for c in calls_in(sm.node) if norm(c.func) == "neighbor_list"]
    oknl = len(nl) == 1 and norm(nl[0].args[0]) == "'ij'" and any(k.arg == "self_interaction" and norm(k.value) == "False" for k in nl[0].keywords) and any(k.arg == "cutoff" and norm(k.value) == "cutoff" for k in nl[0].keywords)
    L.check(oknl, "R2", "search_molecules:neighbour-list", f"{rel2}:{nl[0].lineno if nl else sm.node.lineno}", "neighbour list is not neighbor_list('ij', atoms, cutoff=cutoff, self_interaction=False)", "self-bonds / wrong cutoff change the components", norm(nl[0])[:100] if nl else "")
    cs = [s for s in sm.body() if isinstance(s, ast.Assign) and isinstance(s.targets[0], ast.Subscript) and norm(s.targets[0].value) == "connectivity"]
    okc = len(cs) == 1 and norm(cs[0].targets[0].slice) in ("(indices, neighbors)",) and norm(cs[0].value) == "1"
    L.check(okc, "R2", "search_molecules:connectivity", f"{rel2}:{cs[0].lineno if cs else sm.node.lineno}", "connectivity[i, j] = 1 for every neighbour pair not found", "", norm(cs[0]) if cs else "")
    rets = [s for s in sm.body() if isinstance(s, ast.Return)]
    L.check(len(rets) == 1 and norm(rets[0].value) == "molecules", "R2", "search_molecules:return", f"{rel2}:{rets[0].lineno if rets else sm.node.lineno}", "does not return the label array", "", "return")


def _subst_subscripts(e: ast.expr) -> ast.expr:
    """minieval looks names/attributes up by text; map `required_size[0]` style subscripts too."""
    import copy

    class T(ast.NodeTransformer):
        def visit_Subscript(self, node):
            return ast.Name(id=norm(node), ctx=ast.Load())

        def visit_Call(self, node):
            if norm(node.func) == "len":
                return ast.Name(id=norm(node), ctx=ast.Load())
            return self.generic_visit(node)

    return T().visit(copy.deepcopy(e))
