"""C19 — reinsertion inverts deletion; molecule search partitions atoms by bonds.

R1 reinsert_atoms: for *every* existing per-atom array a new array of length len(atoms)+len(new), with
   the trailing shape of the source and the dtype of the *existing* array, receives the kept rows under
   the complement mask of `indices` and the re-inserted rows under `indices`; arrays present only in
   the re-inserted atoms are added
R2 search_molecules: the default array is used whenever it is given (finite case analysis None /
   one-element / multi-element array; no truth test on an array), labels are written only for
   components passing the inclusive size filter, from an enumeration starting at 0; connectivity comes
   from ASE's neighbour list without self-interaction and is fed to networkx's connected components
"""

from __future__ import annotations

import ast

from ..cases import AV, ArrayTruth, CaseEval, Undecided
from ..dataflow import Inliner
from ..loader import AnalysisError, Program, calls_in, norm, walk_no_nested
from ..minieval import PredUnsupported, Raises, ev, run_stmts
from ..report import Ledger
from ..rowtrack import RowTracker as _Reinsert
from ..truthy import scan_function


_ASARRAY = ("np.asarray", "np.array", "np.asanyarray", "numpy.asarray", "numpy.array", "np.ascontiguousarray")


def _unwrap_arr(e):
    while isinstance(e, ast.Call) and norm(e.func) in _ASARRAY and e.args:
        e = e.args[0]
    return e


def _perm_key(sl, p_idx):
    """`np.argsort(<indices>)` / `<indices>.argsort()` (through np.asarray): the sorting permutation of the index list"""
    if isinstance(sl, ast.Call):
        fn = norm(sl.func)
        if fn in ("np.argsort", "numpy.argsort") and sl.args and isinstance(_unwrap_arr(sl.args[0]), ast.Name) and _unwrap_arr(sl.args[0]).id == p_idx:
            if all(k.arg in ("kind", "axis", "stable") for k in sl.keywords) and len(sl.args) == 1:
                return "argsort"
        if isinstance(sl.func, ast.Attribute) and sl.func.attr == "argsort" and isinstance(_unwrap_arr(sl.func.value), ast.Name) and _unwrap_arr(sl.func.value).id == p_idx \
                and not sl.args and all(k.arg in ("kind", "stable") for k in sl.keywords):
            return "argsort"
    return None


def _canon_selector(text, p_idx):
    """(canonical selector text, permutation or None): `np.asarray(idx)` addresses the rows `idx` does; `idx[argsort(idx)]`
    / `np.sort(idx)` address the same rows in ascending order"""
    try:
        e = ast.parse(text, mode="eval").body
    except SyntaxError:
        return text, None
    e = _unwrap_arr(e)
    if isinstance(e, ast.Name):
        return e.id, None
    if isinstance(e, ast.Subscript) and isinstance(_unwrap_arr(e.value), ast.Name) and _unwrap_arr(e.value).id == p_idx and _perm_key(e.slice, p_idx):
        return p_idx, _perm_key(e.slice, p_idx)
    if isinstance(e, ast.Call) and norm(e.func) in ("np.sort", "numpy.sort", "sorted") and len(e.args) == 1 and isinstance(_unwrap_arr(e.args[0]), ast.Name) and _unwrap_arr(e.args[0]).id == p_idx \
            and all(k.arg in ("kind", "stable") for k in e.keywords):
        return p_idx, "argsort"
    return text, None


def _canon_source(text, p_idx, p_new):
    """(source text with the sorting permutation stripped, occurrences of the removed atoms that carry it, occurrences that
    do not).  `new[perm].arrays.get(k)` and `new.arrays.get(k)[perm]` are the rows of `new.arrays.get(k)` in sorted order."""
    try:
        e = ast.parse(text, mode="eval").body
    except SyntaxError:
        return text, [], []
    permuted, plain = [], []

    class T(ast.NodeTransformer):
        def __init__(self):
            self.inside = 0

        def visit_Subscript(self, node):
            if _perm_key(node.slice, p_idx) and any(isinstance(n, ast.Name) and n.id == p_new for n in ast.walk(node.value)):
                self.inside += 1
                v = self.visit(node.value)
                self.inside -= 1
                return v
            return self.generic_visit(node)

        def visit_Name(self, node):
            if node.id == p_new:
                (permuted if self.inside else plain).append(node)
            return node

    e2 = T().visit(e)
    # the row sources proper: `len(new)` and shape queries do not depend on the order
    return norm(e2), permuted, plain


def check_reinsert(prog: Program, L: Ledger, rule: str) -> None:
    """reinsert_atoms has the scatter/gather shape that inverts `del atoms[indices]`."""
    from ..normalize import flat

    mod = f"{prog.package}.utils.atoms"
    ri0 = prog.func(mod, "reinsert_atoms")
    ri = flat(prog, ri0, None, keep=("reinsert_atoms",))
    rel = ri0.module.relpath

    # ------------------------------------------------------------------ R1
    p_atoms, p_new, p_idx = ri.params()[:3]
    body = [s for s in ri.body() if not (isinstance(s, ast.Expr) and isinstance(s.value, ast.Constant))]
    loops = [s for s in body if isinstance(s, ast.For)]
    if len(loops) == 1 and norm(loops[0].iter).startswith(f"{p_new}.arrays"):
        L.violation(rule, "reinsert_atoms:all-arrays", f"{rel}:{ri0.node.lineno}", "no loop over every per-atom array of the target: only a fixed selection of arrays is rebuilt",
                    "an array (tags, momenta, charges, custom) keeps its shortened length: Atoms becomes inconsistent", "all-arrays")
        return
    if len(loops) != 2:
        raise AnalysisError(f"reinsert_atoms: expected two loops (existing arrays, new-only arrays), found {len(loops)}")
    l1, l2 = loops
    if any(isinstance(s, (ast.Return, ast.Raise)) for s in walk_no_nested(ri.node) if not isinstance(s, ast.FunctionDef)):
        raise AnalysisError("reinsert_atoms: early exit is outside the recognised fragment")
    M = _Reinsert(f"{p_atoms}.arrays")
    M.run(body[: body.index(l1)])
    between = body[body.index(loops[0]) + 1 : body.index(l2)]
    it1 = norm(M.subst(l1.iter))
    items_forms = (f"{p_atoms}.arrays.items()", f"list({p_atoms}.arrays.items())", f"tuple({p_atoms}.arrays.items())")
    if it1 in items_forms and isinstance(l1.target, ast.Tuple) and len(l1.target.elts) == 2 and all(isinstance(e_, ast.Name) for e_ in l1.target.elts):
        # for name, values in atoms.arrays.items(): `values` stands for atoms.arrays[name]
        kname, vname = l1.target.elts[0].id, l1.target.elts[1].id
        M.env[vname] = ast.Subscript(value=ast.Attribute(value=ast.Name(id=p_atoms, ctx=ast.Load()), attr="arrays", ctx=ast.Load()), slice=ast.Name(id=kname, ctx=ast.Load()), ctx=ast.Load())
        l1 = ast.For(target=ast.Name(id=kname, ctx=ast.Store()), iter=l1.iter, body=l1.body, orelse=l1.orelse, lineno=l1.lineno)
        it1 = f"{p_atoms}.arrays"
    L.check(it1 in (f"{p_atoms}.arrays", f"{p_atoms}.arrays.keys()", f"list({p_atoms}.arrays)", f"list({p_atoms}.arrays.keys())", f"tuple({p_atoms}.arrays)"), rule, "reinsert_atoms:all-arrays", f"{rel}:{l1.lineno}",
            f"first loop iterates `{it1}`, not every per-atom array of the target", "an array (tags, momenta, charges, custom) keeps its shortened length: Atoms becomes inconsistent", it1)
    if not isinstance(l1.target, ast.Name) or l1.orelse:
        raise AnalysisError("reinsert_atoms: first loop target is not a single name")
    name = l1.target.id
    M.run(l1.body)
    where1 = f"{rel}:{l1.lineno}"
    # special-case arms (`if <cond>: atoms.arrays[name] = …; continue`): what they store must be a rebuilt array as well —
    # the index scatter is what undoes the deletion order, a shortcut that takes the removed rows over "as they are" is not
    for cond_, finals_, line_ in getattr(M, "branch_finals", []):
        for key_, obj_, vtxt_, fl_ in finals_:
            ok_ = obj_ is not None and obj_.kind == "array" and any(s_[0] == ("index", p_idx) for s_ in obj_.stores)
            L.check(ok_, rule, f"reinsert_atoms:special-case[{cond_[:40]}]", f"{rel}:{fl_}",
                    f"when `{cond_}` the array `{key_}` is set to `{vtxt_[:80]}` without scattering the re-inserted rows under `{p_idx}`: the rows come back in the order they were removed in, not at the indices they were removed from",
                    f"delete every atom with a non-ascending index list (e.g. {p_idx} = [2, 0, 1]) and re-insert: all per-atom arrays are permuted", vtxt_[:100])
    if len(M.final) != 1 or M.final[0][0] != name:
        L.violation(rule, "reinsert_atoms:result-store", where1, f"one iteration stores {[(k, v) for k, _o, v, _l in M.final]} into {p_atoms}.arrays, not exactly the rebuilt `{name}` array",
                    "the per-atom array is not replaced by the merged one", "final-store")
        return
    _key, obj, vtxt, fline = M.final[0]
    if obj is None or obj.kind != "array":
        L.violation(rule, "reinsert_atoms:result-store", f"{rel}:{fline}", f"`{p_atoms}.arrays[{name}]` receives `{vtxt[:80]}`, not a freshly allocated array filled by row scatter",
                    "kept rows and re-inserted rows are not placed at complementary positions: the original order is not restored", vtxt[:100])
        return
    L.ok(rule, "reinsert_atoms:result-store", f"{rel}:{fline}")
    old_txt = f"{p_atoms}.arrays[{name}]"
    # canonical row order: scattering `v[perm]` under `idx[perm]` is scattering `v` under `idx` (the indices are distinct),
    # so a sorting permutation carried by the selector *and* by every row source is stripped; carried by one side only it
    # pairs row k of the removed atoms with the k-th smallest index instead of indices[k]
    canon = []
    for sel_, val_, ln_ in obj.stores:
        if sel_[0] == "index":
            st_, perm_ = _canon_selector(sel_[1], p_idx)
            vt_, permuted_, plain_ = _canon_source(val_, p_idx, p_new)
            # occurrences that only ask for the number of rows do not depend on the order
            bad_ = plain_ if perm_ else permuted_
            if st_ == p_idx and bad_ and (perm_ or permuted_):
                which_ = "the index list is sorted" if perm_ else "the index list is in the order of removal"
                how_ = "are read in the order of removal" if perm_ else "are sorted"
                L.violation(rule, f"reinsert_atoms:row-order[{'sorted-indices' if perm_ else 'sorted-rows'}]", f"{rel}:{ln_}",
                            f"{which_} while rows taken from `{val_[:110]}` {how_} ({len(bad_)} of {len(bad_) + len(plain_ if not perm_ else permuted_)} reads of `{p_new}`): row k of the removed atoms no longer lands on the index it was removed from",
                            f"delete with a non-ascending index list (e.g. {p_idx} = [4, 1]) atoms that differ in that array, re-insert: the values come back swapped", val_[:120])
            canon.append((("index", st_), vt_, ln_))
        elif sel_[0] in ("mask", "notmask"):
            fa_ = tuple(_canon_selector(t_, p_idx)[0] for t_ in sel_[1])
            canon.append(((sel_[0], fa_) + tuple(sel_[2:]), val_, ln_))
        else:
            canon.append((sel_, val_, ln_))
    obj.stores = canon
    if obj.trailing is not None:
        try:
            obj.trailing = ast.parse(_canon_source(norm(obj.trailing), p_idx, p_new)[0], mode="eval").body  # a shape does not depend on the row order
        except SyntaxError:
            pass
    total = (f"len({p_atoms}) + len({p_new})", f"len({p_new}) + len({p_atoms})")
    aline = getattr(obj.node, "lineno", l1.lineno)
    # the re-inserted rows and where they come from
    idx_stores = [s for s in obj.stores if s[0] == ("index", p_idx)]
    mask_stores = [s for s in obj.stores if s[0][0] == "mask"]
    other = [s for s in obj.stores if s not in idx_stores and s not in mask_stores]
    src_txt = idx_stores[0][1] if idx_stores else ""
    by_bool = [s for s in obj.stores if s[0][0] == "notmask" and s[0][1] == (p_idx,)]
    hint = (f": the removed rows are written through a boolean mask of `{p_idx}` — numpy fills the True rows in ascending row order, not in the order of `{p_idx}`, so an unsorted index list comes back permuted"
            if by_bool and not idx_stores else "")
    L.check(len(idx_stores) == 1, rule, f"reinsert_atoms:new[{p_idx}]", where1,
            f"the rebuilt array receives {len(idx_stores)} stores under `{p_idx}` (stores: {[(s[0][:2], s[1][:40]) for s in obj.stores]}){hint}",
            "re-inserted rows are not put back at the indices they were removed from" + (f" (e.g. {p_idx} = [5, 2])" if hint else ""), "indices-store")
    if idx_stores:
        st = src_txt
        L.check(f"{p_new}.arrays.get({name}" in st or f"{p_new}.arrays[{name}]" in st or f"{p_new}.get_array({name}" in st, rule, "reinsert_atoms:source", f"{rel}:{idx_stores[0][2]}",
                f"re-inserted rows come from `{st[:90]}`, not from the removed atoms' array of the same name", "re-inserted atoms get values of another array", st[:120])
    ok_mask = len(mask_stores) == 1 and mask_stores[0][0][1] == (p_idx,) and not mask_stores[0][0][2] and mask_stores[0][1] == old_txt
    detail = ""
    if mask_stores:
        m = mask_stores[0]
        detail = f"mask False at {list(m[0][1])}{' plus ' + str(list(m[0][2])) if m[0][2] else ''}, rows from `{m[1][:60]}`"
    L.check(ok_mask, rule, "reinsert_atoms:new[mask]", where1,
            f"kept rows must be scattered under the complement of `{p_idx}` from `{old_txt}`; found {detail or [(s[0][:2], s[1][:40]) for s in obj.stores]}",
            "kept rows and re-inserted rows are not placed at complementary positions: the original order is not restored", "mask-store")
    if mask_stores:
        mlen = mask_stores[0][0][3]
        L.check(mlen in total or mlen == norm(obj.length), rule, "reinsert_atoms:mask-length", where1, f"mask has length `{mlen}`, the rebuilt array `{norm(obj.length)}`", "boolean index of the wrong length", mlen)
    L.check(not other and not M.after_final, rule, "reinsert_atoms:extra-stores", where1, f"unexpected stores {[(s[0], s[1][:40]) for s in other] + M.after_final}", "rows overwritten after the merge", "extra")
    # dtype, length, trailing shape
    L.check(obj.dtype is not None and norm(obj.dtype) == f"{old_txt}.dtype", rule, "reinsert_atoms:dtype", f"{rel}:{aline}",
            f"new array dtype is `{norm(obj.dtype) if obj.dtype is not None else 'float64 (default)'}`, not the dtype of the existing array",
            "integer arrays (numbers, tags) come back as floats, or the re-inserted atoms' dtype wins", norm(obj.node)[:120])
    okshape = norm(obj.length) in total and obj.trailing is not None and idx_stores and norm(obj.trailing) == f"{src_txt}.shape[1:]"
    if not okshape and obj.trailing is not None and idx_stores:
        # (a if c else b).shape[1:] is printed with parentheses
        okshape = norm(obj.length) in total and norm(obj.trailing) in (f"({src_txt}).shape[1:]",)
    L.check(bool(okshape), rule, "reinsert_atoms:shape", f"{rel}:{aline}",
            f"new array shape is `({norm(obj.length)[:60]}, *{norm(obj.trailing)[:60] if obj.trailing is not None else '()'})`, not (len(atoms)+len(new), *source.shape[1:])",
            "2-D arrays (positions, momenta, custom) lose their trailing shape / length mismatch", norm(obj.node)[:100])
    # second loop: new-only arrays
    for st in between:
        if not isinstance(st, (ast.Assign, ast.AnnAssign, ast.Pass)):
            raise AnalysisError(f"reinsert_atoms: statement `{norm(st)[:60]}` between the loops is outside the recognised fragment")
    it2 = norm(l2.iter)
    ok2 = False
    if it2 == f"{p_new}.arrays.items()" and isinstance(l2.target, ast.Tuple) and len(l2.target.elts) == 2:
        k2 = norm(l2.target.elts[0])
        for s_ in l2.body:
            if not isinstance(s_, ast.If):
                continue
            t = norm(s_.test)
            arm = s_.body if t in (f"{k2} not in {p_atoms}.arrays", f"not {k2} in {p_atoms}.arrays") else (s_.orelse if t == f"{k2} in {p_atoms}.arrays" else None)
            if arm and any(isinstance(c, ast.Call) and (norm(c.func) in (f"{p_atoms}.set_array", f"{p_atoms}.new_array")) for a in arm for c in ast.walk(a)):
                ok2 = True
    L.check(ok2, rule, "reinsert_atoms:new-only-arrays", f"{rel}:{l2.lineno}", "arrays present only in the re-inserted atoms are not added", "a per-atom array carried only by the removed atoms is lost", it2)


def run(prog: Program, L: Ledger) -> None:
    L.explanation = (
        "C19 decided on utils/atoms.py by dataflow rules: reinsert_atoms is checked for the scatter/gather shape that makes it the "
        "inverse of deletion for any index set in any order (every existing array; result length; trailing shape; dtype of the existing "
        "array; kept rows under the complement mask, re-inserted rows under the indices, in that pairing; arrays only present in the "
        "re-inserted atoms added). search_molecules is decided by finite case analysis of the default-array handling (None / array: an "
        "array is never truth-tested and is what the result starts from), the inclusive size filter is compared with the reference "
        "predicate on a bounded domain, and labels come from an enumeration of networkx's connected components of the symmetric "
        "neighbour-list connectivity. Trusted: the scatter/gather lemma, ASE's neighbour list, networkx's components."
    )
    L.rule("R1", "reinsert_atoms: all arrays; length len(atoms)+len(new); trailing shape of the source; dtype of the existing array; complement-mask scatter of kept rows, indices scatter of new rows; new-only arrays added")
    L.rule("R2", "search_molecules: default array honoured for every array (never truth-tested); inclusive size filter; labels from enumerate(connected components); neighbour list without self-interaction")
    L.assume("numpy boolean-mask / integer-index assignment scatters rows in index order (so any index order works)")
    L.assume("ase.neighborlist.neighbor_list('ij', ...) returns symmetric within-cutoff pairs; networkx.connected_components partitions the graph")

    check_reinsert(prog, L, "R1")
    mod = f"{prog.package}.utils.atoms"
    sm0 = prog.func(mod, "search_molecules")
    # R3: the inputs that are not meant to change are not changed — search_molecules' default array / size filter, and the
    # removed atoms / index list handed to reinsert_atoms (np.asarray / a slice of an argument is the same memory)
    from ..purity import array_params, inplace_writes
    from ..normalize import flat as _flat

    L.rule("R3", "search_molecules never writes into its arguments (the supplied default array in particular); reinsert_atoms only changes `atoms`")
    for fn0, untouched_except in ((sm0, ()), (prog.func(mod, "reinsert_atoms"), ("atoms",))):
        fn = _flat(prog, fn0, None, keep=(fn0.name,))
        allp, _arr = array_params(fn0.node)
        for x in untouched_except:
            allp.discard(x)
        ws = inplace_writes(fn.body(), params=allp, direct=allp)
        for node, al in ws:
            L.violation("R3", f"{fn0.name}:mutates-argument", f"{fn0.module.relpath}:{node.lineno}",
                        f"`{norm(node)[:90]}` writes through `{al}`, which may share storage with an argument of {fn0.name} (np.asarray of an ndarray is that array)",
                        "pass the same ndarray as default twice (two searches with different size filters): labels of the first search survive in the second; the caller's array is changed behind its back", norm(node)[:100])
        if not ws:
            L.ok("R3", f"{fn0.name}:arguments-untouched", fn0.where)

    # ------------------------------------------------------------------ R2
    from ..normalize import flat

    sm = flat(prog, sm0, None, keep=("search_molecules",))
    rel2 = sm0.module.relpath
    dparam = "default_array"
    if dparam not in sm.params():
        raise AnalysisError("search_molecules: parameter default_array missing")
    for site in scan_function(prog, sm0):
        if site.verdict in ("ndarray", "optnum") and ("default_array" in norm(site.expr) or site.verdict == "ndarray"):
            L.violation("R2", "search_molecules:truthiness", f"{rel2}:{site.expr.lineno}", f"`{norm(site.expr)}` is truth-tested ({site.type_text})", site.witness, norm(site.expr))
    body = [s for s in sm.body() if not (isinstance(s, ast.Expr) and isinstance(s.value, ast.Constant))]
    rets = [s for s in walk_no_nested(sm.node) if isinstance(s, ast.Return)]
    if len(rets) != 1 or rets[0] is not body[-1] or not isinstance(rets[0].value, ast.Name):
        raise AnalysisError("search_molecules: a single trailing `return <label array>` expected")
    res = rets[0].value.id
    # `ret = labels; return ret` (an inlined helper's return slot): the label array is the local it was bound from
    for _hop in range(4):
        binds_ = [n for n in walk_no_nested(sm.node) if isinstance(n, ast.Assign) and len(n.targets) == 1 and isinstance(n.targets[0], ast.Name) and n.targets[0].id == res]
        if len(binds_) == 1 and isinstance(binds_[0].value, ast.Name):
            res = binds_[0].value.id
        else:
            break
    # the component loop: the one loop that stores into the result
    stores = [n for n in walk_no_nested(sm.node) if isinstance(n, ast.Assign) and any(isinstance(t, ast.Subscript) and norm(t.value) == res for t in n.targets)]
    if len(stores) > 1:
        # a store into the result outside the component loop whose selector is computed from the result's own values
        # (`labels[labels >= 0] = …`) cannot tell a label written for an admitted component from a supplied default that
        # happens to satisfy the same test: atoms outside admitted molecules lose their default
        loops_ = [s_ for s_ in walk_no_nested(sm.node) if isinstance(s_, ast.For)]
        inl_ = Inliner(sm.node)
        for st_ in stores:
            if any(x_ is st_ for lp_ in loops_ for x_ in ast.walk(lp_)):
                continue
            for t_ in st_.targets:
                if isinstance(t_, ast.Subscript) and norm(t_.value) == res:
                    sel_ = t_.slice
                    if isinstance(sel_, ast.Name):
                        # one hop: what the selector local was bound to (the result local itself stays a name)
                        b_ = [a_.value for a_ in walk_no_nested(sm.node) if isinstance(a_, ast.Assign) and len(a_.targets) == 1 and isinstance(a_.targets[0], ast.Name) and a_.targets[0].id == sel_.id]
                        if len(b_) == 1:
                            sel_ = b_[0]
                    names_ = {n_.id for n_ in ast.walk(sel_) if isinstance(n_, ast.Name)} - {"np", "numpy"}
                    if names_ and names_ <= {res}:
                        L.violation("R2", "search_molecules:rewrite-after-loop", f"{rel2}:{st_.lineno}",
                                    f"`{norm(st_)[:100]}` rewrites, after the component loop, every entry of the result selected by the result's own values (`{norm(sel_)[:60]}`): entries that still hold the supplied default are rewritten together with the labels",
                                    "search_molecules(atoms, cutoff, required_size=k, default_array=<previous labelling, values ≥ 0>): atoms of rejected components do not keep the supplied default", norm(st_)[:100])
    if len(stores) != 1:
        raise AnalysisError(f"search_molecules: expected one store into `{res}`, found {len(stores)}")
    store = stores[0]
    loops = [s for s in body if isinstance(s, ast.For) and any(x is store for x in ast.walk(s))]
    if len(loops) != 1:
        L.violation("R2", "search_molecules:label-loop", f"{rel2}:{store.lineno}", "labels are not written inside a loop over the components", "", norm(store))
        return
    loop = loops[0]
    pre = body[: body.index(loop)]
    post = body[body.index(loop) + 1 : -1]
    # (a plain `ret = labels` binding of the return slot is not a modification)
    post = [s for s in post if not (isinstance(s, ast.Assign) and len(s.targets) == 1 and isinstance(s.targets[0], ast.Name) and isinstance(s.value, ast.Name) and s.value.id == res)]
    if any(res in {n.id for n in ast.walk(s) if isinstance(n, ast.Name)} for s in post):
        raise AnalysisError(f"search_molecules: `{res}` is modified after the component loop (unrecognised idiom)")

    # (a) what the result starts from, by case of the default array
    sl = _backward_slice(pre, {res})
    if not sl:
        raise AnalysisError(f"search_molecules: no definition of `{res}` before the component loop")
    line0 = sl[-1].lineno
    text0 = "; ".join(norm(s)[:80] for s in sl if res in norm(s))[:160]
    for case, av in (("None", AV("none", "default_array")), ("array of length 1 (e.g. [0])", AV("array1", "default_array")), ("array of length N", AV("arrayN", "default_array"))):
        ce = CaseEval({"default_array": av})
        cons = f"search_molecules[default_array={case.split(' (')[0]}]"
        try:
            ce.run(sl)
            got = ce.ev(ast.Name(id=res, ctx=ast.Load()))
        except ArrayTruth:
            L.violation("R2", cons, f"{rel2}:{line0}", f"`{text0}` takes the truth value of the default array: ValueError for any array with more than one element",
                        "search_molecules(atoms, cutoff, default_array=np.full(len(atoms), -1)) raises", text0)
            continue
        except Undecided as exc:
            if av.kind == "array1":
                # truth of a one-element array is its element's: whichever way, taking it is the defect
                L.violation("R2", cons, f"{rel2}:{line0}", f"`{text0}` takes the truth value of the default array", "default_array=[0] is replaced by the fallback", text0)
                continue
            raise AnalysisError(f"search_molecules default handling, case {case}: {exc}") from exc
        if av.kind == "none":
            L.check(got.origin is None, "R2", cons, f"{rel2}:{line0}", "without a default the result must start from a fresh array", "", text0)
        else:
            L.check(got.origin == "default_array", "R2", cons, f"{rel2}:{line0}",
                    f"with a default array the result starts from `{got}` instead of the supplied default", "atoms outside admitted molecules do not keep the supplied default", text0)

    # (b) which components get a label: normalisation of required_size + the guards on the path to the store
    path = _path_to(loop.body, store)
    if path is None:
        raise AnalysisError("search_molecules: label store not found on a structured path of the loop body")
    inl_loop = {}
    comp_names = set()
    if isinstance(loop.target, ast.Tuple) and len(loop.target.elts) == 2:
        comp_names.add(norm(loop.target.elts[1]))
    for st_ in ast.walk(loop):
        if isinstance(st_, ast.Assign) and len(st_.targets) == 1 and isinstance(st_.targets[0], ast.Name):
            used = {n.id for n in ast.walk(st_.value) if isinstance(n, ast.Name)}
            if used & comp_names:
                comp_names.add(st_.targets[0].id)
    idx_t = [t for t in store.targets if isinstance(t, ast.Subscript)][0]
    idx_e = idx_t.slice
    if isinstance(idx_e, ast.Call) and norm(idx_e.func) in ("np.fromiter", "numpy.fromiter", "list", "np.array", "np.asarray", "sorted") and idx_e.args and norm(idx_e.args[0]) in comp_names:
        idx_e = idx_e.args[0]
    L.check(norm(idx_e) in comp_names, "R2", "search_molecules:label-target", f"{rel2}:{store.lineno}", f"label is stored at `{norm(idx_t.slice)}`, not at the members of the component", "atoms of other components are relabelled", norm(store))
    guard_names = set()
    for test, _pol in path:
        guard_names |= {n.id for n in ast.walk(test) if isinstance(n, ast.Name)}
    pre_rs = _backward_slice(pre, guard_names - comp_names)
    N = 5
    bad = None
    guard_txt = " and ".join((norm(t) if pol else f"not ({norm(t)})") for t, pol in path) or "(no guard)"
    try:
        cases = [None] + list(range(0, N + 1)) + [(lo, hi) for lo in range(0, N + 1) for hi in range(lo, N + 2)]
        for rs in cases:
            env = {"required_size": rs, "len(atoms)": N, "atoms.get_global_number_of_atoms()": N, "default_array": None}
            # square / per-atom arrays allocated from the atom count have that length (an extracted helper may take the
            # number of nodes from `len(connectivity)`)
            for st_ in walk_no_nested(sm.node):
                if isinstance(st_, ast.Assign) and len(st_.targets) == 1 and isinstance(st_.targets[0], ast.Name) and isinstance(st_.value, ast.Call) \
                        and norm(st_.value.func) in ("np.full", "np.zeros", "np.ones", "np.empty") and st_.value.args:
                    shp = st_.value.args[0]
                    first = shp.elts[0] if isinstance(shp, ast.Tuple) and shp.elts else shp
                    if norm(first) in env and isinstance(env[norm(first)], int):
                        env[f"len({st_.targets[0].id})"] = env[norm(first)]
                        env[f"{st_.targets[0].id}.shape[0]"] = env[norm(first)]
                elif isinstance(st_, ast.Assign) and len(st_.targets) == 1 and isinstance(st_.targets[0], ast.Name) and isinstance(st_.value, ast.Name) and f"len({st_.value.id})" in env:
                    env[f"len({st_.targets[0].id})"] = env[f"len({st_.value.id})"]
                    env[f"{st_.targets[0].id}.shape[0]"] = env[f"len({st_.value.id})"]
            run_stmts(pre_rs, env)
            for sz in range(0, N + 1):
                e2 = dict(env)
                for cn in comp_names:
                    e2[f"{cn}.size"] = sz
                    e2[f"len({cn})"] = sz
                    e2[f"{cn}.shape[0]"] = sz
                got = True
                for test, pol in path:
                    if bool(ev(test, e2)) != pol:
                        got = False
                        break
                want = (0 <= sz <= N) if rs is None else ((sz == rs) if isinstance(rs, int) else (rs[0] <= sz <= rs[1]))
                if got != want and bad is None:
                    bad = (rs, sz, got)
    except Raises as exc:
        bad = bad or ("?", "?", f"raises {exc.what}")
    except PredUnsupported as exc:
        raise AnalysisError(f"search_molecules size filter: {exc}") from exc
    L.check(bad is None, "R2", "search_molecules:size-filter", f"{rel2}:{store.lineno}",
            f"components are labelled when `{guard_txt[:100]}`, which is not the inclusive size window" + (f": required_size={bad[0]}, component of {bad[1]} atoms -> labelled={bad[2]}" if bad else "")
            if path else "labels are written for every component, ignoring required_size",
            (f"required_size={bad[0]} and a component of {bad[1]} atoms" if bad else ""), guard_txt[:120])
    # enumeration from 0 over connected components of from_numpy_array(connectivity)
    def one_step(node):
        """a local bound exactly once (at top level, before the loop) stands for its value; nothing deeper is substituted"""
        if isinstance(node, ast.Name):
            defs = [s_ for s_ in walk_no_nested(sm.node) if isinstance(s_, ast.Assign) and any(isinstance(t, ast.Name) and t.id == node.id for t in s_.targets)]
            if len(defs) == 1 and defs[0] in pre:
                return defs[0].value
        return node

    it = loop.iter
    oken = isinstance(it, ast.Call) and norm(it.func) == "enumerate" and len(it.args) == 1 and not it.keywords
    comp = one_step(it.args[0]) if oken else None
    oken = oken and isinstance(comp, ast.Call) and norm(comp.func) in ("nx.connected_components", "networkx.connected_components", "connected_components")
    L.check(oken, "R2", "search_molecules:enumeration", f"{rel2}:{loop.lineno}", f"components are labelled by `{norm(it)[:80]}`, not enumerate(nx.connected_components(...)) from 0", "labels negative or shared between components", norm(it)[:100])
    if oken:
        lab = norm(loop.target.elts[0]) if isinstance(loop.target, ast.Tuple) else None
        L.check(lab is not None and norm(store.value) == lab, "R2", "search_molecules:label-value", f"{rel2}:{store.lineno}", f"stored label `{norm(store.value)}` is not the enumeration index", "two molecules share a label", norm(store))
        g = one_step(comp.args[0]) if comp.args else None
        cname = norm(g.args[0]) if isinstance(g, ast.Call) and g.args else ""
        direct = isinstance(g, ast.Call) and norm(g.func) in ("nx.Graph", "networkx.Graph") and not g.args and not g.keywords and isinstance(comp.args[0], ast.Name)
        if direct:
            _check_direct_graph(L, sm, pre, comp.args[0].id, rel2, loop)
            L.ok("R2", "search_molecules:return", f"{rel2}:{rets[0].lineno}")
            return
        L.check(isinstance(g, ast.Call) and norm(g.func) in ("nx.from_numpy_array", "networkx.from_numpy_array", "nx.Graph", "nx.from_numpy_matrix") and bool(cname), "R2", "search_molecules:graph", f"{rel2}:{loop.lineno}", "graph is not built from the connectivity matrix", "", norm(g)[:80] if g is not None else "")
    else:
        cname = ""
    # `connectivity = _helper_local` (the matrix built by an inlined helper): the stores are on the local it was bound from
    for _hop in range(4):
        b_ = [n for n in walk_no_nested(sm.node) if isinstance(n, ast.Assign) and len(n.targets) == 1 and isinstance(n.targets[0], ast.Name) and n.targets[0].id == cname]
        if cname and len(b_) == 1 and isinstance(b_[0].value, ast.Name):
            cname = b_[0].value.id
        else:
            break
    nl = [c for c in calls_in(sm.node) if norm(c.func) in ("neighbor_list", "ase.neighborlist.neighbor_list", "neighborlist.neighbor_list")]
    oknl = len(nl) == 1 and norm(nl[0].args[0]) == "'ij'" and any(k.arg == "self_interaction" and norm(k.value) == "False" for k in nl[0].keywords) and any(k.arg == "cutoff" and norm(k.value) == "cutoff" for k in nl[0].keywords)
    L.check(oknl, "R2", "search_molecules:neighbour-list", f"{rel2}:{nl[0].lineno if nl else sm0.node.lineno}", "neighbour list is not neighbor_list('ij', atoms, cutoff=cutoff, self_interaction=False)", "self-bonds / wrong cutoff change the components", norm(nl[0])[:100] if nl else "")
    pair = None
    for s_ in pre:
        if isinstance(s_, ast.Assign) and isinstance(s_.value, ast.Call) and nl and s_.value is nl[0] and isinstance(s_.targets[0], ast.Tuple) and len(s_.targets[0].elts) == 2:
            pair = tuple(norm(x) for x in s_.targets[0].elts)
    cs = [s_ for s_ in pre if isinstance(s_, ast.Assign) and isinstance(s_.targets[0], ast.Subscript) and norm(s_.targets[0].value) == cname]
    okc = pair is not None and len(cs) == 1 and norm(cs[0].targets[0].slice) in (f"({pair[0]}, {pair[1]})", f"({pair[1]}, {pair[0]})") and norm(cs[0].value) in ("1", "True")
    L.check(okc, "R2", "search_molecules:connectivity", f"{rel2}:{cs[0].lineno if cs else sm0.node.lineno}", "connectivity[i, j] = 1 for every neighbour pair not found", "", norm(cs[0]) if cs else "")
    # the connectivity matrix is a zero matrix allocated by this call (not a shared / memoised / pre-filled array):
    # bonds of an earlier call or configuration must not survive into this one
    cdefs = [s_ for s_ in pre if isinstance(s_, (ast.Assign, ast.AnnAssign)) and s_.value is not None and any(isinstance(t, ast.Name) and t.id == cname for t in (s_.targets if isinstance(s_, ast.Assign) else [s_.target]))]
    fresh = False
    detail_c = "no definition"
    if len(cdefs) == 1 and isinstance(cdefs[0].value, ast.Call):
        cv = cdefs[0].value
        fn = norm(cv.func)
        detail_c = norm(cv)[:80]
        shape_ok = bool(cv.args) and isinstance(one_step(cv.args[0]) if isinstance(cv.args[0], ast.Name) else cv.args[0], ast.Tuple)
        if fn in ("np.zeros", "numpy.zeros") and shape_ok:
            fresh = True
        elif fn in ("np.full", "numpy.full") and shape_ok and len(cv.args) > 1 and norm(cv.args[1]) in ("0", "0.0", "False"):
            fresh = True
    L.check(fresh, "R2", "search_molecules:connectivity-fresh", f"{rel2}:{cdefs[0].lineno if cdefs else sm0.node.lineno}",
            f"the connectivity matrix is `{detail_c}`, not a zero matrix allocated by this call", "bonds recorded by an earlier call (or left in a shared array) merge molecules that are no longer connected", detail_c)
    L.ok("R2", "search_molecules:return", f"{rel2}:{rets[0].lineno}")


def _check_direct_graph(L: Ledger, sm, pre, gname: str, rel2: str, loop) -> None:
    """Second idiom: the graph is built directly — G = nx.Graph(); G.add_nodes_from(range(len(atoms))) (every atom a node,
    so isolated atoms are components of their own); G.add_edges_from(zip(i, j)) with (i, j) the neighbour-list pair."""
    nl = [c for c in calls_in(sm.node) if norm(c.func) in ("neighbor_list", "ase.neighborlist.neighbor_list", "neighborlist.neighbor_list")]
    oknl = len(nl) == 1 and norm(nl[0].args[0]) == "'ij'" and any(k.arg == "self_interaction" and norm(k.value) == "False" for k in nl[0].keywords) and any(k.arg == "cutoff" and norm(k.value) == "cutoff" for k in nl[0].keywords)
    L.check(oknl, "R2", "search_molecules:neighbour-list", f"{rel2}:{nl[0].lineno if nl else sm.node.lineno}", "neighbour list is not neighbor_list('ij', atoms, cutoff=cutoff, self_interaction=False)", "self-bonds / wrong cutoff change the components", norm(nl[0])[:100] if nl else "")
    pair = None
    for s_ in pre:
        if isinstance(s_, ast.Assign) and isinstance(s_.value, ast.Call) and nl and s_.value is nl[0] and isinstance(s_.targets[0], ast.Tuple) and len(s_.targets[0].elts) == 2:
            pair = tuple(norm(x) for x in s_.targets[0].elts)
    gcalls = [s_.value for s_ in pre if isinstance(s_, ast.Expr) and isinstance(s_.value, ast.Call) and isinstance(s_.value.func, ast.Attribute) and norm(s_.value.func.value) == gname]
    other_uses = [s_ for s_ in pre if any(isinstance(n, ast.Name) and n.id == gname for n in ast.walk(s_)) and not (isinstance(s_, ast.Expr) and s_.value in gcalls)
                  and not (isinstance(s_, ast.Assign) and any(isinstance(t, ast.Name) and t.id == gname for t in s_.targets))]
    nodes = [c for c in gcalls if c.func.attr == "add_nodes_from"]
    edges = [c for c in gcalls if c.func.attr in ("add_edges_from",)]
    oknodes = len(nodes) == 1 and len(nodes[0].args) == 1 and norm(nodes[0].args[0]) in ("range(len(atoms))", "range(atoms.get_global_number_of_atoms())", "np.arange(len(atoms))")
    L.check(oknodes, "R2", "search_molecules:graph", f"{rel2}:{loop.lineno}", "the graph does not get one node per atom (range(len(atoms)))", "isolated atoms are missing from the components and keep the default / get no label", norm(nodes[0])[:80] if nodes else "")

    def strip(e):
        while isinstance(e, ast.Call) and isinstance(e.func, ast.Attribute) and e.func.attr in ("tolist", "copy") and not e.args:
            e = e.func.value
        return norm(e)

    okedges = False
    if pair is not None and len(edges) == 1 and len(edges[0].args) == 1 and isinstance(edges[0].args[0], ast.Call) and norm(edges[0].args[0].func) == "zip" and len(edges[0].args[0].args) == 2:
        a_, b_ = (strip(x) for x in edges[0].args[0].args)
        okedges = {a_, b_} == set(pair)
    L.check(okedges, "R2", "search_molecules:connectivity", f"{rel2}:{edges[0].lineno if edges else loop.lineno}", "edges are not exactly the neighbour-list pairs", "", norm(edges[0])[:100] if edges else "")
    extra = [c for c in gcalls if c.func.attr not in ("add_nodes_from", "add_edges_from")]
    L.check(not extra and not other_uses, "R2", "search_molecules:connectivity-fresh", f"{rel2}:{loop.lineno}", f"the graph is modified or shared in other ways: {[norm(c)[:40] for c in extra] + [norm(u)[:40] for u in other_uses]}", "", "graph")


def _assigned_names(st) -> set[str]:
    out = set()
    for n in ast.walk(st):
        if isinstance(n, ast.Name) and isinstance(n.ctx, ast.Store):
            out.add(n.id)
    return out


def _backward_slice(stmts, names: set[str]):
    """Top-level statements (assignments / branches) that can influence `names`, in order."""
    want = set(names)
    keep = []
    for st in reversed(stmts):
        if not isinstance(st, (ast.Assign, ast.AnnAssign, ast.If)):
            continue
        if isinstance(st, ast.Assign) and any(not isinstance(t, ast.Name) for t in st.targets):
            continue
        if _assigned_names(st) & want:
            keep.append(st)
            want |= {n.id for n in ast.walk(st) if isinstance(n, ast.Name) and isinstance(n.ctx, ast.Load)}
    return list(reversed(keep))


def _path_to(stmts, target):
    """Guards (test, polarity) on the structured path from a statement list to `target`; None if not found."""
    for st in stmts:
        if st is target:
            return []
        if isinstance(st, ast.If):
            r = _path_to(st.body, target)
            if r is not None:
                return [(st.test, True), *r]
            r = _path_to(st.orelse, target)
            if r is not None:
                return [(st.test, False), *r]
    return None


def _subst_subscripts(e: ast.expr) -> ast.expr:
    """minieval looks names/attributes up by text; map `required_size[0]` style subscripts too."""
    import copy

    class T(ast.NodeTransformer):
        def visit_Subscript(self, node):
            return ast.Name(id=norm(node), ctx=ast.Load())

        def visit_Call(self, node):
            if norm(node.func) == "len":
                return ast.Name(id=norm(node), ctx=ast.Load())
            return self.generic_visit(node)

    return T().visit(copy.deepcopy(e))
