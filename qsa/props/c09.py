"""C09 — move scheduling honours interval, probability and minimum count.

M1 exactly max_cycles yields per step (none iff no move is due); one move call per yielded name
M2 the due list is {name : step_count mod interval(name) == 0} (bounded exhaustive predicate check)
M3 forced slots: repeat(due, minimum_count) placed on distinct slot indices (choice without replacement)
M4 free slots: a fresh weighted choice over the due list with p = probability / sum(probability)
M5 add_move refuses when Σ minimum_count + new > max_cycles, before inserting
"""

from __future__ import annotations

import ast
import copy

from ..cfg import build_cfg
from ..dataflow import Inliner, local_defs
from ..loader import AnalysisError, FuncInfo, Program, calls_in, norm, walk_no_nested
from ..minieval import PredUnsupported, Raises, ev
from ..normalize import flat
from ..report import Ledger


def block_value(block: list[ast.stmt], name: str, before: ast.stmt) -> ast.expr | None:
    """Value of local ``name`` just before statement ``before`` within one block, composing
    plain and augmented assignments (straight-line value numbering)."""
    cur = None

    def subst(value, prev):
        if prev is None:
            return value

        class Sub(ast.NodeTransformer):
            def visit_Name(self, node):
                if node.id == name and isinstance(node.ctx, ast.Load):
                    return copy.deepcopy(prev)
                return node

        return Sub().visit(copy.deepcopy(value))

    for st in block:
        if st is before:
            break
        if isinstance(st, ast.Assign) and any(isinstance(t, ast.Name) and t.id == name for t in st.targets):
            cur = subst(st.value, cur)
        elif isinstance(st, ast.AnnAssign) and isinstance(st.target, ast.Name) and st.target.id == name and st.value is not None:
            cur = subst(st.value, cur)
        elif isinstance(st, ast.AugAssign) and isinstance(st.target, ast.Name) and st.target.id == name:
            if cur is None:
                return None
            cur = ast.BinOp(left=copy.deepcopy(cur), op=st.op, right=subst(st.value, cur))
            ast.fix_missing_locations(ast.Expression(cur))
    return cur


def run(prog: Program, L: Ledger) -> None:
    L.explanation = (
        "C09 decided on MonteCarlo.yield_moves / step / add_move: the due-list filter is extracted and compared with "
        "`step mod interval == 0` by exhaustive enumeration of step∈[0,24] × interval∈[1,8]; the CFG of yield_moves is enumerated "
        "(loop taken 0/1/2 times) and every iteration must yield exactly once; the forced multiset, its placement by a choice "
        "without replacement over arange(max_cycles) with size=len(forced), the weighted free-slot draw with p = prob/Σprob over the "
        "same due list (value-numbered through the in-place division) and the over-commit guard dominating the insertion are "
        "checked on the resolved dataflow. Not decided: selection frequencies (a property of numpy's choice), tables edited behind "
        "add_move's back."
    )
    L.rule("M1", "yield_moves yields exactly once per iteration of a loop over range(self.max_cycles) and nothing iff the due list is empty; step() calls the stored move once per yielded name")
    L.rule("M2", "due list = names whose `step_count % interval == 0` (current counter, no offset)")
    L.rule("M3", "forced multiset = repeat(due, minimum_count); slots from choice(arange(max_cycles), size=len(forced), replace=False); forced slot yields its mapped name")
    L.rule("M4", "free slot yields a fresh rng.choice(due, p=probability/sum(probability)) over the same due list")
    L.rule("M5", "add_move: `Σ minimum_count + new > max_cycles` raises and dominates the table insertion")
    L.assume("numpy Generator.choice(a, size=k, replace=False) returns k distinct elements; choice(a, p=w) never returns an element of weight 0")

    mc = prog.cls("MonteCarlo")
    ym = mc.methods.get("yield_moves")
    step = mc.methods.get("step")
    add = mc.methods.get("add_move")
    if not (ym and step and add):
        raise AnalysisError("MonteCarlo.yield_moves/step/add_move anchor missing")
    # helpers of the scheduler are seen through even when they are public (a `due_moves()` shared by add_move and
    # yield_moves); the trial's own anchors stay calls
    KEEP = ("save_state", "revert_state", "validate_simulation", "call_observers", "step", "yield_moves", "add_move", "to_dict", "from_dict", "converged")
    ym, step, add = (flat(prog, f_, mc, public_methods=True, keep=KEEP) for f_ in (ym, step, add))
    for sub in prog.subclasses(mc, strict=True):
        for m in ("yield_moves", "step", "add_move"):
            if m in sub.methods:
                raise AnalysisError(f"{sub.name} overrides {m}: C09 rules analyse MonteCarlo.{m} only")
    rel = ym.module.relpath
    defs = local_defs(ym.node)

    # ------------------------------------------------------------ due list (M2)
    due = None
    for name, lst in defs.items():
        for st, val in lst:
            if isinstance(val, ast.ListComp) and len(val.generators) == 1 and norm(val.generators[0].iter) in ("self.moves", "self.moves.keys()", "self.moves.items()"):
                # the due list is the one that collects the NAMES (a sibling comprehension over the same traversal may
                # collect the minimum counts); with a single candidate that one is taken whatever it collects
                g_ = val.generators[0]
                key_var = norm(g_.target.elts[0]) if isinstance(g_.target, ast.Tuple) and g_.target.elts else norm(g_.target)
                if due is None or norm(val.elt) == key_var:
                    if due is None or norm(due[2].elt) != (norm(due[2].generators[0].target.elts[0]) if isinstance(due[2].generators[0].target, ast.Tuple) else norm(due[2].generators[0].target)):
                        due = (name, st, val)
    if due is None:
        raise AnalysisError("yield_moves: due-list comprehension over self.moves not found")
    dname, dstmt, dcomp = due
    gen = dcomp.generators[0]
    L.check(len(gen.ifs) == 1, "M2", "yield_moves:due-filter", f"{rel}:{dstmt.lineno}", f"due list has {len(gen.ifs)} filters (expected the interval test)",
            "moves attempted off their interval (or never)", norm(dcomp))
    if len(gen.ifs) == 1:
        cond = gen.ifs[0]
        if isinstance(gen.target, ast.Name):
            var = gen.target.id
            iv_keys = [f"self.moves[{var}].interval"]
        else:
            var = gen.target.elts[0].id
            iv_keys = [f"{gen.target.elts[1].id}.interval", f"self.moves[{var}].interval"]
        # a predicate moved into a method of the stored entry (`move_storage.is_due(step)`) is read through
        from ..normalize import expand_expression_methods

        storage_cls = prog.cls("MoveStorage")
        cond = expand_expression_methods(prog, storage_cls, cond, {k.rsplit(".", 1)[0] for k in iv_keys})
        bad = None
        # other attributes of the stored entry that the filter consults are free: the predicate must
        # equal `step % interval == 0` for every value they can take
        free: dict[str, list] = {}
        prefixes = [k.rsplit(".", 1)[0] for k in iv_keys]
        for n in ast.walk(cond):
            if isinstance(n, ast.Attribute) and norm(n.value) in prefixes and n.attr != "interval":
                dom = {"probability": [0.0, 0.5, 1.0], "minimum_count": [0, 1, 2]}.get(n.attr)
                if dom is None:
                    raise AnalysisError(f"yield_moves due filter consults `{norm(n)}`, which has no modelled domain")
                free[norm(n)] = dom
        import itertools as _it

        try:
            for s in range(0, 25):
                for i in range(1, 9):
                    for combo in _it.product(*free.values()) if free else [()]:
                        env = {"self.step_count": s}
                        for k in iv_keys:
                            env[k] = i
                        env.update(dict(zip(free.keys(), combo)))
                        try:
                            got = bool(ev(cond, env))
                        except Raises as r:
                            got = f"raises {r.what}"
                        if got != (s % i == 0):
                            bad = (s, i, got, dict(zip(free.keys(), combo)))
                            break
                    if bad:
                        break
                if bad:
                    break
        except PredUnsupported as exc:
            raise AnalysisError(f"yield_moves due filter: {exc}") from exc
        L.check(bad is None, "M2", "yield_moves:due-filter", f"{rel}:{dstmt.lineno}",
                "due filter differs from `step % interval == 0`: " + (f"step={bad[0]}, interval={bad[1]}{', ' + str(bad[3]) if bad[3] else ''} -> due={bad[2]}" if bad else ""),
                (f"a move with interval {bad[1]}{' and ' + str(bad[3]) if bad[3] else ''} at step {bad[0]}: it is {'not ' if not bad[2] else ''}treated as due (forced minimum-count slots included)" if bad else ""), norm(cond))
        L.check(norm(dcomp.elt) == var, "M2", "yield_moves:due-elements", f"{rel}:{dstmt.lineno}", f"due list collects `{norm(dcomp.elt)}` instead of the move names", "", norm(dcomp.elt))

    # ------------------------------------------------------------ CFG (M1)
    cfg = build_cfg(ym.node)
    loops = [n for n in cfg.nodes if n.kind == "iter"]
    main = [n for n in loops if norm(n.ast.iter).startswith("range(")]
    if len(main) != 1:
        raise AnalysisError(f"yield_moves: expected one slot loop over range(...), found {len(main)}")
    loop = main[0]
    litxt = norm(loop.ast.iter)
    L.check(litxt == "range(self.max_cycles)", "M1", "yield_moves:slots", f"{rel}:{loop.lineno}", f"slot loop iterates `{litxt}`, not range(self.max_cycles)",
            "a step attempts a number of cycles different from max_cycles", litxt)
    empties = 0
    npaths = 0
    for path in cfg.paths(max_back=2, include_exc=False):
        npaths += 1
        segs = [[]]
        for node, lab in path:
            if node is loop:
                segs.append([])
                continue
            if node.kind == "stmt" and isinstance(node.ast, ast.Expr) and isinstance(node.ast.value, (ast.Yield, ast.YieldFrom)):
                segs[-1].append(node)
        pre, iters = segs[0], segs[1:]
        body = iters[:-1]
        if pre:
            L.violation("M1", "yield_moves:yield-before-loop", f"{rel}:{pre[0].lineno}", "a move name is yielded outside the slot loop", "more than max_cycles attempts per step", norm(pre[0].ast))
        if iters and iters[-1]:
            L.violation("M1", "yield_moves:yield-after-loop", f"{rel}:{iters[-1][0].lineno}", "a move name is yielded after the slot loop", "more than max_cycles attempts per step", norm(iters[-1][0].ast))
        for seg in body:
            L.check(len(seg) == 1, "M1", "yield_moves:one-yield-per-slot", f"{rel}:{loop.lineno}", f"a slot iteration yields {len(seg)} names", "a step attempts fewer/more cycles than configured", f"{len(seg)} yields")
        if not iters:
            tests = [(n, lab) for n, lab in path if n.kind == "test"]
            raises = [n for n, _lab in path if n.kind == "stmt" and isinstance(n.ast, ast.Raise)]
            if raises:
                # an explicit error before the loop is acceptable exactly when the step could not have been carried out
                # anyway: more forced moves than cycles, i.e. the draw of distinct slots below would raise as well
                slot_draws = [c_ for c_ in calls_in(ym.node) if isinstance(c_.func, ast.Attribute) and c_.func.attr == "choice"
                              and any(k_.arg == "replace" and isinstance(k_.value, ast.Constant) and k_.value.value is False for k_ in c_.keywords)
                              and c_.args and norm(c_.args[0]) in ("self.max_cycles", "np.arange(self.max_cycles)", "range(self.max_cycles)")]
                sizes = set()
                for c_ in slot_draws:
                    for a_ in list(c_.args[1:2]) + [k_.value for k_ in c_.keywords if k_.arg == "size"]:
                        sizes.add(norm(a_))
                t_ = tests[-1] if tests else None
                justified = t_ is not None and t_[1] == "true" and isinstance(t_[0].ast, ast.Compare) and len(t_[0].ast.ops) == 1 \
                    and ((isinstance(t_[0].ast.ops[0], ast.Gt) and norm(t_[0].ast.left) in sizes and norm(t_[0].ast.comparators[0]) == "self.max_cycles")
                         or (isinstance(t_[0].ast.ops[0], ast.Lt) and norm(t_[0].ast.comparators[0]) in sizes and norm(t_[0].ast.left) == "self.max_cycles"))
                L.check(justified, "M1", "yield_moves:raises-before-loop", f"{rel}:{raises[-1].lineno}",
                        f"yield_moves raises before the slot loop under `{norm(t_[0].ast)[:70] if t_ else None}`, a condition other than 'more forced moves than cycles' (where the slot draw itself would fail)",
                        "a step with due moves raises instead of attempting max_cycles moves", norm(raises[-1].ast)[:100])
                continue
            # path leaving before the loop: must be the empty-due-list return
            empties += 1
            due_names = {dname} | {n_.targets[0].id for n_ in walk_no_nested(ym.node) if isinstance(n_, ast.Assign) and len(n_.targets) == 1 and isinstance(n_.targets[0], ast.Name)
                                   and isinstance(n_.value, ast.Name) and n_.value.id == dname}
            okp = bool(tests) and any(norm(tests[-1][0].ast) in (f"not {dn}", f"len({dn}) == 0", f"{dn} == []") for dn in due_names) and tests[-1][1] == "true"
            L.check(okp, "M1", "yield_moves:early-return", f"{rel}:{tests[-1][0].lineno if tests else ym.node.lineno}",
                    "yield_moves returns without attempting although moves may be due", "a step with due moves performs no cycle", norm(tests[-1][0].ast) if tests else "")
    L.check(empties >= 1, "M1", "yield_moves:empty-due-list", ym.where, "no early exit when no move is due: choice() over an empty list raises", "step on which no move is due raises ValueError", "empty")
    L.extra["yield_moves_paths"] = npaths

    # ------------------------------------------------------------ forced slots (M3)
    inl = Inliner(ym.node)
    lbody_ = list(loop.ast.body)
    # `x = M.get(index)` followed by `if x is not None: yield x else: …` is the membership test spelled through .get():
    # the mapping's values are move names (checked below to be dict(zip(indices, names))), never None
    if len(lbody_) == 2 and isinstance(lbody_[0], ast.Assign) and len(lbody_[0].targets) == 1 and isinstance(lbody_[0].targets[0], ast.Name) and isinstance(lbody_[1], ast.If) \
            and isinstance(lbody_[0].value, ast.Call) and isinstance(lbody_[0].value.func, ast.Attribute) and lbody_[0].value.func.attr == "get" \
            and len(lbody_[0].value.args) == 1 and not lbody_[0].value.keywords and norm(lbody_[0].value.args[0]) == norm(loop.ast.target):
        xname = lbody_[0].targets[0].id
        t0 = lbody_[1].test
        if isinstance(t0, ast.Compare) and len(t0.ops) == 1 and isinstance(t0.ops[0], (ast.Is, ast.IsNot)) and isinstance(t0.left, ast.Name) and t0.left.id == xname \
                and isinstance(t0.comparators[0], ast.Constant) and t0.comparators[0].value is None:
            import copy as _copy

            mexpr = lbody_[0].value.func.value
            new_if = _copy.deepcopy(lbody_[1])
            new_if.test = ast.Compare(left=_copy.deepcopy(loop.ast.target), ops=[ast.In() if isinstance(t0.ops[0], ast.IsNot) else ast.NotIn()], comparators=[_copy.deepcopy(mexpr)])

            class _SubX(ast.NodeTransformer):
                def visit_Name(self, node):
                    if node.id == xname and isinstance(node.ctx, ast.Load):
                        return ast.Subscript(value=_copy.deepcopy(mexpr), slice=_copy.deepcopy(loop.ast.target), ctx=ast.Load())
                    return node

            new_if = ast.fix_missing_locations(ast.copy_location(_SubX().visit(new_if), lbody_[1]))
            lbody_ = [new_if]
    body_if = [s for s in lbody_ if isinstance(s, ast.If)]
    if len(body_if) != 1 or len(lbody_) != 1:
        raise AnalysisError("yield_moves: slot loop body is not a single if/else")
    iff = body_if[0]
    test = iff.test
    if not (isinstance(test, ast.Compare) and len(test.ops) == 1 and isinstance(test.ops[0], (ast.In, ast.NotIn)) and norm(test.left) == norm(loop.ast.target)):
        raise AnalysisError(f"yield_moves: slot test `{norm(test)}` is not `index in <mapping>`")
    forced_branch, free_branch = (iff.body, iff.orelse) if isinstance(test.ops[0], ast.In) else (iff.orelse, iff.body)
    mapping_name = norm(test.comparators[0])
    mapping = inl.inline(test.comparators[0])
    mtxt = norm(mapping)
    # mapping = dict(zip(<indices>, <forced>, ...))
    ok_map = isinstance(mapping, ast.Call) and norm(mapping.func) == "dict" and mapping.args and isinstance(mapping.args[0], ast.Call) and norm(mapping.args[0].func) == "zip" and len(mapping.args[0].args) == 2
    if not ok_map:
        raise AnalysisError(f"yield_moves: forced mapping `{mtxt[:80]}` is not dict(zip(indices, names))")
    idx_e, forced_e = mapping.args[0].args
    # forced multiset
    ftxt = norm(forced_e)
    ok_forced = isinstance(forced_e, ast.Call) and norm(forced_e.func) == "np.repeat" and len(forced_e.args) == 2
    if ok_forced:
        rep_a, rep_c = forced_e.args
        okc = (
            isinstance(rep_c, ast.ListComp) and len(rep_c.generators) == 1 and not rep_c.generators[0].ifs
            and norm(rep_c.generators[0].iter) == norm(dcomp)
            and norm(rep_c.elt) == f"self.moves[{norm(rep_c.generators[0].target)}].minimum_count"
        )
        if not okc and isinstance(rep_c, ast.ListComp) and isinstance(dcomp, ast.ListComp) and len(rep_c.generators) == 1 and len(dcomp.generators) == 1:
            # the counts collected by the SAME traversal as the due list (same iterable, target and filter): element-wise aligned
            g1, g2 = rep_c.generators[0], dcomp.generators[0]
            same_gen = norm(g1.iter) == norm(g2.iter) and norm(g1.target) == norm(g2.target) and [norm(x) for x in g1.ifs] == [norm(x) for x in g2.ifs]
            elt_ok = False
            if same_gen and isinstance(g1.target, ast.Tuple) and len(g1.target.elts) == 2 and norm(g1.iter) == "self.moves.items()":
                elt_ok = norm(rep_c.elt) in (f"{norm(g1.target.elts[1])}.minimum_count", f"self.moves[{norm(g1.target.elts[0])}].minimum_count")
            elif same_gen and norm(g1.iter) in ("self.moves", "self.moves.keys()"):
                elt_ok = norm(rep_c.elt) == f"self.moves[{norm(g1.target)}].minimum_count"
            okc = same_gen and elt_ok
        ok_forced = norm(rep_a) == norm(dcomp) and okc
    cex_ = ""
    if not ok_forced:
        # the spelling is not one of the recognised ones: the extracted expression (locals inlined) is evaluated by the checker
        # on every small model table — three stored moves, intervals 1–3, minimum counts 0–2, steps 0–6 — and compared as a
        # multiset with "each due move, minimum_count times".  Only the closed form is evaluated, over checker-owned stand-ins;
        # anything it needs beyond them ends the attempt as an analysis error, never as a verdict.
        import itertools as _it
        import types as _types

        import numpy as _np

        fe_ = inl.inline(forced_e)
        code_ = compile(ast.fix_missing_locations(ast.Expression(body=fe_)), "<forced multiset>", "eval")
        np_ns = _types.SimpleNamespace(repeat=_np.repeat, array=_np.array, asarray=_np.asarray, arange=_np.arange, concatenate=_np.concatenate, int_=_np.int_, fromiter=_np.fromiter)
        agree = True
        n_eval = 0
        try:
            for ivs in _it.product((1, 2, 3), repeat=3):
                for mcs in _it.product((0, 1, 2), repeat=3):
                    table = {f"m{k}": _types.SimpleNamespace(interval=ivs[k], minimum_count=mcs[k], probability=1.0, name=f"m{k}") for k in range(3)}
                    for step_ in range(0, 7):
                        model = _types.SimpleNamespace(moves=table, step_count=step_, max_cycles=12)
                        ns = {"__builtins__": {}, "self": model, "np": np_ns, "list": list, "len": len, "dict": dict, "zip": zip, "sum": sum, "int": int, "tuple": tuple,
                              "sorted": sorted, "range": range, "enumerate": enumerate, "any": any, "all": all, "set": set, "min": min, "max": max}
                        try:
                            got = sorted(str(x) for x in eval(code_, ns))  # noqa: S307 - extracted closed form over stand-ins
                        except (ValueError, IndexError, KeyError, ZeroDivisionError) as exc_:
                            # the closed form itself fails on a legal table: that is what the step would do
                            agree = False
                            cex_ = f" (intervals {ivs}, minimum counts {mcs}, step {step_}: raises {type(exc_).__name__}: {str(exc_)[:60]})"
                            raise StopIteration from None
                        want = sorted(nm for nm, ms in table.items() if step_ % ms.interval == 0 for _ in range(ms.minimum_count))
                        n_eval += 1
                        if got != want:
                            agree = False
                            cex_ = f" (intervals {ivs}, minimum counts {mcs}, step {step_}: forced {got}, expected {want})"
                            raise StopIteration
        except StopIteration:
            pass
        except Exception as exc:  # the closed form needs something outside the stand-ins
            raise AnalysisError(f"yield_moves: forced multiset `{ftxt[:80]}` is outside the recognised spellings and could not be evaluated on the model tables ({type(exc).__name__}: {exc})") from exc
        ok_forced = agree
        L.extra["forced_multiset_model_evaluations"] = n_eval
    L.check(ok_forced, "M3", "yield_moves:forced-multiset", f"{rel}:{dstmt.lineno}", f"forced multiset is `{ftxt[:100]}`, not repeat(due, [minimum_count of each due move]){cex_}",
            "a due move is attempted fewer times than its minimum count", ftxt[:160])
    # slot indices: rng.choice(arange(max_cycles), size=len(forced), replace=False)
    itxt = norm(idx_e)
    okidx = isinstance(idx_e, ast.Call) and norm(idx_e.func) in ("self._rng.choice", "self.context.rng.choice")
    detail = ""
    if okidx:
        kws = {k.arg: k.value for k in idx_e.keywords}
        a0 = norm(idx_e.args[0]) if idx_e.args else ""
        if a0 not in ("np.arange(self.max_cycles)", "self.max_cycles", "range(self.max_cycles)"):
            okidx, detail = False, f"population `{a0}` is not the max_cycles slots"
        rep = kws.get("replace")
        if rep is None and len(idx_e.args) >= 3:
            rep = idx_e.args[2]
        if not (isinstance(rep, ast.Constant) and rep.value is False):
            okidx, detail = False, f"replace={norm(rep) if rep is not None else 'True (default)'}: two forced moves can land on the same slot and one is dropped"
        size = kws.get("size")
        if size is None and len(idx_e.args) >= 2:
            size = idx_e.args[1]
        if size is None or norm(size) not in (f"len({ftxt})",):
            okidx, detail = False, f"size=`{norm(size) if size is not None else None}` is not len(forced multiset)"
    L.check(okidx, "M3", "yield_moves:forced-slots", f"{rel}:{dstmt.lineno}", f"forced slot indices `{itxt[:90]}`: {detail or 'not a choice over the slots'}",
            "minimum_count=2 with replace=True: both copies map to one slot, the move is attempted once", itxt[:160])
    fy = [n for s in forced_branch for n in walk_no_nested(s) if isinstance(n, ast.Yield)]
    okfy = len(fy) == 1 and fy[0].value is not None and norm(fy[0].value) in (f"{mapping_name}[{norm(loop.ast.target)}]", f"{mapping_name}.get({norm(loop.ast.target)})")
    L.check(okfy, "M3", "yield_moves:forced-yield", f"{rel}:{iff.lineno}", "forced slot does not yield the mapped move name", "", norm(forced_branch[0]) if forced_branch else "")

    # ------------------------------------------------------------ free slots (M4)
    ys = [s for s in free_branch if isinstance(s, ast.Expr) and isinstance(s.value, ast.Yield)]
    if len(ys) != 1:
        raise AnalysisError("yield_moves: free-slot branch does not end in one yield")
    ystmt = ys[0]
    yv = ystmt.value.value
    if isinstance(yv, ast.Name):
        yv2 = block_value(free_branch, yv.id, ystmt)
        if yv2 is None:
            yv2 = inl.inline(yv)
        yv = yv2
    okc = isinstance(yv, ast.Call) and norm(yv.func) in ("self._rng.choice", "self.context.rng.choice")
    detail = ""
    if okc:
        a0 = yv.args[0] if yv.args else None
        if a0 is None or norm(inl.inline(a0)) != norm(dcomp):
            okc, detail = False, f"population `{norm(a0) if a0 is not None else None}` is not the due list"
        kws = {k.arg: k.value for k in yv.keywords}
        p = kws.get("p")
        if p is None:
            okc, detail = False, "no p= argument: due moves are chosen uniformly, weights (including weight 0) ignored"
        else:
            if isinstance(p, ast.Name):
                # value just before the statement that performs the draw
                draw_stmt = next(s for s in free_branch if any(isinstance(n, ast.Call) and norm(n) == norm(yv) for n in ast.walk(s)))
                pv = block_value(free_branch, p.id, draw_stmt)
                hops = 0
                while isinstance(pv, ast.Name) and hops < 4:  # a local standing for another local (same array object)
                    pv = block_value(free_branch, pv.id, draw_stmt)
                    hops += 1
            else:
                pv = p
            ptxt = norm(pv) if pv is not None else "<unknown>"
            probs = f"np.array([self.moves[name].probability for name in {dname}])"
            okp = False
            if isinstance(pv, ast.BinOp) and isinstance(pv.op, ast.Div):
                num, den = pv.left, pv.right
                numt = norm(num)
                lc = None
                inner = num.args[0] if isinstance(num, ast.Call) and norm(num.func) in ("np.array", "np.asarray") and num.args else num
                if isinstance(inner, ast.ListComp) and len(inner.generators) == 1 and not inner.generators[0].ifs:
                    g = inner.generators[0]
                    if norm(inl.inline(g.iter)) == norm(dcomp) and norm(inner.elt) == f"self.moves[{norm(g.target)}].probability":
                        lc = inner
                dent = norm(den)
                if lc is not None and dent in (f"np.sum({numt})", f"{numt}.sum()", f"sum({numt})", f"np.sum({norm(inner)})", f"sum({norm(inner)})"):
                    okp = True
            if not okp:
                okc, detail = False, f"p=`{ptxt[:120]}` is not probability/Σprobability over the due list"
    L.check(okc, "M4", "yield_moves:free-slot", f"{rel}:{ystmt.lineno}", f"free slot draw `{norm(yv)[:100]}`: {detail or 'not a weighted choice from the simulation generator'}",
            "a weight-0 move is chosen freely / weights are not honoured", norm(yv)[:160])

    # ------------------------------------------------------------ step(): one move call per yielded name (M1)
    scfg = build_cfg(step.node)
    sloops = [n for n in scfg.nodes if n.kind == "iter" and norm(n.ast.iter) == "self.yield_moves()"]
    if len(sloops) != 1:
        raise AnalysisError("step(): loop over self.yield_moves() not found")
    sl = sloops[0]
    sinl = Inliner(step.node)
    var = norm(sl.ast.target)
    ncalls_ok = True
    for path in scfg.paths(max_back=2, include_exc=False):
        segs = [[]]
        for node, lab in path:
            if node is sl:
                segs.append([])
                continue
            if node.ast is None:
                continue
            root = node.ast if node.kind != "iter" else node.ast.iter
            for c in (n for n in walk_no_nested(root) if isinstance(n, ast.Call)):
                ftxt2 = norm(sinl.inline(c.func))
                if ftxt2 == f"self.moves[{var}].move":
                    segs[-1].append(c)
        for seg in segs[1:-1]:
            if len(seg) != 1:
                ncalls_ok = False
                L.violation("M1", "step:one-move-call", f"{step.module.relpath}:{sl.lineno}", f"one cycle calls the selected move {len(seg)} times", "a cycle attempts zero or several trials", f"{len(seg)} calls")
    if ncalls_ok:
        L.ok("M1", "step:one-move-call", step.where)

    # ------------------------------------------------------------ add_move guard (M5)
    acfg = build_cfg(add.node)
    ins = [n for n in acfg.nodes if n.kind == "stmt" and isinstance(n.ast, ast.Assign) and norm(n.ast.targets[0]).startswith("self.moves[")]
    if len(ins) != 1:
        raise AnalysisError(f"add_move: expected one insertion into self.moves, found {len(ins)}")
    guards = [n for n in acfg.nodes if n.kind == "test" and any(isinstance(s, ast.Raise) for s in _if_body(add.node, n.ast))]
    ainl = Inliner(add.node)
    found = None
    for g in guards:
        t = ainl.inline(g.ast)
        ttxt = norm(t)
        if "minimum_count" in ttxt and "max_cycles" in ttxt:
            found = (g, t)
    if found is None:
        L.violation("M5", "add_move:guard", add.where, "no over-commit guard (Σ minimum_count + new > max_cycles → raise) in add_move", "minimum counts exceeding the cycles are accepted; yield_moves then fails or drops forced moves", "guard")
    else:
        g, t = found
        # sum expression: replace the Σ over existing minimum counts by a symbol
        sums = [n for n in ast.walk(t) if isinstance(n, ast.Call) and norm(n.func) in ("sum", "np.sum")]
        if len(sums) != 1:
            raise AnalysisError(f"add_move guard `{norm(t)[:80]}`: Σ over existing minimum counts not recognised")
        stxt = norm(sums[0])
        # Σ over ALL stored entries: a comprehension over self.moves (names, values or items) without a filter
        ok_sum = False
        sarg = ainl.inline(sums[0].args[0]) if sums[0].args else None
        if isinstance(sarg, (ast.ListComp, ast.GeneratorExp)) and len(sarg.generators) == 1:
            g0 = sarg.generators[0]
            it0 = norm(ainl.inline(g0.iter))
            if not g0.ifs and it0 in ("self.moves", "self.moves.keys()", "self.moves.values()", "self.moves.items()", "list(self.moves)"):
                if it0 in ("self.moves", "self.moves.keys()", "list(self.moves)"):
                    want_elt = (f"self.moves[{norm(g0.target)}].minimum_count",)
                elif it0 == "self.moves.values()":
                    want_elt = (f"{norm(g0.target)}.minimum_count",)
                else:
                    want_elt = (f"{norm(g0.target.elts[1])}.minimum_count", f"self.moves[{norm(g0.target.elts[0])}].minimum_count") if isinstance(g0.target, ast.Tuple) and len(g0.target.elts) == 2 else ()
                ok_sum = norm(sarg.elt) in want_elt
            stxt_show = f"{norm(sarg.elt)} for {norm(g0.target)} in {it0[:60]}" + (f" if {norm(g0.ifs[0])[:50]}" if g0.ifs else "")
        else:
            stxt_show = stxt
        if isinstance(sarg, (ast.SetComp, ast.Set)) or (isinstance(sarg, ast.Call) and norm(sarg.func) in ("set", "frozenset")):
            why = "the counts are collected in a SET: equal minimum counts of different moves are added once"
        elif isinstance(sarg, (ast.ListComp, ast.GeneratorExp)) and sarg.generators and sarg.generators[0].ifs:
            why = "minimum counts committed by moves excluded by the filter (e.g. not due right now, interval > 1) are ignored"
        else:
            why = "some committed minimum counts are not added (or added differently)"
        L.check(ok_sum, "M5", "add_move:sum", f"{add.module.relpath}:{g.lineno}", f"`{stxt_show[:120]}` is not the sum of the minimum counts of ALL stored moves",
                f"{why}: an over-committing move is accepted and a later step cannot place its forced moves", stxt[:120])

        class R(ast.NodeTransformer):
            def visit_Call(self, node):
                if norm(node) == stxt:
                    return ast.Name(id="SIGMA", ctx=ast.Load())
                return self.generic_visit(node)

        t2 = R().visit(copy.deepcopy(t))
        bad = None
        try:
            for a in range(0, 6):
                for b in range(0, 6):
                    for c in range(0, 8):
                        got = bool(ev(t2, {"SIGMA": a, "minimum_count": b, "self.max_cycles": c}))
                        if got != (a + b > c):
                            bad = (a, b, c, got)
        except (PredUnsupported, Raises) as exc:
            raise AnalysisError(f"add_move guard: {exc}") from exc
        L.check(bad is None, "M5", "add_move:guard", f"{add.module.relpath}:{g.lineno}",
                "over-commit guard differs from `Σ + new > max_cycles`: " + (f"Σ={bad[0]}, new={bad[1]}, max_cycles={bad[2]} -> raise={bad[3]}" if bad else ""),
                (f"existing minimum counts {bad[0]}, adding {bad[1]} with max_cycles {bad[2]}" if bad else ""), norm(t)[:160])
        # every path to the insertion passes the guard's false edge
        okdom = acfg.dominates(g, ins[0])
        L.check(okdom, "M5", "add_move:guard-dominates", f"{add.module.relpath}:{ins[0].lineno}", "the over-commit guard does not dominate the insertion into the move table", "a move is inserted without the check on some path", "dominance")


def _if_body(fn: ast.FunctionDef, test: ast.expr) -> list[ast.stmt]:
    for n in walk_no_nested(fn):
        if isinstance(n, ast.If) and n.test is test:
            return n.body
    return []
