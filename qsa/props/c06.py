"""C06 — Same seed, same trajectory.

G1 no foreign randomness anywhere in src/quansino (who-may-call, import aliases resolved)
G2 single provenance of every stochastic call site: Driver._rng, handed once to the context
G3 the seed is honoured for every non-negative integer (finite case analysis None/0/k>0)
G4 no other nondeterminism source (clock, pid, hash/id ordering, set iteration)
"""

from __future__ import annotations

import ast

from ..cases import AV, CaseEval, Undecided
from ..normalize import flat
from ..dataflow import Inliner, local_defs, param_names
from ..loader import AnalysisError, FuncInfo, Program, calls_in, dotted, norm, walk_no_nested
from ..report import Ledger

GEN_METHODS = {
    "random", "uniform", "choice", "standard_normal", "normal", "integers", "permutation", "shuffle",
    "permuted", "exponential", "standard_exponential", "bytes", "beta", "binomial", "gamma", "poisson",
    "multivariate_normal", "triangular", "lognormal", "laplace", "rayleigh", "standard_cauchy",
    "standard_gamma", "standard_t", "vonmises", "wald", "weibull", "zipf", "dirichlet", "multinomial",
    "geometric", "hypergeometric", "logistic", "chisquare", "f", "gumbel", "pareto", "power", "random_raw",
    "logseries", "negative_binomial", "noncentral_chisquare", "noncentral_f",
}
# `power`/`f`/`bytes` are too generic as bare method names: only counted when receiver is RNG-typed
AMBIGUOUS = {"power", "f", "bytes", "gamma", "beta"}
NP_ALLOWED = {"Generator", "PCG64", "PCG64DXSM", "Philox", "SFC64", "MT19937", "BitGenerator", "SeedSequence"}
BITGENS = {"PCG64", "PCG64DXSM", "Philox", "SFC64", "MT19937"}
FOREIGN_MODULES = {"random", "secrets", "uuid"}
FOREIGN_FUNCS = {"os.urandom", "os.getrandom"}
CLOCK = {
    "time.time", "time.time_ns", "time.localtime", "time.gmtime", "time.monotonic", "time.perf_counter",
    "time.process_time", "time.ctime", "time.asctime", "time.strftime", "datetime.datetime.now", "datetime.datetime.today",
    "datetime.datetime.utcnow", "datetime.date.today", "os.getpid", "os.getppid", "os.times",
    "threading.get_ident", "socket.gethostname", "platform.node",
}
# G4 whitelist: one line of reason per entry
CLOCK_WHITELIST = {
    ("Logger.add_opt_fields", "time.localtime"): "wall-clock column for ASE optimisers only; not attached by any quansino driver",
}


def _maximal_chains(tree: ast.AST):
    """Yield maximal Name/Attribute chains in Load context (not part of a longer chain)."""
    parents = {}
    for n in ast.walk(tree):
        for c in ast.iter_child_nodes(n):
            parents[c] = n
    for n in ast.walk(tree):
        if isinstance(n, (ast.Name, ast.Attribute)):
            p = parents.get(n)
            if isinstance(p, ast.Attribute) and p.value is n:
                continue
            d = dotted(n)
            if d:
                yield n, d, parents


def _enclosing_function(prog: Program, mod, node) -> FuncInfo | None:
    best = None
    for fi in prog.iter_functions():
        if fi.module is not mod:
            continue
        f = fi.node
        if f.lineno <= node.lineno <= (f.end_lineno or f.lineno):
            if best is None or f.lineno >= best.node.lineno:
                best = fi
    return best


def _is_set_valued(e: ast.expr, set_locals: set[str]) -> bool:
    """expressions whose value is a set (iteration order = hash order): literals, set()/frozenset(), set comprehensions,
    set algebra on dict key views / sets (`a.keys() & b.keys()`, `s | t`, `s - t`), methods union/intersection/difference"""
    if isinstance(e, (ast.Set, ast.SetComp)):
        return True
    if isinstance(e, ast.Name):
        return e.id in set_locals
    if isinstance(e, ast.IfExp):
        # a value that is a set on one arm is iterated in hash order whenever that arm is taken
        return _is_set_valued(e.body, set_locals) or _is_set_valued(e.orelse, set_locals)
    if isinstance(e, ast.BoolOp):
        return any(_is_set_valued(v, set_locals) for v in e.values)
    if isinstance(e, ast.NamedExpr):
        return _is_set_valued(e.value, set_locals)
    if isinstance(e, ast.Call) and isinstance(e.func, ast.Name) and e.func.id in ("set", "frozenset"):
        return True
    if isinstance(e, ast.Call) and isinstance(e.func, ast.Attribute) and e.func.attr in ("union", "intersection", "difference", "symmetric_difference") \
            and (_is_set_valued(e.func.value, set_locals) or _is_keys_view(e.func.value)):
        return True
    if isinstance(e, ast.BinOp) and isinstance(e.op, (ast.BitAnd, ast.BitOr, ast.BitXor, ast.Sub)):
        sides = (e.left, e.right)
        if any(_is_set_valued(x, set_locals) or _is_keys_view(x) for x in sides):
            return True
    return False


def _is_keys_view(e: ast.expr) -> bool:
    return isinstance(e, ast.Call) and isinstance(e.func, ast.Attribute) and e.func.attr in ("keys", "items") and not e.args


def _set_valued_locals(fn) -> set[str]:
    out: set[str] = set()
    grew = True
    while grew:
        grew = False
        for n in walk_no_nested(fn):
            if isinstance(n, (ast.Assign, ast.AnnAssign)) and n.value is not None:
                for t in (n.targets if isinstance(n, ast.Assign) else [n.target]):
                    if isinstance(t, ast.Name) and t.id not in out and _is_set_valued(n.value, out):
                        out.add(t.id)
                        grew = True
    return out


def _gen_expr_ok(prog: Program, fi, txt: str, ctx_base) -> bool:
    if txt in ("context.rng", "self._rng", "self.context.rng"):
        return True
    return txt == "self.rng" and bool(fi.cls and prog.is_subclass(fi.cls, ctx_base))


def _param_provenance(prog: Program, helper, pname: str, ctx_base, depth: int):
    from ..normalize import resolve_callee

    if depth > 3:
        return False, "helper chain too deep"
    if helper.kind == "method" and helper.name.startswith("__"):
        return False, "special method"
    params = [a.arg for a in helper.node.args.posonlyargs + helper.node.args.args]
    sites = 0
    for fi in prog.iter_functions():
        inl = None
        for call in calls_in(fi.node):
            f = call.func
            nm = f.attr if isinstance(f, ast.Attribute) else (f.id if isinstance(f, ast.Name) else None)
            if nm != helper.name:
                continue
            r = resolve_callee(prog, fi, call, fi.cls)
            if r is None or r[0] is not helper:
                if isinstance(f, ast.Attribute) and helper.cls is not None:
                    return False, f"call `{norm(call)[:50]}` in {fi.qualname} not resolved"
                continue
            sites += 1
            has_recv = r[1] is not None or helper.kind == "class"
            plist = params[1:] if (helper.kind in ("method", "class") and params and params[0] in ("self", "cls")) else params
            arg = None
            if pname in plist and plist.index(pname) < len(call.args):
                arg = call.args[plist.index(pname)]
            for kw in call.keywords:
                if kw.arg == pname:
                    arg = kw.value
            if arg is None or isinstance(arg, ast.Starred):
                return False, f"{fi.qualname} does not pass `{pname}`"
            inl = inl or Inliner(fi.node)
            atxt = norm(inl.inline(arg))
            if _gen_expr_ok(prog, fi, atxt, ctx_base):
                continue
            if atxt in param_names(fi.node) and atxt not in ("self", "cls"):
                ok, why = _param_provenance(prog, fi, atxt, ctx_base, depth + 1)
                if ok:
                    continue
                return False, why
            return False, f"{fi.qualname} passes `{atxt}`"
    if sites == 0:
        return False, "no call site hands it a generator"
    return True, ""


def run(prog: Program, L: Ledger) -> None:
    L.explanation = (
        "C06 decided statically: (G1) every name in src/quansino is resolved through the import tables and none "
        "reaches numpy's global generator, numpy.random.default_rng, stdlib random/secrets/uuid/os.urandom, or an "
        "unseeded bit generator other than the seed-drawing fallback in Driver.__init__; (G2) every call of a numpy "
        "Generator method has a receiver whose provenance is Driver._rng (self._rng or context.rng, the latter bound "
        "once from the former); no other binding of ._rng/.rng exists; (G3) finite case analysis of Driver.__init__ "
        "over seed in {None, 0, k>0}: the value reaching PCG64(...) is the given seed whenever it is not None; "
        "(G4) no clock/pid/hash/id/set-order dependence outside a whitelisted logger column. Not decided: that different "
        "seeds give different trajectories (a property of PCG64), bit-reproducibility of numpy/BLAS."
    )
    L.rule("G1", "no call or reference resolves to a global/fresh random source (numpy.random.* other than Generator/bit-generator classes, random, secrets, uuid, os.urandom); generator construction only in Driver.__init__")
    L.rule("G2", "every stochastic call site's receiver has provenance Driver._rng; .rng/._rng bound exactly once each")
    L.rule("G3", "seed: int|None is honoured for every non-negative int: case analysis None/0/k>0 through Driver.__init__ into PCG64(...)")
    L.rule("G4", "no clock, pid, hash()/id() ordering or set-iteration dependence on simulation paths")
    # G3 (package-wide part): a seed is never truth-tested — 0 is a seed like any other.  Every parameter / local named
    # `seed` (the constructors that accept one and hand it on) is covered, not only Driver.__init__.
    n_seed_fns = 0
    for fi_ in prog.iter_functions():
        names_ = {a_.arg for a_ in fi_.node.args.args + fi_.node.args.kwonlyargs if "seed" in a_.arg.lower()}
        if not names_:
            continue
        n_seed_fns += 1
        for n_ in walk_no_nested(fi_.node):
            tests_ = []
            if isinstance(n_, (ast.If, ast.While, ast.IfExp, ast.Assert)):
                tests_ = [n_.test]
            elif isinstance(n_, ast.BoolOp):
                tests_ = list(n_.values[:-1]) if not isinstance(n_, ast.If) else []
            elif isinstance(n_, ast.UnaryOp) and isinstance(n_.op, ast.Not):
                tests_ = [n_.operand]
            elif isinstance(n_, ast.Call) and isinstance(n_.func, ast.Name) and n_.func.id == "bool" and n_.args:
                tests_ = [n_.args[0]]
            for t_ in tests_:
                while isinstance(t_, ast.UnaryOp) and isinstance(t_.op, ast.Not):
                    t_ = t_.operand
                parts_ = t_.values if isinstance(t_, ast.BoolOp) else [t_]
                for p_ in parts_:
                    if isinstance(p_, ast.Name) and p_.id in names_:
                        L.violation("G3", f"{fi_.qualname}:seed-truth-test", f"{fi_.module.relpath}:{n_.lineno}",
                                    f"`{norm(n_.test if hasattr(n_, 'test') else n_)[:70]}` takes the truth value of `{p_.id}`: seed 0 is treated as no seed",
                                    "seed=0: the seed is dropped on the way to the generator, which is then seeded from OS entropy — two runs with seed 0 differ", norm(p_))
    L.floor("functions that accept a seed (scanned for truth tests of it)", n_seed_fns, 1)
    L.rule("G5", "no mutable object (package-class instance, numpy array, list/dict/set) defined at module or class level is handed out as per-object state: two simulations built in one process share nothing but code and constants")
    from ..sharing import shared_escapes

    esc, n_shared = shared_escapes(prog)
    L.floor("module-level / class-level mutable objects and mutable default arguments examined", n_shared, 5)
    for e_ in esc:
        L.violation("G5", f"{e_.func}:shared-{e_.name}", e_.where,
                    f"`{e_.name}` ({e_.kind}, created once at {e_.defined}) is {e_.how}: every object built this way holds the SAME mutable object",
                    "tune it on one simulation (e.g. move.operation.step_size = …, op.mask[i, :] = False); a second simulation built afterwards in the same process with the same seed and code starts from the tuned value: its trajectory differs from the first run's", e_.name)
    if not esc:
        L.ok("G5", "package:no-shared-mutable-defaults", "src/quansino", f"{n_shared} candidates")
    L.assume("numpy Generator(PCG64(seed)) is a deterministic function of seed and of the sequence of calls made on it")

    driver = prog.cls("Driver")
    init0 = driver.methods.get("__init__")
    init = flat(prog, init0, driver) if init0 is not None else None
    if init is None:
        raise AnalysisError("Driver.__init__ not found")
    # private helpers of the constructor (e.g. a static `_build_generator`) are analysed as part of it — but only when
    # nothing else calls them, otherwise they are a second place where generators are made
    init_helpers = set(getattr(init, "inlined", []))
    changed = True
    while changed:
        changed = False
        for hq in sorted(init_helpers):
            for fi_ in prog.iter_functions():
                if fi_ is init0 or fi_.qualname in init_helpers or fi_.qualname == hq:
                    continue
                if any((isinstance(c.func, ast.Attribute) and c.func.attr == hq.split(".")[-1]) or (isinstance(c.func, ast.Name) and c.func.id == hq.split(".")[-1]) for c in calls_in(fi_.node)):
                    init_helpers.discard(hq)
                    changed = True
                    break

    def all_functions():
        for fi_ in prog.iter_functions():
            if fi_ is init0:
                yield init
            elif fi_.qualname in init_helpers:
                continue
            else:
                yield fi_


    # ---------------------------------------------------------------- G1
    n_refs = 0
    for mod in prog.modules.values():
        for node, d, parents in _maximal_chains(mod.tree):
            if not isinstance(getattr(node, "ctx", None), ast.Load):
                continue
            head = d.split(".")[0]
            if head not in mod.bindings and not any(b.local == head for b in mod.all_bindings):
                continue
            full = prog.resolve_dotted(mod, d)
            parts = full.split(".")
            where = f"{mod.relpath}:{node.lineno}"
            fi = _enclosing_function(prog, mod, node)
            cons = fi.qualname if fi else mod.name
            if parts[0] == "numpy" and len(parts) >= 2 and parts[1] == "random":
                n_refs += 1
                if len(parts) == 2:
                    L.violation("G1", cons, where, f"`{d}` hands out numpy's global random module", "np.random.seed()/global state changes the trajectory", norm(node))
                elif parts[2] not in NP_ALLOWED:
                    L.violation("G1", cons, where, f"`{d}` resolves to {full}: a global or fresh generator, not the simulation's own",
                                "two runs with the same seed differ when numpy's global generator state differs", f"{full}")
                else:
                    L.ok("G1", f"{cons}:{full}", where)
            elif parts[0] in FOREIGN_MODULES or full in FOREIGN_FUNCS or ".".join(parts[:2]) in FOREIGN_FUNCS:
                n_refs += 1
                L.violation("G1", cons, where, f"`{d}` resolves to {full}: randomness outside the simulation's generator",
                            "same seed, different trajectory depending on global/OS state", f"{full}")

    # generator / bit-generator constructions: only in Driver.__init__
    n_ctor = 0
    seed_value_expr = None
    rng_assign = None
    for fi in all_functions():
        for call in calls_in(fi.node):
            d = dotted(call.func)
            if not d:
                continue
            full = prog.resolve_dotted(fi.module, d)
            if not full.startswith("numpy.random."):
                continue
            last = full.split(".")[-1]
            if last not in NP_ALLOWED:
                continue
            n_ctor += 1
            where = f"{fi.module.relpath}:{call.lineno}"
            if fi.cls is not driver or fi.name != "__init__":
                L.violation("G1", fi.qualname, where, f"constructs a {last} outside Driver.__init__ (`{norm(call)}`): a second generator",
                            "draws from it are not tied to the simulation's seed/state (not restored on restart either)", norm(call))
            else:
                L.ok("G1", f"Driver.__init__:{last}-construction", where)

    # ---------------------------------------------------------------- G3 (and the allowed unseeded fallback)
    assigns = [
        (st, st.value)
        for st in walk_no_nested(init.node)
        if isinstance(st, (ast.Assign, ast.AnnAssign)) and st.value is not None
        and any(norm(t) == "self._seed" for t in (st.targets if isinstance(st, ast.Assign) else [st.target]))
    ]
    if len(assigns) != 1:
        raise AnalysisError(f"Driver.__init__: expected exactly one assignment to self._seed, found {len(assigns)}")
    seed_stmt, seed_value_expr = assigns[0]
    rng_assigns = [
        st for st in walk_no_nested(init.node)
        if isinstance(st, (ast.Assign, ast.AnnAssign)) and st.value is not None
        and any(norm(t) == "self._rng" for t in (st.targets if isinstance(st, ast.Assign) else [st.target]))
    ]
    if len(rng_assigns) != 1:
        raise AnalysisError(f"Driver.__init__: expected exactly one assignment to self._rng, found {len(rng_assigns)}")
    rng_assign = rng_assigns[0]
    # shape of the generator construction: Generator(BitGen(<arg>))
    rv = rng_assign.value
    if isinstance(rv, ast.Name):
        rv = Inliner(init.node).inline(rv)
    bitgen_arg = None
    if isinstance(rv, ast.Call) and prog.resolve_dotted(init.module, dotted(rv.func) or "").endswith("numpy.random.Generator") and len(rv.args) == 1:
        inner = rv.args[0]
        if isinstance(inner, ast.Name):
            inner = Inliner(init.node).inline(inner)
        if isinstance(inner, ast.Call) and prog.resolve_dotted(init.module, dotted(inner.func) or "").split(".")[-1] in BITGENS:
            if len(inner.args) == 1 and not inner.keywords:
                bitgen_arg = inner.args[0]
            elif not inner.args and len(inner.keywords) == 1 and inner.keywords[0].arg == "seed":
                bitgen_arg = inner.keywords[0].value
            elif not inner.args and not inner.keywords:
                L.violation("G3", "Driver.__init__", f"{init.module.relpath}:{rng_assign.lineno}",
                            "the simulation's generator is built from an unseeded bit generator", "any seed: trajectory not reproducible", norm(rng_assign))
    if bitgen_arg is None and not any(o.status == "violation" and o.rule == "G3" for o in L.obligations):
        raise AnalysisError(f"Driver.__init__: generator construction `{norm(rng_assign)}` is not of the form Generator(BitGen(seed))")

    where_seed = f"{init.module.relpath}:{seed_stmt.lineno}"
    if bitgen_arg is not None:
        for case, av in (("None", AV("none", "seed")), ("0", AV("int0", "seed")), ("k>0", AV("intpos", "seed"))):
            ev = CaseEval({"seed": av})
            try:
                hit = {"v": None}

                def stop(st, ce, _hit=hit):
                    if st is rng_assign:
                        _hit["v"] = ce.ev(bitgen_arg)
                        return True
                    return False

                r = ev.run(init.body(), stop)
            except Undecided as exc:
                if case == "None":
                    continue  # only the not-None cases carry an obligation
                raise AnalysisError(f"Driver.__init__ seed path, case seed={case}: {exc}") from exc
            got = hit["v"]
            if r == "raise":
                if case != "None":
                    L.violation("G3", "Driver.__init__", where_seed, f"seed={case} is rejected (raises)", f"seed={case}", norm(seed_stmt))
                continue
            if got is None:
                raise AnalysisError(f"Driver.__init__ seed path, case seed={case}: generator construction not reached")
            if case == "None":
                L.check(got.origin != "seed" or got.kind != "none", "G3", "Driver.__init__[seed=None]", where_seed,
                        "seed=None reaches the bit generator as None only through an explicit fallback", "")
                continue
            L.check(
                got.origin == "seed", "G3", f"Driver.__init__[seed={case}]", where_seed,
                f"for seed={case} the value reaching the bit generator is `{got}` instead of the given seed: `{norm(seed_stmt)}`",
                f"seed={case}: `{norm(seed_value_expr)}` evaluates its fallback, so two runs with seed={case} get different generators",
                norm(seed_stmt),
            )

    # unseeded bit generators: allowed only inside the _seed fallback
    inl_seed = norm(Inliner(init.node).inline(seed_value_expr))
    seed_names = {n.id for n in ast.walk(seed_value_expr) if isinstance(n, ast.Name)}
    grew = True
    while grew:  # locals that (transitively) feed self._seed
        grew = False
        for st in walk_no_nested(init.node):
            if isinstance(st, (ast.Assign, ast.AnnAssign)) and st.value is not None:
                tg = st.targets if isinstance(st, ast.Assign) else [st.target]
                if any(isinstance(t, ast.Name) and t.id in seed_names for t in tg):
                    more = {n.id for n in ast.walk(st.value) if isinstance(n, ast.Name)} - seed_names
                    if more:
                        seed_names |= more
                        grew = True
    for st in walk_no_nested(init.node):
        if isinstance(st, (ast.Assign, ast.AnnAssign)) and st.value is not None and st is not rng_assign:
            tg = st.targets if isinstance(st, ast.Assign) else [st.target]
            if st is seed_stmt or any(isinstance(t, ast.Name) and t.id in seed_names for t in tg):
                # statements feeding self._seed: their text counts as part of the fallback (the case
                # analysis above already showed they do not run when a seed is given)
                inl_seed += " ; " + norm(st.value)
    for fi in all_functions():
        for call in calls_in(fi.node):
            d = dotted(call.func)
            if not d:
                continue
            last = prog.resolve_dotted(fi.module, d).split(".")
            if len(last) >= 3 and last[0] == "numpy" and last[1] == "random" and last[-1] in BITGENS | {"Generator"}:
                unseeded = (not call.args and not call.keywords) or (
                    len(call.args) == 1 and isinstance(call.args[0], ast.Constant) and call.args[0].value is None
                )
                if not unseeded:
                    continue
                where = f"{fi.module.relpath}:{call.lineno}"
                if fi is init and norm(call) in inl_seed:
                    L.ok("G1", "Driver.__init__:seed-fallback", where, "unseeded bit generator used only to draw a seed when none is given")
                else:
                    L.violation("G1", fi.qualname, where, f"unseeded `{norm(call)}`: OS entropy outside the documented seed fallback",
                                "same seed, different trajectory", norm(call))

    # ---------------------------------------------------------------- G2
    # (a) bindings of .rng / ._rng
    rng_bind = []
    for fi in all_functions():
        for st in walk_no_nested(fi.node):
            tgts = []
            if isinstance(st, ast.Assign):
                tgts = st.targets
            elif isinstance(st, (ast.AnnAssign, ast.AugAssign)):
                tgts = [st.target]
            for t in tgts:
                for sub in ast.walk(t):
                    if isinstance(sub, ast.Attribute) and sub.attr in ("rng", "_rng") and isinstance(sub.ctx, ast.Store):
                        rng_bind.append((fi, st, sub))
            if isinstance(st, ast.Expr) and isinstance(st.value, ast.Call) and isinstance(st.value.func, ast.Name) and st.value.func.id == "setattr":
                a = st.value.args
                if len(a) == 3 and isinstance(a[1], ast.Constant) and a[1].value in ("rng", "_rng"):
                    rng_bind.append((fi, st, a[1]))
    ctx_base = prog.cls("Context")
    for fi, st, sub in rng_bind:
        where = f"{fi.module.relpath}:{st.lineno}"
        val = getattr(st, "value", None)
        if fi is init and st is rng_assign:
            L.ok("G2", "bind:Driver._rng", where)
        elif (
            fi.cls is not None and prog.is_subclass(fi.cls, ctx_base) and fi.name == "__init__"
            and isinstance(val, ast.Name) and val.id in param_names(fi.node) and norm(sub) == "self.rng"
        ):
            L.ok("G2", f"bind:{fi.cls.name}.rng<-ctor-param", where)
        else:
            L.violation("G2", fi.qualname, where, f"re-binds the generator: `{norm(st)}`",
                        "after this statement draws no longer come from (or no longer advance) the seeded Driver._rng", norm(st))
    # (b) every context construction passes self._rng
    n_ctx_ctor = 0
    ctx_classes = set(prog.subclasses(ctx_base))
    for fi in all_functions():
        cinl = None
        for call in calls_in(fi.node):
            target = None
            d = dotted(call.func)
            if isinstance(call.func, ast.Name) and call.func.id not in fi.module.bindings:
                cinl = cinl or Inliner(fi.node)
                d = dotted(cinl.inline(call.func)) or d  # a local standing for the context class
            if d == "self.default_context":
                target = "default_context"
            elif d:
                r = prog.classes.get(prog.resolve_dotted(fi.module, d))
                if r is not None and r in ctx_classes:
                    target = r.name
            if target is None:
                continue
            # rng argument: second positional or keyword rng
            arg = None
            if len(call.args) >= 2:
                arg = call.args[1]
            for kw in call.keywords:
                if kw.arg == "rng":
                    arg = kw.value
            n_ctx_ctor += 1
            where = f"{fi.module.relpath}:{call.lineno}"
            ok = arg is not None and norm(arg) in ("self._rng",)
            if not ok and arg is not None and isinstance(arg, ast.Name) and arg.id in param_names(fi.node):
                ok = True  # forwarded parameter (e.g. super().__init__(atoms, rng))
            L.check(ok, "G2", f"{fi.qualname}:ctx-ctor({target})", where,
                    f"context constructed with generator `{norm(arg) if arg is not None else '<missing>'}` instead of self._rng",
                    "moves/criteria draw from a generator that is not the seeded one", norm(call))
    # super().__init__(atoms, rng) chains inside contexts are forwarding; fine.
    if n_ctx_ctor < 1:
        raise AnalysisError("no context construction site found (MonteCarlo.__init__ anchor vanished)")

    # (c) stochastic call sites
    n_sites = 0
    for fi in all_functions():
        inl = Inliner(fi.node)
        for call in calls_in(fi.node):
            if not isinstance(call.func, ast.Attribute):
                continue
            meth = call.func.attr
            if meth not in GEN_METHODS:
                continue
            recv = call.func.value
            rtxt = norm(recv)
            r_inl = norm(inl.inline(recv)) if isinstance(recv, ast.Name) else rtxt
            is_rng_like = r_inl.endswith(".rng") or r_inl.endswith("._rng") or r_inl in ("rng", "_rng")
            full = prog.resolve_dotted(fi.module, dotted(recv) or "") if dotted(recv) else ""
            if full.startswith("numpy.random") or full in FOREIGN_MODULES:
                continue  # reported by G1
            if not is_rng_like:
                if meth in AMBIGUOUS or full.startswith("numpy") or full.startswith("math") or full.startswith("scipy"):
                    continue
                # a call of a Generator-named method on something that is not the simulation generator
                if isinstance(recv, ast.Call):
                    rd = prog.resolve_dotted(fi.module, dotted(recv.func) or "")
                    if rd.startswith("numpy.random"):
                        if fi is init and norm(call) in inl_seed:
                            continue
                        n_sites += 1
                        L.violation("G2", fi.qualname, f"{fi.module.relpath}:{call.lineno}", f"draw from a fresh generator `{norm(call)}`", "not reproducible from the seed", norm(call))
                        continue
                if isinstance(recv, ast.Name) and recv.id in param_names(fi.node):
                    ann = norm(fi.node.args) if False else ""
                continue
            n_sites += 1
            where = f"{fi.module.relpath}:{call.lineno}"
            ok = _gen_expr_ok(prog, fi, r_inl, ctx_base)
            if not ok and r_inl in param_names(fi.node) and r_inl not in ("self", "cls"):
                # the generator arrives as a parameter of an internal helper: every call site of the helper
                # must hand it the simulation generator (followed through at most three helper levels)
                ok, why = _param_provenance(prog, fi, r_inl, ctx_base, 0)
                if not ok:
                    r_inl = f"{r_inl} (parameter; {why})"
            L.check(ok, "G2", f"{fi.qualname}:{rtxt}.{meth}", where,
                    f"stochastic call `{norm(call)}` on receiver `{r_inl}` whose provenance is not Driver._rng",
                    "draws bypass the seeded generator", norm(call))
    L.floor("stochastic call sites (numpy Generator methods on the simulation generator)", n_sites, 24)

    # (d) third-party stochastic entry points: anything named like a sampler, called on an external
    #     (non-quansino, non-numpy.random) object, must be handed the simulation generator explicitly
    STOCH = {"random", "rvs", "rand", "randn", "randint", "random_sample", "sample", "shuffle", "permutation", "choice",
             "uniform", "normal", "standard_normal", "integers", "rattle", "random_rotation", "random_state"}
    n_ext = 0
    for fi in all_functions():
        inl = Inliner(fi.node)
        for call in calls_in(fi.node):
            if not isinstance(call.func, ast.Attribute) or call.func.attr not in STOCH:
                continue
            recv = call.func.value
            d = dotted(recv)
            if d is None and isinstance(recv, ast.Call):
                d = dotted(recv.func)
            if d is None:
                continue
            head = d.split(".")[0]
            if head in ("self", "context") or d.endswith("rng") or d.endswith("_rng"):
                continue
            if head not in fi.module.bindings and not any(b.local == head for b in fi.module.all_bindings):
                continue
            full = prog.resolve_dotted(fi.module, d)
            if full.startswith(prog.package) or full.startswith("numpy.random") or full.split(".")[0] in FOREIGN_MODULES:
                continue  # internal, or already judged by G1
            if full.split(".")[0] in ("numpy", "math") and call.func.attr not in ("random", "rand", "randn"):
                continue
            n_ext += 1
            gen_kw = None
            for kw in call.keywords:
                if kw.arg in ("rng", "random_state", "seed"):
                    gen_kw = kw.value
            okg = gen_kw is not None and norm(inl.inline(gen_kw)) in ("context.rng", "self._rng", "self.context.rng")
            L.check(okg, "G1", f"{fi.qualname}:{full}.{call.func.attr}", f"{fi.module.relpath}:{call.lineno}",
                    f"`{norm(call)[:80]}` draws random numbers through {full}.{call.func.attr} without being handed the simulation generator "
                    f"({'no rng/random_state argument' if gen_kw is None else 'argument `' + norm(gen_kw) + '` is not the simulation generator'}): it falls back to a global or fresh generator",
                    "two runs with the same seed differ when the global numpy/Python generator state differs", norm(call)[:100])
    L.ok("G1", "third-party-samplers", "src/quansino", f"{n_ext} external sampler call sites classified")

    # ---------------------------------------------------------------- G4
    n_g4 = 0
    for fi in all_functions():
        for call in calls_in(fi.node):
            d = dotted(call.func)
            if not d:
                continue
            full = prog.resolve_dotted(fi.module, d)
            where = f"{fi.module.relpath}:{call.lineno}"
            if full in CLOCK:
                n_g4 += 1
                if (fi.qualname, full) in CLOCK_WHITELIST:
                    L.ok("G4", f"{fi.qualname}:{full}", where, CLOCK_WHITELIST[(fi.qualname, full)])
                else:
                    L.violation("G4", fi.qualname, where, f"reads {full}: run-dependent value on a simulation path", "two identical runs differ", norm(call))
            if d in ("hash", "id") and fi.module.name.split(".")[1:2] not in (["io"],):
                # hash()/id() feeding an ordering or a selection
                L.note(f"{fi.qualname} calls {d}() at {where} (identity/hash use; checked for ordering below)")
        set_locals = _set_valued_locals(fi.node)
        for n in walk_no_nested(fi.node):
            it = None
            if isinstance(n, ast.For):
                it = n.iter
            elif isinstance(n, ast.comprehension):
                it = n.iter
            elif isinstance(n, ast.Call) and isinstance(n.func, ast.Name) and n.func.id in ("list", "tuple", "enumerate", "iter", "next", "zip") and n.args:
                it = n.args[0]  # materialising a set in hash order
            elif isinstance(n, ast.Call) and isinstance(n.func, ast.Attribute) and n.func.attr in ("choice", "permutation", "shuffle", "repeat", "array", "asarray", "fromiter") and n.args:
                it = n.args[0]
            if it is not None:
                is_set = _is_set_valued(it, set_locals)
                if is_set:
                    n_g4 += 1
                    L.violation("G4", fi.qualname, f"{fi.module.relpath}:{it.lineno}", f"iterates a set `{norm(it)}`: order depends on hashing",
                                "string hashing is randomised per process; order-dependent draws then differ between runs", norm(it))
            if isinstance(n, ast.Call) and isinstance(n.func, ast.Name) and n.func.id in ("sorted", "min", "max"):
                for kw in n.keywords:
                    if kw.arg == "key" and norm(kw.value) in ("id", "hash"):
                        n_g4 += 1
                        L.violation("G4", fi.qualname, f"{fi.module.relpath}:{n.lineno}", f"orders by {norm(kw.value)}()", "address/hash dependent order", norm(n))
    L.ok("G4", "package-scan", "src/quansino", f"{n_g4} clock/set/hash sites classified")
