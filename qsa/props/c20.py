"""C20 — drivers use custom moves and criteria only through the documented protocol.

P1 surface: in quansino.mc.* and quansino.utils.moves every attribute read or call on a user move /
   criteria object (MoveStorage.move / .criteria, add_move's parameters, locals bound to them) uses a
   member of Move ∪ Serializable resp. Criteria ∪ Serializable — the surface is extracted from
   protocols.py on each run
P2 verdict routing in MonteCarlo.step: truthy move result ⇒ criteria.evaluate(context) then save/revert;
   falsy ⇒ history entry None and no evaluate; every trial is recorded
P3 notifications: drivers that can accept an atom-count change call on_atoms_changed, drivers that can
   accept a cell change call on_cell_changed, on stored moves on the accept path
P4 the simulation dictionary reaches move.to_dict() and criteria.to_dict() for every stored entry
"""

from __future__ import annotations

import ast

from ..loader import AnalysisError, ClassInfo, FuncInfo, Program, calls_in, norm, walk_no_nested
from ..report import Ledger
from ..serial import DV, EV, emitted_schema, protocol_members


def _storage_names(fi: FuncInfo) -> set[str]:
    """Local names bound to MoveStorage objects inside ``fi``."""
    out = set()
    for n in walk_no_nested(fi.node):
        if isinstance(n, ast.For):
            it = norm(n.iter)
            if it in ("self.moves.values()", "mc.moves.values()"):
                if isinstance(n.target, ast.Name):
                    out.add(n.target.id)
            elif it in ("self.moves.items()", "mc.moves.items()") and isinstance(n.target, ast.Tuple) and len(n.target.elts) == 2 and isinstance(n.target.elts[1], ast.Name):
                out.add(n.target.elts[1].id)
        elif isinstance(n, ast.comprehension):
            it = norm(n.iter)
            if it in ("self.moves.values()",) and isinstance(n.target, ast.Name):
                out.add(n.target.id)
            elif it in ("self.moves.items()",) and isinstance(n.target, ast.Tuple) and isinstance(n.target.elts[1], ast.Name):
                out.add(n.target.elts[1].id)
        elif isinstance(n, ast.Assign) and len(n.targets) == 1 and isinstance(n.targets[0], ast.Name):
            v = n.value
            if isinstance(v, ast.Subscript) and norm(v.value) in ("self.moves", "mc.moves"):
                out.add(n.targets[0].id)
            if isinstance(v, ast.Call) and norm(v.func) in ("self.moves.get",):
                out.add(n.targets[0].id)
        elif isinstance(n, ast.NamedExpr) and isinstance(n.value, ast.Call) and norm(n.value.func) == "self.moves.get":
            out.add(n.target.id)
    return out


def _is_storage_expr(e: ast.expr, storages: set[str], in_storage_class: bool) -> bool:
    if isinstance(e, ast.Name):
        return e.id in storages or (in_storage_class and e.id == "self")
    if isinstance(e, ast.Subscript) and norm(e.value) in ("self.moves", "mc.moves"):
        return True
    return False


def run(prog: Program, L: Ledger) -> None:
    L.explanation = (
        "C20 decided by a who-may-access analysis: the protocol surface (Move, Criteria, Serializable members) is read from "
        "protocols.py on each run; in every function of quansino.mc.* and quansino.utils.moves the expressions that denote user objects "
        "(MoveStorage.move/.criteria on storage-typed expressions, add_move's parameters, locals bound to either) are collected by "
        "dataflow and every attribute taken on them must belong to the surface. The verdict routing of MonteCarlo.step is checked on its "
        "structure (truthy ⇒ evaluate then save/revert, falsy ⇒ None without evaluate, every trial recorded); each driver's accept path "
        "(save_state chain along the MRO) must notify stored moves of atom-count changes when its context carries exchange bookkeeping and "
        "of cell changes when its context carries a cell; the simulation dictionary must reach move.to_dict()/criteria.to_dict()."
    )
    L.rule("P1", "every attribute/call on a user move (criteria) object in the drivers' code is a member of Move ∪ Serializable (Criteria ∪ Serializable)")
    L.rule("P2", "MonteCarlo.step: truthy move result ⇒ criteria.evaluate(context) then exactly save/revert; falsy ⇒ is_accepted None, no evaluate; history appended on every path")
    L.rule("P3", "accept path notifies stored moves: on_atoms_changed where the atom count can change, on_cell_changed where the cell can change")
    L.rule("P4", "MonteCarlo.to_dict → MoveStorage.to_dict → move.to_dict() and criteria.to_dict() for every stored entry")

    pm = prog.module(f"{prog.package}.protocols")
    for nme in ("Move", "Criteria", "Serializable"):
        if nme not in pm.classes:
            raise AnalysisError(f"protocol {nme} missing")
    move_surface = protocol_members(prog, pm.classes["Move"])
    crit_surface = protocol_members(prog, pm.classes["Criteria"])
    L.extra["move_surface"] = sorted(move_surface)
    L.extra["criteria_surface"] = sorted(crit_surface)
    for need in ("__call__", "on_atoms_changed", "on_cell_changed", "to_dict", "from_dict"):
        if need not in move_surface:
            raise AnalysisError(f"Move protocol no longer declares {need}")

    # ------------------------------------------------------------------ P1
    n_uses = 0
    storage_cls = prog.cls("MoveStorage")
    scope = [fi for fi in prog.iter_functions() if fi.module.name.startswith(f"{prog.package}.mc.") or fi.module.name == f"{prog.package}.utils.moves"]
    for fi in scope:
        in_storage = fi.cls is storage_cls
        storages = _storage_names(fi)
        move_names, crit_names = set(), set()
        if fi.name == "add_move":
            move_names.add("move")
            crit_names.add("criteria")
        # locals bound to <storage>.move / .criteria
        for n in walk_no_nested(fi.node):
            if isinstance(n, ast.Assign) and len(n.targets) == 1 and isinstance(n.targets[0], ast.Name) and isinstance(n.value, ast.Attribute):
                if n.value.attr == "move" and _is_storage_expr(n.value.value, storages, in_storage):
                    move_names.add(n.targets[0].id)
                if n.value.attr == "criteria" and _is_storage_expr(n.value.value, storages, in_storage):
                    crit_names.add(n.targets[0].id)

        def kind_of(e):
            if isinstance(e, ast.Name):
                if e.id in move_names:
                    return "move"
                if e.id in crit_names:
                    return "criteria"
            if isinstance(e, ast.Attribute) and _is_storage_expr(e.value, storages, in_storage):
                if e.attr == "move":
                    return "move"
                if e.attr == "criteria":
                    return "criteria"
            return None

        for n in walk_no_nested(fi.node):
            if isinstance(n, ast.Attribute):
                k = kind_of(n.value)
                if k is None:
                    continue
                n_uses += 1
                surface = move_surface if k == "move" else crit_surface
                where = f"{fi.module.relpath}:{n.lineno}"
                if n.attr in surface:
                    L.ok("P1", f"{fi.qualname}:{k}.{n.attr}", where)
                else:
                    rw = "writes" if isinstance(n.ctx, ast.Store) else "reads"
                    L.violation("P1", f"{fi.qualname}:{k}.{n.attr}", where,
                                f"{fi.qualname} {rw} `{norm(n)}` on a user {k} object: `{n.attr}` is not part of the documented protocol ({', '.join(sorted(surface))})",
                                f"a structurally conforming user {k} without `{n.attr}`: AttributeError / silently different behaviour in {fi.qualname}", norm(n))
            elif isinstance(n, ast.Compare):
                sides = [n.left] + list(n.comparators)
                for op, a, b in zip(n.ops, sides, sides[1:]):
                    if isinstance(op, (ast.Eq, ast.NotEq, ast.In, ast.NotIn, ast.Lt, ast.LtE, ast.Gt, ast.GtE)):
                        for side in (a, b):
                            k = kind_of(side)
                            if k is None or (isinstance(op, (ast.In, ast.NotIn)) and side is b):
                                continue
                            other = b if side is a else a
                            if isinstance(other, ast.Constant) and other.value is None:
                                continue
                            n_uses += 1
                            L.violation("P1", f"{fi.qualname}:{k}.__eq__", f"{fi.module.relpath}:{n.lineno}",
                                        f"`{norm(n)[:80]}` compares / looks up a user {k} object by value: this calls its __eq__ (or __hash__), which is not part of the documented protocol — only identity (`is`, id()) is",
                                        f"two distinct user {k}s that compare equal (e.g. dataclasses with equal settings): one of them is treated as the other (here: skipped)", norm(n)[:100])
            elif isinstance(n, ast.Call) and isinstance(n.func, ast.Attribute) and n.func.attr in ("index", "count", "remove", "add", "discard") and n.args and kind_of(n.args[0]) is not None and not norm(n.func).startswith("self.move_history"):
                n_uses += 1
                L.violation("P1", f"{fi.qualname}:{kind_of(n.args[0])}.__eq__/__hash__", f"{fi.module.relpath}:{n.lineno}",
                            f"`{norm(n)[:80]}` stores / searches a user object by value (its __eq__/__hash__): not part of the documented protocol",
                            "distinct user objects that compare equal are conflated", norm(n)[:100])
            elif isinstance(n, ast.Call) and kind_of(n.func) == "move":
                n_uses += 1
                L.ok("P1", f"{fi.qualname}:move.__call__", f"{fi.module.relpath}:{n.lineno}")
            elif isinstance(n, ast.Call) and isinstance(n.func, ast.Name) and n.func.id in ("getattr", "setattr", "hasattr", "delattr") and n.args and kind_of(n.args[0]) is not None:
                n_uses += 1
                L.violation("P1", f"{fi.qualname}:{n.func.id}", f"{fi.module.relpath}:{n.lineno}", f"`{norm(n)[:80]}` reflects on a user object", "driver depends on attributes outside the protocol", norm(n)[:100])
    L.floor("uses of user move/criteria objects in the drivers' code", n_uses, 4)

    # isinstance lookups on the move are confined to the default-criteria branch
    mc = prog.cls("MonteCarlo")
    add = mc.methods.get("add_move")
    if add is None:
        raise AnalysisError("MonteCarlo.add_move missing")
    for c in calls_in(add.node):
        if isinstance(c.func, ast.Name) and c.func.id == "isinstance" and c.args and norm(c.args[0]) == "move":
            guarded = False
            for n in walk_no_nested(add.node):
                if isinstance(n, ast.If) and norm(n.test) == "criteria is None" and any(x is c for x in ast.walk(n)):
                    guarded = True
            L.check(guarded, "P1", "MonteCarlo.add_move:isinstance", f"{add.module.relpath}:{c.lineno}",
                    "isinstance test on the user move outside the `criteria is None` default lookup", "a move that inherits from nothing is rejected even with an explicit criteria", norm(c))

    # ------------------------------------------------------------------ P2
    step = mc.methods.get("step")
    if step is None:
        raise AnalysisError("MonteCarlo.step missing")
    loops = [s for s in step.body() if isinstance(s, ast.For) and norm(s.iter) == "self.yield_moves()"]
    if len(loops) != 1:
        raise AnalysisError("MonteCarlo.step: loop over yield_moves not found")
    lp = loops[0]
    ifs = [s for s in lp.body if isinstance(s, ast.If)]
    mv_if = None
    for s in ifs:
        t = s.test
        if isinstance(t, ast.Call) and [norm(a) for a in t.args] == ["self.context"]:
            mv_if = s
    if mv_if is None:
        raise AnalysisError("MonteCarlo.step: `if move(self.context):` not found")
    body_txt = [norm(x) for x in mv_if.body]
    ev_calls = [c for x in mv_if.body for c in calls_in(x) if isinstance(c.func, ast.Attribute) and c.func.attr == "evaluate"]
    ok_t = len(ev_calls) == 1 and [norm(a) for a in ev_calls[0].args] == ["self.context"]
    L.check(ok_t, "P2", "MonteCarlo.step:truthy", f"{step.module.relpath}:{mv_if.lineno}", "a truthy move result is not sent to criteria.evaluate(self.context) exactly once", "trial accepted/rejected without consulting the criteria", ";".join(body_txt)[:120])
    inner = [x for x in mv_if.body if isinstance(x, ast.If)]
    ok_sr = False
    if len(inner) == 1:
        a = [norm(c.func) for x in inner[0].body for c in calls_in(x)]
        b = [norm(c.func) for x in inner[0].orelse for c in calls_in(x)]
        ok_sr = a == ["self.save_state"] and b == ["self.revert_state"] and norm(inner[0].test) == "is_accepted"
    L.check(ok_sr, "P2", "MonteCarlo.step:save-or-revert", f"{step.module.relpath}:{mv_if.lineno}", "verdict is not routed to save_state (truthy) / revert_state (falsy)", "accepted trial reverted or rejected trial kept", "route")
    else_ev = [c for x in mv_if.orelse for c in calls_in(x) if isinstance(c.func, ast.Attribute) and c.func.attr in ("evaluate", "save_state", "revert_state")]
    else_none = any(isinstance(x, ast.Assign) and norm(x.targets[0]) == "is_accepted" and norm(x.value) == "None" for x in mv_if.orelse)
    L.check(not else_ev and else_none, "P2", "MonteCarlo.step:falsy", f"{step.module.relpath}:{mv_if.lineno}", "a falsy move result is not recorded as not attempted (None) without evaluating the criteria", "failed trials counted as rejections / criteria evaluated on an unchanged system", "falsy")
    app = [x for x in lp.body if isinstance(x, ast.Expr) and isinstance(x.value, ast.Call) and norm(x.value.func) == "self.move_history.append"]
    L.check(len(app) == 1 and norm(app[0].value.args[0]) == f"({norm(lp.target)}, is_accepted)", "P2", "MonteCarlo.step:history", f"{step.module.relpath}:{lp.lineno}", "the trial is not appended to move_history as (name, verdict) on every path", "", "history")

    # ------------------------------------------------------------------ P3
    exch = prog.cls("ExchangeContext")
    defo = prog.cls("DeformationContext")
    n3 = 0
    for d in prog.subclasses(mc):
        ctx = prog.classvar_class(d, "default_context")
        if ctx is None:
            continue
        chain = prog.super_chain(d, "save_state")
        called = set()
        for f in chain:
            for c in calls_in(f.node):
                if isinstance(c.func, ast.Attribute) and c.func.attr in ("on_atoms_changed", "on_cell_changed"):
                    called.add(c.func.attr)
        if exch in prog.mro(ctx):
            n3 += 1
            L.check("on_atoms_changed" in called, "P3", f"{d.name}:on_atoms_changed", d.where,
                    f"{d.name} can accept insertions/deletions (context {ctx.name}) but its accept path never calls on_atoms_changed on the stored moves",
                    "a user move keeping per-atom state is not told that atoms were added or removed", "on_atoms_changed")
        if defo in prog.mro(ctx):
            n3 += 1
            L.check("on_cell_changed" in called, "P3", f"{d.name}:on_cell_changed", d.where,
                    f"{d.name} can accept cell changes (context {ctx.name}) but its accept path ({', '.join(f.qualname for f in chain)}) never calls on_cell_changed on the stored moves",
                    "a user move implementing on_cell_changed (documented in the Move protocol) is never notified of an accepted cell move", "on_cell_changed")
    L.floor("driver notification obligations", n3, 3)

    # ------------------------------------------------------------------ P4
    sch = emitted_schema(prog, storage_cls)
    kw = sch.items.get("kwargs") if sch else None
    okm = isinstance(kw, DV) and isinstance(kw.items.get("move"), EV) and norm(kw.items["move"].expr) == "self.move.to_dict()"
    okc = isinstance(kw, DV) and isinstance(kw.items.get("criteria"), EV) and norm(kw.items["criteria"].expr) == "self.criteria.to_dict()"
    L.check(okm and okc, "P4", "MoveStorage.to_dict", storage_cls.where, "MoveStorage.to_dict does not emit move.to_dict() and criteria.to_dict()", "custom components are not serialized with the simulation", "to_dict")
    msch = emitted_schema(prog, mc)
    mv = msch.items.get("moves") if msch else None
    okmv = isinstance(mv, EV) and "move_storage.to_dict()" in norm(mv.expr) and "self.moves.items()" in norm(mv.expr)
    L.check(okmv, "P4", "MonteCarlo.to_dict:moves", mc.where, "MonteCarlo.to_dict does not serialize every move-table entry", "", norm(mv.expr)[:100] if isinstance(mv, EV) else "")
