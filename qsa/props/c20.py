"""C20 — drivers use custom moves and criteria only through the documented protocol.

P1 surface: in quansino.mc.* and quansino.utils.moves every attribute read or call on a user move /
   criteria object (MoveStorage.move / .criteria, add_move's parameters, locals bound to them) uses a
   member of Move ∪ Serializable resp. Criteria ∪ Serializable — the surface is extracted from
   protocols.py on each run
P2 verdict routing in MonteCarlo.step: truthy move result ⇒ criteria.evaluate(context) then save/revert;
   falsy ⇒ history entry None and no evaluate; every trial is recorded
P3 notifications: drivers that can accept an atom-count change call on_atoms_changed, drivers that can
   accept a cell change call on_cell_changed, on stored moves on the accept path
P4 the simulation dictionary reaches move.to_dict() and criteria.to_dict() for every stored entry
"""

from __future__ import annotations

import ast

from ..dataflow import Inliner
from ..loader import AnalysisError, ClassInfo, FuncInfo, Program, calls_in, norm, walk_no_nested
from ..report import Ledger
from ..serial import DV, EV, emitted_schema, protocol_members


def _storage_names(fi: FuncInfo) -> set[str]:
    """Local names bound to MoveStorage objects inside ``fi``."""
    out = set()
    for n in walk_no_nested(fi.node):
        if isinstance(n, ast.For):
            it = norm(n.iter)
            if it in ("self.moves.values()", "mc.moves.values()"):
                if isinstance(n.target, ast.Name):
                    out.add(n.target.id)
            elif it in ("self.moves.items()", "mc.moves.items()") and isinstance(n.target, ast.Tuple) and len(n.target.elts) == 2 and isinstance(n.target.elts[1], ast.Name):
                out.add(n.target.elts[1].id)
        elif isinstance(n, ast.comprehension):
            it = norm(n.iter)
            if it in ("self.moves.values()",) and isinstance(n.target, ast.Name):
                out.add(n.target.id)
            elif it in ("self.moves.items()",) and isinstance(n.target, ast.Tuple) and isinstance(n.target.elts[1], ast.Name):
                out.add(n.target.elts[1].id)
        elif isinstance(n, ast.Assign) and len(n.targets) == 1 and isinstance(n.targets[0], ast.Name):
            v = n.value
            if isinstance(v, ast.Subscript) and norm(v.value) in ("self.moves", "mc.moves"):
                out.add(n.targets[0].id)
            if isinstance(v, ast.Call) and norm(v.func) in ("self.moves.get",):
                out.add(n.targets[0].id)
        elif isinstance(n, ast.NamedExpr) and isinstance(n.value, ast.Call) and norm(n.value.func) == "self.moves.get":
            out.add(n.target.id)
    return out


def _collection_annotation(ann) -> str | None:
    """`Iterable[MoveType]`, `list[Move]`, `Sequence[CriteriaType]` … → kind of the elements"""
    if ann is None:
        return None
    if isinstance(ann, ast.Constant) and isinstance(ann.value, str):
        try:
            ann = ast.parse(ann.value, mode="eval").body
        except SyntaxError:
            return None
    if isinstance(ann, ast.Subscript) and norm(ann.value).split(".")[-1] in ("Iterable", "Iterator", "Sequence", "Collection", "list", "List", "tuple", "Tuple", "set", "Set", "frozenset"):
        inner = ann.slice.elts[0] if isinstance(ann.slice, ast.Tuple) and ann.slice.elts else ann.slice
        base = norm(inner).split("[")[0].strip("'\"")
        if base in ("MoveType", "Move", "MoveProtocol"):
            return "move"
        if base in ("CriteriaType", "Criteria", "CriteriaProtocol"):
            return "criteria"
    return None


def _is_storage_expr(e: ast.expr, storages: set[str], in_storage_class: bool) -> bool:
    if isinstance(e, ast.Name):
        return e.id in storages or (in_storage_class and e.id == "self")
    if isinstance(e, ast.Subscript) and norm(e.value) in ("self.moves", "mc.moves"):
        return True
    return False


def run(prog: Program, L: Ledger) -> None:
    L.explanation = (
        "C20 decided by a who-may-access analysis: the protocol surface (Move, Criteria, Serializable members) is read from "
        "protocols.py on each run; in every function of quansino.mc.* and quansino.utils.moves the expressions that denote user objects "
        "(MoveStorage.move/.criteria on storage-typed expressions, add_move's parameters, locals bound to either) are collected by "
        "dataflow and every attribute taken on them must belong to the surface. The verdict routing of MonteCarlo.step is checked on its "
        "structure (truthy ⇒ evaluate then save/revert, falsy ⇒ None without evaluate, every trial recorded); each driver's accept path "
        "(save_state chain along the MRO) must notify stored moves of atom-count changes when its context carries exchange bookkeeping and "
        "of cell changes when its context carries a cell; the simulation dictionary must reach move.to_dict()/criteria.to_dict()."
    )
    L.rule("P1", "every attribute/call on a user move (criteria) object in the drivers' code is a member of Move ∪ Serializable (Criteria ∪ Serializable)")
    L.rule("P2", "MonteCarlo.step: truthy move result ⇒ criteria.evaluate(context) then exactly save/revert; falsy ⇒ is_accepted None, no evaluate; history appended on every path")
    L.rule("P3", "accept path notifies stored moves: on_atoms_changed where the atom count can change, on_cell_changed where the cell can change")
    L.rule("P5", "a stored move is executed: the scheduler offers every due move (due = step % interval == 0, nothing else) and places its forced slots — decided by C09's rules M1–M3 on MonteCarlo.yield_moves")
    L.rule("P4", "MonteCarlo.to_dict → MoveStorage.to_dict → move.to_dict() and criteria.to_dict() for every stored entry")

    pm = prog.module(f"{prog.package}.protocols")
    for nme in ("Move", "Criteria", "Serializable"):
        if nme not in pm.classes:
            raise AnalysisError(f"protocol {nme} missing")
    move_surface = protocol_members(prog, pm.classes["Move"])
    crit_surface = protocol_members(prog, pm.classes["Criteria"])
    L.extra["move_surface"] = sorted(move_surface)
    L.extra["criteria_surface"] = sorted(crit_surface)
    for need in ("__call__", "on_atoms_changed", "on_cell_changed", "to_dict", "from_dict"):
        if need not in move_surface:
            raise AnalysisError(f"Move protocol no longer declares {need}")

    # ------------------------------------------------------------------ P1
    n_uses = 0
    storage_cls = prog.cls("MoveStorage")
    comp_cls = prog.cls("CompositeMove")
    # the drivers, the move table, and the composite move (whose children may be user moves as well); the composite's
    # algebra (__add__/__mul__ …) works on package moves by documentation and is C17's subject, not part of this surface
    scope = [fi for fi in prog.iter_functions() if fi.module.name.startswith(f"{prog.package}.mc.") or fi.module.name == f"{prog.package}.utils.moves"
             or (fi.cls is comp_cls and fi.name in ("__call__", "on_atoms_changed", "on_cell_changed", "to_dict"))]
    from ..normalize import flat as _flat

    for fi0 in scope:
        # the normal form: private helpers inlined, generator helpers spliced into the loops that consume them
        fi = _flat(prog, fi0, fi0.cls)
        in_storage = fi.cls is storage_cls
        in_composite = fi.cls is comp_cls  # the generic composite; the specialised ones are declared over package moves
        storages = _storage_names(fi)
        move_names, crit_names = set(), set()
        # parameters known as user objects by their annotation only (constructor conveniences such as
        # `default_displacement_move: MoveType | None`, registered WITHOUT a criteria and therefore package moves): the
        # truthiness rule below is about objects given to add_move / held by the move table
        typed_only: set[str] = set()
        if fi.name == "add_move":
            move_names.add("move")
            crit_names.add("criteria")
        # parameters typed as a stored entry / a user move / a user criteria
        for a_ in fi.node.args.args + fi.node.args.kwonlyargs:
            ann = norm(a_.annotation) if a_.annotation is not None else ""
            base = ann.split("[")[0].split("|")[0].strip().strip("'\"")
            if base == "MoveStorage":
                storages.add(a_.arg)
            elif base in ("MoveType", "Move", "MoveProtocol") and fi.name != "add_move":
                move_names.add(a_.arg)
                typed_only.add(a_.arg)
            elif base in ("CriteriaType", "Criteria", "CriteriaProtocol") and fi.name != "add_move":
                crit_names.add(a_.arg)
                typed_only.add(a_.arg)
        names = {"move": move_names, "criteria": crit_names}
        colls: dict[str, set[str]] = {"move": set(), "criteria": set()}  # locals / parameters holding SEVERAL user objects
        for a_ in fi.node.args.args + fi.node.args.kwonlyargs:
            ck = _collection_annotation(a_.annotation)
            if ck is not None:
                colls[ck].add(a_.arg)

        def kind_of(e):
            if isinstance(e, ast.Name):
                if e.id in move_names:
                    return "move"
                if e.id in crit_names:
                    return "criteria"
            if isinstance(e, ast.Attribute) and _is_storage_expr(e.value, storages, in_storage):
                if e.attr == "move":
                    return "move"
                if e.attr == "criteria":
                    return "criteria"
            return None

        def coll_kind(e):
            """kind of the elements of an iterable expression, if they are user objects"""
            if isinstance(e, ast.Name):
                for k_, s_ in colls.items():
                    if e.id in s_:
                        return k_
            if in_composite and norm(e) == "self.moves":
                return "move"
            if isinstance(e, (ast.GeneratorExp, ast.ListComp, ast.SetComp)):
                return kind_of(e.elt)
            if isinstance(e, ast.Call) and isinstance(e.func, ast.Name) and e.func.id in ("list", "tuple", "sorted", "set", "reversed", "iter", "frozenset") and len(e.args) >= 1:
                return coll_kind(e.args[0])
            if isinstance(e, (ast.List, ast.Tuple, ast.Set)) and e.elts:
                ks = {kind_of(x) for x in e.elts}
                if len(ks) == 1:
                    return next(iter(ks))
            if isinstance(e, ast.Starred):
                return coll_kind(e.value)
            return None

        # locals bound to <storage>.move / .criteria, to elements of collections of user objects, and the collections
        # themselves (a small fixpoint: each round can only add names)
        for _round in range(6):
            before = (len(move_names), len(crit_names), len(colls["move"]), len(colls["criteria"]))
            for n in walk_no_nested(fi.node):
                if isinstance(n, (ast.Assign, ast.AnnAssign)) and n.value is not None:
                    tg = n.targets[0] if isinstance(n, ast.Assign) and len(n.targets) == 1 else (n.target if isinstance(n, ast.AnnAssign) else None)
                    if isinstance(tg, ast.Name):
                        k_ = kind_of(n.value)
                        if k_:
                            names[k_].add(tg.id)
                        ck = coll_kind(n.value)
                        if ck:
                            colls[ck].add(tg.id)
                elif isinstance(n, (ast.For, ast.comprehension)) and isinstance(n.target, ast.Name):
                    ck = coll_kind(n.iter)
                    if ck:
                        names[ck].add(n.target.id)
                elif isinstance(n, ast.Call) and isinstance(n.func, ast.Attribute) and isinstance(n.func.value, ast.Name) and n.func.attr in ("append", "add", "insert", "extend") and n.args:
                    k_ = coll_kind(n.args[-1]) if n.func.attr == "extend" else kind_of(n.args[-1])
                    if k_:
                        colls[k_].add(n.func.value.id)
            if before == (len(move_names), len(crit_names), len(colls["move"]), len(colls["criteria"])):
                break

        for n in walk_no_nested(fi.node):
            if isinstance(n, ast.Attribute):
                k = kind_of(n.value)
                if k is None:
                    continue
                n_uses += 1
                surface = move_surface if k == "move" else crit_surface
                where = f"{fi.module.relpath}:{n.lineno}"
                if n.attr in surface:
                    L.ok("P1", f"{fi.qualname}:{k}.{n.attr}", where)
                else:
                    rw = "writes" if isinstance(n.ctx, ast.Store) else "reads"
                    L.violation("P1", f"{fi.qualname}:{k}.{n.attr}", where,
                                f"{fi.qualname} {rw} `{norm(n)}` on a user {k} object: `{n.attr}` is not part of the documented protocol ({', '.join(sorted(surface))})",
                                f"a structurally conforming user {k} without `{n.attr}`: AttributeError / silently different behaviour in {fi.qualname}", norm(n))
            elif isinstance(n, ast.Compare):
                sides = [n.left] + list(n.comparators)
                for op, a, b in zip(n.ops, sides, sides[1:]):
                    if isinstance(op, (ast.Eq, ast.NotEq, ast.In, ast.NotIn, ast.Lt, ast.LtE, ast.Gt, ast.GtE)):
                        for side in (a, b):
                            k = kind_of(side)
                            if k is None or (isinstance(op, (ast.In, ast.NotIn)) and side is b):
                                continue
                            other = b if side is a else a
                            if isinstance(other, ast.Constant) and other.value is None:
                                continue
                            n_uses += 1
                            L.violation("P1", f"{fi.qualname}:{k}.__eq__", f"{fi.module.relpath}:{n.lineno}",
                                        f"`{norm(n)[:80]}` compares / looks up a user {k} object by value: this calls its __eq__ (or __hash__), which is not part of the documented protocol — only identity (`is`, id()) is",
                                        f"two distinct user {k}s that compare equal (e.g. dataclasses with equal settings): one of them is treated as the other (here: skipped)", norm(n)[:100])
            elif isinstance(n, (ast.If, ast.While, ast.IfExp, ast.Assert)) or (isinstance(n, ast.UnaryOp) and isinstance(n.op, ast.Not)) or isinstance(n, ast.BoolOp) \
                    or (isinstance(n, ast.Call) and isinstance(n.func, ast.Name) and n.func.id in ("bool", "len") and len(n.args) == 1):
                # truthiness of a user object: `if criteria:`, `not move`, `move and …`, bool(move), len(move) call its
                # __bool__ / __len__ — a conforming object may define either (a criteria that records its decisions is
                # empty, hence falsy, when fresh)
                tested = [n.test] if isinstance(n, (ast.If, ast.While, ast.IfExp, ast.Assert)) else ([n.operand] if isinstance(n, ast.UnaryOp) else (list(n.values) if isinstance(n, ast.BoolOp) else list(n.args)))
                for t_ in tested:
                    k = kind_of(t_)
                    if k is None or (isinstance(t_, ast.Name) and t_.id in typed_only):
                        continue
                    n_uses += 1
                    L.violation("P1", f"{fi.qualname}:{k}.__bool__", f"{fi.module.relpath}:{n.lineno}",
                                f"`{norm(n.test if isinstance(n, (ast.If, ast.While, ast.IfExp, ast.Assert)) else n)[:80]}` takes the truth value (or length) of a user {k} object: this calls its __bool__/__len__, which is not part of the documented protocol — `is None` / `is not None` is the test that asks whether one was given",
                                f"an explicitly passed user {k} that is falsy (defines __len__ and is empty, or __bool__) is treated as absent: replaced by a default or rejected", norm(t_)[:100])
            elif isinstance(n, ast.Call) and isinstance(n.func, ast.Attribute) and n.func.attr in ("index", "count", "remove", "add", "discard") and n.args and kind_of(n.args[0]) is not None and not norm(n.func).startswith("self.move_history"):
                n_uses += 1
                L.violation("P1", f"{fi.qualname}:{kind_of(n.args[0])}.__eq__/__hash__", f"{fi.module.relpath}:{n.lineno}",
                            f"`{norm(n)[:80]}` stores / searches a user object by value (its __eq__/__hash__): not part of the documented protocol",
                            "distinct user objects that compare equal are conflated", norm(n)[:100])
            elif isinstance(n, ast.Call) and kind_of(n.func) == "move":
                n_uses += 1
                L.ok("P1", f"{fi.qualname}:move.__call__", f"{fi.module.relpath}:{n.lineno}")
            elif isinstance(n, ast.Call) and isinstance(n.func, ast.Name) and n.func.id in ("getattr", "setattr", "hasattr", "delattr") and n.args and kind_of(n.args[0]) is not None:
                n_uses += 1
                L.violation("P1", f"{fi.qualname}:{n.func.id}", f"{fi.module.relpath}:{n.lineno}", f"`{norm(n)[:80]}` reflects on a user object", "driver depends on attributes outside the protocol", norm(n)[:100])
    L.floor("uses of user move/criteria objects in the drivers' code", n_uses, 4)

    # isinstance lookups on the move are confined to the default-criteria branch
    mc = prog.cls("MonteCarlo")
    add = mc.methods.get("add_move")
    if add is None:
        raise AnalysisError("MonteCarlo.add_move missing")
    for c in calls_in(add.node):
        if isinstance(c.func, ast.Name) and c.func.id == "isinstance" and c.args and norm(c.args[0]) == "move":
            guarded = False
            for n in walk_no_nested(add.node):
                if isinstance(n, ast.If) and norm(n.test) == "criteria is None" and any(x is c for x in ast.walk(n)):
                    guarded = True
            L.check(guarded, "P1", "MonteCarlo.add_move:isinstance", f"{add.module.relpath}:{c.lineno}",
                    "isinstance test on the user move outside the `criteria is None` default lookup", "a move that inherits from nothing is rejected even with an explicit criteria", norm(c))

    # ------------------------------------------------------------------ P5: "where it is executed"
    from ..report import Ledger as _Ledger
    from . import c09 as _c09

    sub = _Ledger("C09", tier=L.tier, seed=L.seed, repo=L.repo, quiet=True, write_files=False)
    try:
        _c09.run(prog, sub)
    except AnalysisError as exc:
        raise AnalysisError(f"P5 (scheduler rules shared with C09): {exc}") from exc
    sched_bad = [o for o in sub.obligations if o.status == "violation" and o.rule in ("M1", "M2", "M3")]
    for o in sched_bad:
        L.violation("P5", f"scheduler:{o.construct}", o.where, f"{o.detail} — a user move added with an explicit criteria is then not executed when the documented scheduling says it is due",
                    o.witness or "a move with probability 0 and minimum_count 1 (forced only), or any move the extra condition excludes, is stored and serialised but never called", o.construct)
    if not sched_bad:
        L.ok("P5", "scheduler:every-due-move-offered", "src/quansino/mc/core.py", f"{sum(1 for o in sub.obligations if o.rule in ('M1', 'M2', 'M3'))} scheduler obligations")

    # ------------------------------------------------------------------ P2
    from ..minieval import FuncTok, PredUnsupported, Raises, ev as mev, run_stmts
    from ..normalize import flat

    step0 = mc.methods.get("step")
    if step0 is None:
        raise AnalysisError("MonteCarlo.step missing")
    # public pieces of the trial (an `attempt_move(name)`, an `update_acceptance_rate()`) are seen through
    step = flat(prog, step0, mc, keep=("yield_moves", "save_state", "revert_state", "evaluate", "add_move", "to_dict", "from_dict", "validate_simulation"), public_methods=True)
    loops = [s for s in step.body() if isinstance(s, ast.For) and norm(s.iter) == "self.yield_moves()"]
    if len(loops) != 1:
        raise AnalysisError("MonteCarlo.step: loop over yield_moves not found")
    lp = loops[0]
    if not isinstance(lp.target, ast.Name):
        raise AnalysisError("MonteCarlo.step: loop target is not a single name")
    lname = lp.target.id
    inl = Inliner(step.node)
    where_lp = f"{step0.module.relpath}:{lp.lineno}"
    mv_calls, ev_calls = [], []
    for c in calls_in(lp):
        if [norm(a) for a in c.args] == ["self.context"] and not c.keywords:
            ftxt = norm(inl.inline(c.func))
            if ftxt == f"self.moves[{lname}].move":
                mv_calls.append(c)
            elif ftxt == f"self.moves[{lname}].criteria.evaluate":
                ev_calls.append(c)
        elif isinstance(c.func, ast.Attribute) and c.func.attr == "evaluate":
            ev_calls.append(c)  # a criteria evaluation spelled some other way: still traced, judged below
    if not mv_calls:
        cands = [c for c in calls_in(lp) if [norm(a) for a in c.args] == ["self.context"] and not (isinstance(c.func, ast.Attribute) and c.func.attr == "evaluate")]
        if cands:
            L.violation("P2", "MonteCarlo.step:selected-move", where_lp, f"the object called with the context is `{norm(inl.inline(cands[0].func))[:80]}`, not the move stored under the selected name",
                        "a move other than the selected one is attempted", norm(cands[0])[:100])
            mv_calls = cands[:1]
        else:
            raise AnalysisError("MonteCarlo.step: call of the selected move with self.context not found")
    else:
        L.ok("P2", "MonteCarlo.step:selected-move", where_lp)
    body = [s_ for s_ in lp.body if not (isinstance(s_, ast.Expr) and isinstance(s_.value, (ast.Yield, ast.YieldFrom)))]
    good_ev = {norm(c) for c in ev_calls if [norm(a) for a in c.args] == ["self.context"] and norm(inl.inline(c.func)) == f"self.moves[{lname}].criteria.evaluate"}
    results = {}
    for moved in (True, False):
        for verdict in (True, False):
            events: list[tuple] = []
            env = {lname: "<name>", "__trace__": [], "__strict_calls__": True,
                   "self.save_state": FuncTok("self.save_state"), "self.revert_state": FuncTok("self.revert_state"), "self.move_history.append": FuncTok("self.move_history.append")}
            for c in mv_calls:
                env[norm(c)] = moved
            for c in ev_calls:
                env[norm(c)] = verdict
            appended = []

            def on_call(ftxt, call, _env=env, _events=events, _app=appended):
                for t in _env["__trace__"]:
                    _events.append(("value", t))
                _env["__trace__"].clear()
                if ftxt == "self.move_history.append" and len(call.args) == 1:
                    try:
                        _app.append(mev(call.args[0], _env))
                    except PredUnsupported:
                        _app.append(("?", norm(call.args[0])))
                _events.append(("call", ftxt))

            try:
                run_stmts(body, env, on_call)
            except Raises as exc:
                events.append(("raises", exc.what))
            except PredUnsupported as exc:
                raise AnalysisError(f"MonteCarlo.step loop body: {exc}") from exc
            for t in env["__trace__"]:
                events.append(("value", t))
            results[(moved, verdict)] = (events, appended)

    def count(events, pred):
        return sum(1 for e_ in events if pred(e_))

    is_mv = lambda e_: e_[0] == "value" and e_[1] in {norm(c) for c in mv_calls}  # noqa: E731
    is_ev = lambda e_: e_[0] == "value" and e_[1] in {norm(c) for c in ev_calls}  # noqa: E731
    is_good_ev = lambda e_: e_[0] == "value" and e_[1] in good_ev  # noqa: E731
    sr = lambda events: [e_[1] for e_ in events if e_[0] == "call" and e_[1] in ("self.save_state", "self.revert_state")]  # noqa: E731
    ok_t = all(count(results[(True, v)][0], is_mv) == 1 and count(results[(True, v)][0], is_ev) == 1 and count(results[(True, v)][0], is_good_ev) == 1 for v in (True, False))
    L.check(ok_t, "P2", "MonteCarlo.step:truthy", where_lp, "a truthy move result is not sent to criteria.evaluate(self.context) exactly once",
            "trial accepted/rejected without consulting the criteria (or the criteria consulted twice)", ";".join(str(e_) for e_ in results[(True, True)][0])[:160])
    # evaluate before the routing
    ordered = True
    for v in (True, False):
        evs = results[(True, v)][0]
        pos_ev = [i for i, e_ in enumerate(evs) if is_ev(e_)]
        pos_sr = [i for i, e_ in enumerate(evs) if e_[0] == "call" and e_[1] in ("self.save_state", "self.revert_state")]
        if pos_ev and pos_sr and min(pos_sr) < max(pos_ev):
            ordered = False
    ok_sr = sr(results[(True, True)][0]) == ["self.save_state"] and sr(results[(True, False)][0]) == ["self.revert_state"] and ordered
    L.check(ok_sr, "P2", "MonteCarlo.step:save-or-revert", where_lp,
            f"verdict is not routed to save_state (truthy) / revert_state (falsy): accepted -> {sr(results[(True, True)][0])}, rejected -> {sr(results[(True, False)][0])}",
            "accepted trial reverted or rejected trial kept", "route")
    ok_f = all(count(results[(False, v)][0], is_ev) == 0 and not sr(results[(False, v)][0]) and count(results[(False, v)][0], is_mv) == 1 and results[(False, v)][1] == [("<name>", None)] for v in (True, False))
    L.check(ok_f, "P2", "MonteCarlo.step:falsy", where_lp, "a falsy move result is not recorded as not attempted (None) without evaluating the criteria",
            "failed trials counted as rejections / criteria evaluated on an unchanged system", ";".join(str(e_) for e_ in results[(False, True)][0])[:160] + f" appended={results[(False, True)][1]}")
    ok_h = all(results[(True, v)][1] == [("<name>", v)] for v in (True, False)) and all(len(results[(False, v)][1]) == 1 for v in (True, False))
    L.check(ok_h, "P2", "MonteCarlo.step:history", where_lp, "the trial is not appended to move_history as (name, verdict) exactly once on every path",
            "", f"accepted={results[(True, True)][1]} rejected={results[(True, False)][1]} failed={results[(False, True)][1]}")

    # ------------------------------------------------------------------ P3
    exch = prog.cls("ExchangeContext")
    defo = prog.cls("DeformationContext")
    n3 = 0
    for d in prog.subclasses(mc):
        ctx = prog.classvar_class(d, "default_context")
        if ctx is None:
            continue
        chain = prog.super_chain(d, "save_state")
        called = set()
        for f in chain:
            for c in calls_in(f.node):
                if isinstance(c.func, ast.Attribute) and c.func.attr in ("on_atoms_changed", "on_cell_changed"):
                    called.add(c.func.attr)
        if exch in prog.mro(ctx):
            n3 += 1
            L.check("on_atoms_changed" in called, "P3", f"{d.name}:on_atoms_changed", d.where,
                    f"{d.name} can accept insertions/deletions (context {ctx.name}) but its accept path never calls on_atoms_changed on the stored moves",
                    "a user move keeping per-atom state is not told that atoms were added or removed", "on_atoms_changed")
        if defo in prog.mro(ctx):
            n3 += 1
            L.check("on_cell_changed" in called, "P3", f"{d.name}:on_cell_changed", d.where,
                    f"{d.name} can accept cell changes (context {ctx.name}) but its accept path ({', '.join(f.qualname for f in chain)}) never calls on_cell_changed on the stored moves",
                    "a user move implementing on_cell_changed (documented in the Move protocol) is never notified of an accepted cell move", "on_cell_changed")
    # P3 (fan-out): inside the loop over the move table the only thing that may keep a stored move from being notified is
    # "this very object was notified already" (identity de-duplication through a local collection).  A skip that looks at
    # the entry's schedule, weight or anything else of the simulation leaves a stored move uninformed.
    def _names(e):
        return {n_.id for n_ in ast.walk(e) if isinstance(n_, ast.Name)}

    from .. import memo as _memo

    n_fan = 0
    notifiers = []
    for d in prog.subclasses(mc):
        f = d.methods.get("save_state")
        if f is not None and any(isinstance(c.func, ast.Attribute) and c.func.attr in ("on_atoms_changed", "on_cell_changed") for c in calls_in(f.node)):
            notifiers.append(f)
    # the functions the notifying save_state bodies go through (helpers that hand out the moves to notify)
    on_path = list(_memo.reach(prog, notifiers, by_name=False).values())
    for f in on_path:
        if f.name in ("__init__", "from_dict", "to_dict", "add_move", "yield_moves", "step", "irun", "run", "srun"):
            continue
        is_notifier = f in notifiers
        for loop in [n_ for n_ in walk_no_nested(f.node) if isinstance(n_, (ast.For, ast.ListComp, ast.GeneratorExp, ast.SetComp, ast.DictComp))]:
            gens = [(loop.target, loop.iter, [])] if isinstance(loop, ast.For) else [(g_.target, g_.iter, g_.ifs) for g_ in loop.generators]
            for tgt_, it_, ifs_ in gens:
                if "self.moves" not in norm(it_):
                    continue
                if isinstance(loop, ast.For) and is_notifier and not any(isinstance(c.func, ast.Attribute) and c.func.attr in ("on_atoms_changed", "on_cell_changed") for c in calls_in(loop)) \
                        and not any(isinstance(x_, (ast.Yield, ast.Return)) for x_ in ast.walk(loop)):
                    continue
                n_fan += 1
                loopvars = _names(tgt_)
                # locals bound inside the loop stand for what they were bound to
                binds_ = {}
                if isinstance(loop, ast.For):
                    for st_ in ast.walk(loop):
                        if isinstance(st_, ast.Assign) and len(st_.targets) == 1 and isinstance(st_.targets[0], ast.Name):
                            binds_.setdefault(st_.targets[0].id, []).append(st_.value)
                conds = list(ifs_)
                if isinstance(loop, ast.For):
                    for st_ in ast.walk(loop):
                        if isinstance(st_, ast.If):
                            skips = any(isinstance(x_, (ast.Continue, ast.Break)) for b_ in (st_.body, st_.orelse) for y_ in b_ for x_ in ast.walk(y_))
                            guards_note = any(isinstance(c.func, ast.Attribute) and c.func.attr in ("on_atoms_changed", "on_cell_changed", "append", "add", "setdefault") for c in calls_in(st_)) \
                                or any(isinstance(x_, ast.Yield) for x_ in ast.walk(st_))
                            if skips or guards_note:
                                conds.append(st_.test)
                bad_ = None
                for t_ in conds:
                    exprs_ = [t_]
                    seen_ = set()
                    while exprs_ and bad_ is None:
                        e_ = exprs_.pop()
                        for a_ in ast.walk(e_):
                            if isinstance(a_, ast.Attribute):
                                root_ = a_
                                while isinstance(root_, ast.Attribute):
                                    root_ = root_.value
                                if isinstance(root_, ast.Name) and root_.id == "self":
                                    bad_ = t_
                                elif isinstance(root_, ast.Name) and root_.id in loopvars and a_.attr not in ("move",) and isinstance(a_.value, ast.Name):
                                    bad_ = t_
                            if isinstance(a_, ast.Name) and a_.id in binds_ and a_.id not in seen_:
                                seen_.add(a_.id)
                                exprs_.extend(binds_[a_.id])
                    if bad_ is not None:
                        break
                L.check(bad_ is None, "P3", f"{f.qualname}:fan-out", f"{f.module.relpath}:{loop.lineno}",
                        f"on the notification path a stored move is skipped when `{norm(bad_)[:90] if bad_ is not None else ''}`: only 'this object was notified already' may skip an entry (the condition reads the simulation or the entry's schedule)",
                        "a user move stored with interval > 1 (or whatever the condition looks at) misses accepted changes and works with a stale picture of the atoms", norm(bad_)[:100] if bad_ is not None else "")
    L.floor("loops over the move table on the notification path", n_fan, 1)

    # P3 (guard): the notification is conditional on "the accepted trial changed the cell", decided by comparing the live
    # cell with the context's saved cell.  That comparison must see the PRE-trial saved cell: evaluated before the chain
    # call that refreshes it, or on a copy taken before; a plain alias taken before is only as good as the context's
    # save_state, which must then rebind the slot (an in-place refresh changes the alias too: never notified again).
    n3g = 0
    for d in prog.subclasses(mc):
        ctx = prog.classvar_class(d, "default_context")
        if ctx is None or defo not in prog.mro(ctx):
            continue
        chain = prog.super_chain(d, "save_state")
        for f in chain:
            for gif in [n for n in walk_no_nested(f.node) if isinstance(n, ast.If)]:
                if not any(isinstance(c.func, ast.Attribute) and c.func.attr == "on_cell_changed" for st in gif.body for c in calls_in(st)):
                    continue
                n3g += 1
                sup = [st for st in f.node.body if any(isinstance(c.func, ast.Attribute) and c.func.attr == "save_state" for c in calls_in(st))
                       and st is not gif]
                after_refresh = any(st.lineno < gif.lineno for st in sup)
                # names in the guard and how they were bound
                slot_reads, alias_names, copy_names = [], [], []
                def is_slot(e):
                    return isinstance(e, ast.Attribute) and e.attr.startswith("last_") and "context" in norm(e)
                for n in ast.walk(gif.test):
                    if is_slot(n):
                        slot_reads.append(norm(n))
                    if isinstance(n, ast.Name):
                        for st in f.node.body:
                            if isinstance(st, ast.Assign) and len(st.targets) == 1 and isinstance(st.targets[0], ast.Name) and st.targets[0].id == n.id and st.lineno < gif.lineno:
                                v = st.value
                                while isinstance(v, ast.Attribute) and v.attr == "array":
                                    v = v.value
                                if is_slot(v):
                                    (alias_names if not sup or st.lineno < min(x.lineno for x in sup) else slot_reads).append(n.id)
                                elif any(is_slot(x) for x in ast.walk(st.value)):
                                    copy_names.append(n.id)
                if not after_refresh:
                    continue
                # which slots does the context chain refresh in place?
                inplace = []
                for cf in prog.super_chain(ctx, "save_state"):
                    for st in walk_no_nested(cf.node):
                        tg = st.targets if isinstance(st, ast.Assign) else [st.target] if isinstance(st, ast.AugAssign) else []
                        for t in tg:
                            b = t
                            while isinstance(b, ast.Subscript) or (isinstance(b, ast.Attribute) and b.attr == "array"):
                                b = b.value
                            if b is not t and isinstance(b, ast.Attribute) and b.attr.startswith("last_"):
                                inplace.append(f"{cf.qualname}:{norm(t)}")
                        if isinstance(st, ast.Expr) and isinstance(st.value, ast.Call) and norm(st.value.func) in ("np.copyto", "numpy.copyto") and st.value.args:
                            inplace.append(f"{cf.qualname}:{norm(st.value)}")
                bad = bool(slot_reads) or (bool(alias_names) and bool(inplace))
                why = (f"the guard reads {slot_reads} after the chain call that refreshes the saved cell" if slot_reads else
                       f"the guard compares with {alias_names}, a name bound to the saved-cell object itself, after {', '.join(inplace)} refreshed that object in place")
                L.check(not bad, "P3", f"{f.qualname}:on_cell_changed-guard", f"{f.module.relpath}:{gif.lineno}",
                        f"{why}: the comparison is between the new cell and itself, so an accepted cell change is never reported to the moves",
                        "a user move implementing on_cell_changed is not told of an accepted cell move (its cached cell-dependent data go stale)", norm(gif.test)[:160])
    L.floor("driver notification obligations", n3, 3)
    L.floor("cell-notification guards examined", n3g, 1)

    # ------------------------------------------------------------------ P4
    sch = emitted_schema(prog, storage_cls)
    kw = sch.items.get("kwargs") if sch else None
    okm = isinstance(kw, DV) and isinstance(kw.items.get("move"), EV) and norm(kw.items["move"].expr) == "self.move.to_dict()"
    okc = isinstance(kw, DV) and isinstance(kw.items.get("criteria"), EV) and norm(kw.items["criteria"].expr) == "self.criteria.to_dict()"
    L.check(okm and okc, "P4", "MoveStorage.to_dict", storage_cls.where, "MoveStorage.to_dict does not emit move.to_dict() and criteria.to_dict()", "custom components are not serialized with the simulation", "to_dict")
    msch = emitted_schema(prog, mc)
    mv = msch.items.get("moves") if msch else None
    okmv = isinstance(mv, EV) and "move_storage.to_dict()" in norm(mv.expr) and "self.moves.items()" in norm(mv.expr)
    L.check(okmv, "P4", "MonteCarlo.to_dict:moves", mc.where, "MonteCarlo.to_dict does not serialize every move-table entry", "", norm(mv.expr)[:100] if isinstance(mv, EV) else "")
