"""C15 — observers fire on schedule and splitting a run does not change it.

O1 the observer guard is equivalent to (i>0 ∧ step mod i = 0) ∨ (i<0 ∧ step = |i|); every attached
   observer is visited (no early exit from the fan-out loop)
O2 irun's loop: per iteration exactly [yield self.step(), step_count += 1, call_observers()] in that
   order; bound = step_count + steps fixed at entry; validate_simulation() dominates; converged ⇔ count ≥ bound
O3 the start-up block (header, step-0 observers) is one-shot: no path through irun executes it and
   leaves its guard true at exit
O4 run / srun / Driver.run consume irun(steps) fully and exhaust each yielded step generator before
   requesting the next step
"""

from __future__ import annotations

import ast
import itertools

from ..cfg import build_cfg
from ..dataflow import Inliner
from ..loader import AnalysisError, ClassInfo, FuncInfo, Program, calls_in, norm, walk_no_nested
from ..minieval import PredUnsupported, Raises, equivalent, ev, run_stmts
from ..normalize import flat
from ..report import Ledger


class _Tok:
    def __init__(self, name):
        self.name = name

    def __repr__(self):
        return self.name


_OBS, _OTHER = _Tok("<this observer>"), _Tok("<another object>")


def _is_call(st: ast.AST, text: str) -> bool:
    return isinstance(st, ast.Expr) and isinstance(st.value, ast.Call) and norm(st.value.func) == text


def classify(st: ast.AST, steps_param: str) -> str | None:
    if st is None:
        return None
    if _is_call(st, "self.validate_simulation"):
        return "V"
    if _is_call(st, "self.call_observers"):
        return "O"
    if isinstance(st, ast.Expr) and isinstance(st.value, ast.Call) and norm(st.value.func).endswith(".write_header"):
        return "H"
    if isinstance(st, ast.Expr) and isinstance(st.value, (ast.Yield, ast.YieldFrom)):
        return "Y"
    if isinstance(st, ast.AugAssign) and norm(st.target) == "self.step_count":
        return "I"
    if isinstance(st, ast.Assign) and any(norm(t) == "self.step_count" for t in st.targets):
        return "I"
    if isinstance(st, (ast.Assign, ast.AnnAssign)):
        tg = st.targets if isinstance(st, ast.Assign) else [st.target]
        if any(norm(t) == "self.max_steps" for t in tg):
            return "M"
    return None


def _splice_delegated_generator(prog: Program, L: Ledger, driver, irun):
    """irun may hand the loop to a private generator method.  `yield from self._g(...)` keeps everything lazy (spliced,
    nothing to report).  `return self._g(...)` from a plain function runs the statements before it when irun is *called*,
    not when the generator is iterated: any state they set (the step bound, validation) is stale for a generator that is
    obtained first and iterated after another run — reported under O2 — and the loop rules go on over the spliced body."""
    import copy

    from ..loader import FuncInfo

    body = irun.body()
    has_yield = any(isinstance(n, (ast.Yield, ast.YieldFrom)) for n in walk_no_nested(irun.node))
    deleg = None
    for i, st in enumerate(body):
        call = None
        if isinstance(st, ast.Return) and isinstance(st.value, ast.Call) and not has_yield:
            call, lazy = st.value, False
        elif isinstance(st, ast.Expr) and isinstance(st.value, ast.YieldFrom) and isinstance(st.value.value, ast.Call):
            call, lazy = st.value.value, True
        if call is not None and isinstance(call.func, ast.Attribute) and norm(call.func.value) == "self":
            g = prog.lookup_method(driver, call.func.attr)
            if g is not None and any(isinstance(n, (ast.Yield, ast.YieldFrom)) for n in walk_no_nested(g.node)):
                deleg = (i, st, call, g, lazy)
                break
    if deleg is None:
        return irun
    i, st, call, g, lazy = deleg
    gparams = [a.arg for a in g.node.args.args[1:]]
    given = [norm(a) for a in call.args] + [k.arg for k in call.keywords if k.arg and norm(k.value) == k.arg]
    if given != gparams[: len(given)] or len(given) != len(gparams):
        raise AnalysisError(f"irun delegates to {g.qualname} with re-named or computed arguments: outside the recognised fragment")
    if not lazy:
        eager = [x for x in body[:i] if not (isinstance(x, ast.Expr) and isinstance(x.value, ast.Constant))]
        effects = [x for x in eager if any(isinstance(n, (ast.Assign, ast.AugAssign, ast.AnnAssign)) and any(isinstance(t, ast.Attribute) for t in (n.targets if isinstance(n, ast.Assign) else [n.target])) for n in ast.walk(x))
                   or any(isinstance(n, ast.Call) and isinstance(n.func, ast.Attribute) and norm(n.func.value) == "self" for n in ast.walk(x))]
        L.check(not effects, "O2", "irun:eager-setup", f"{irun.module.relpath}:{(effects[0] if effects else st).lineno}",
                "irun is a plain function that sets up the run (" + "; ".join(norm(x)[:50] for x in effects[:3]) + f") when it is *called* and returns the generator {g.name}(): "
                "the step bound and validation are those of the moment the generator was created, not of the moment it is iterated",
                "g = sim.irun(3); sim.run(2); then exhausting g performs 0 steps instead of 3 — run, srun and a fully iterated irun are no longer interchangeable", "eager-setup")
    node = copy.deepcopy(irun.node)
    nb = [x for x in node.body]
    # position of the delegating statement in the copied body (docstring included)
    off = len(node.body) - len(body)
    node.body = nb[: off + i] + copy.deepcopy(g.body()) + nb[off + i + 1:]
    ast.fix_missing_locations(node)
    out = FuncInfo(irun.name, node, irun.module, irun.cls, irun.kind)
    SPLICED.add(g.qualname)
    return out


SPLICED: set[str] = set()  # generator methods spliced into irun on this run


def run(prog: Program, L: Ledger) -> None:
    L.explanation = (
        "C15 decided on the control-flow graphs of Driver.irun / call_observers / run and MonteCarlo.run / srun: the observer "
        "guard is extracted (locals inlined) and compared with the reference predicate by exhaustive enumeration of a bounded "
        "integer domain (interval in [-7,7], step in [0,20]) using a checker-owned evaluator; all paths of irun (loop taken 0, 1, 2 "
        "times) are enumerated and each iteration's event sequence must be exactly yield-step, increment, observers; the start-up "
        "block's guard is re-evaluated at every exit of every path that executed the block (one-shot); every run entry point of "
        "every driver class is resolved through the MRO and must exhaust the step generators. Not decided: byte identity of "
        "output files across split runs (follows from O1–O3 with C06/C16)."
    )
    L.rule("O1", "observer guard ≡ (i>0 ∧ step%i==0) ∨ (i<0 ∧ step==|i|) on the bounded domain; fan-out visits every attached observer exactly once per call")
    L.rule("O2", "irun loop iteration = [yield self.step(), step_count += 1, call_observers()] exactly once each, in order; bound fixed at entry; validate_simulation dominates")
    L.rule("O3", "no path through irun executes the start-up block and leaves its guard true at exit (else a later irun repeats header and step-0 observers)")
    L.rule("O4", "every run entry point consumes irun(steps) fully and, where step() is a generator, exhausts it before the next step is requested")

    driver = prog.cls("Driver")
    irun = driver.methods.get("irun")
    callobs = driver.methods.get("call_observers")
    conv = driver.methods.get("converged")
    if not (irun and callobs and conv):
        raise AnalysisError("Driver.irun / call_observers / converged anchor missing")
    SPLICED.clear()
    irun = _splice_delegated_generator(prog, L, driver, irun)
    # public pieces the run loop was split into (start_run / finish_step / observer_is_due …) are seen through; the anchors
    # of the rules stay calls
    KEEP15 = ("validate_simulation", "step", "call_observers", "converged", "irun", "run", "srun", "write_header", "to_dict", "from_dict", "close")
    irun = flat(prog, irun, driver, keep=KEEP15, public_methods=True)
    callobs = flat(prog, callobs, driver, keep=KEEP15, public_methods=True)
    conv = flat(prog, conv, driver, keep=tuple(k for k in KEEP15 if k != "converged"), public_methods=True)
    # irun must not be overridden silently by subclasses with a different loop
    for sub in prog.subclasses(driver, strict=True):
        for m in ("irun", "call_observers", "converged"):
            if m in sub.methods:
                raise AnalysisError(f"{sub.name} overrides {m}: the C15 rules analyse Driver.{m} only")

    # ------------------------------------------------------------------ O1
    loops = [n for n in walk_no_nested(callobs.node) if isinstance(n, ast.For)]
    if len(loops) != 1:
        raise AnalysisError(f"call_observers: expected one fan-out loop, found {len(loops)}")
    loop = loops[0]
    it = norm(loop.iter)
    L.check(it in ("self.file_manager.observers.values()", "self.file_manager.observers.items()"), "O1", "call_observers:iter", f"{callobs.module.relpath}:{loop.lineno}",
            f"fan-out iterates `{it}` rather than every attached observer", "an attached observer is never called", it)
    var = None
    if isinstance(loop.target, ast.Name):
        var = loop.target.id
    elif isinstance(loop.target, ast.Tuple) and isinstance(loop.target.elts[-1], ast.Name):
        var = loop.target.elts[-1].id
    if var is None:
        raise AnalysisError("call_observers: cannot identify the observer loop variable")
    for n in walk_no_nested(loop):
        if isinstance(n, (ast.Break, ast.Return)):
            L.violation("O1", "call_observers:early-exit", f"{callobs.module.relpath}:{n.lineno}", "fan-out loop exits early: later observers are skipped",
                        "two observers due at the same step: only the first fires", norm(n))
    # the whole function is evaluated statement by statement for one abstract observer: early exits before
    # the loop, flags assigned in if/elif chains, `continue` guards and the call itself
    obs_calls = [c for c in calls_in(loop) if isinstance(c.func, ast.Name) and c.func.id == var]
    if not obs_calls:
        raise AnalysisError("call_observers: no call of the observer found")
    pre_stmts = []
    post_seen = False
    for st in callobs.body():
        if st is loop:
            post_seen = True
            continue
        if not post_seen:
            pre_stmts.append(st)
    pre_guards = [st for st in pre_stmts if isinstance(st, ast.If)]

    # A per-run filter: `key in self.A` where irun stores A = {key for key, obs in <observer table> if cond(obs, steps)}.
    # The membership test is replaced by cond evaluated on the observer at hand; the length of the run call and the step it
    # started from become quantities of the domain (the schedule does not depend on either).
    import copy as _copy

    run_filter = [False]
    key_var = loop.target.elts[0].id if isinstance(loop.target, ast.Tuple) and len(loop.target.elts) == 2 and isinstance(loop.target.elts[0], ast.Name) else None
    irun_params = irun.params()
    steps_name = irun_params[1] if len(irun_params) > 1 else None

    def _filter_cond(attr: str, probe: ast.expr):
        defs = [st_ for st_ in walk_no_nested(irun.node) if isinstance(st_, (ast.Assign, ast.AnnAssign)) and getattr(st_, "value", None) is not None
                and any(norm(t_) == f"self.{attr}" for t_ in (st_.targets if isinstance(st_, ast.Assign) else [st_.target]))]
        if len(defs) != 1:
            return None
        v = defs[0].value
        if isinstance(v, ast.Call) and norm(v.func) in ("frozenset", "set", "tuple", "list") and len(v.args) == 1:
            v = v.args[0]
        if not isinstance(v, (ast.GeneratorExp, ast.SetComp, ast.ListComp)) or len(v.generators) != 1:
            return None
        g = v.generators[0]
        if "observers" not in norm(g.iter) or not isinstance(v.elt, ast.Name):
            return None
        tnames = [e_.id for e_ in (g.target.elts if isinstance(g.target, ast.Tuple) else [g.target]) if isinstance(e_, ast.Name)]
        obs_name = tnames[-1]
        # the probe must be the loop's counterpart of the collected element
        if v.elt.id == obs_name:
            if not (isinstance(probe, ast.Name) and probe.id == var):
                return None
        elif len(tnames) == 2 and v.elt.id == tnames[0]:
            if not (isinstance(probe, ast.Name) and probe.id == key_var):
                return None
        else:
            return None

        class R(ast.NodeTransformer):
            def visit_Name(self, n_):
                if n_.id == obs_name:
                    return ast.copy_location(ast.Name(id=var, ctx=ast.Load()), n_)
                if n_.id == steps_name:
                    return ast.copy_location(ast.Name(id="__run_steps", ctx=ast.Load()), n_)
                return n_

            def visit_Attribute(self, n_):
                t_ = norm(n_)
                if t_ == "self.step_count":
                    return ast.copy_location(ast.Name(id="__run_start", ctx=ast.Load()), n_)
                if t_ == "self.max_steps":
                    return ast.copy_location(ast.BinOp(left=ast.Name(id="__run_start", ctx=ast.Load()), op=ast.Add(), right=ast.Name(id="__run_steps", ctx=ast.Load())), n_)
                return self.generic_visit(n_)

        conds = [R().visit(_copy.deepcopy(c_)) for c_ in g.ifs] or [ast.Constant(value=True)]
        return conds[0] if len(conds) == 1 else ast.BoolOp(op=ast.And(), values=conds)

    class _Member(ast.NodeTransformer):
        def visit_Compare(self, n_):
            if len(n_.ops) == 1 and isinstance(n_.ops[0], (ast.In, ast.NotIn)) and isinstance(n_.comparators[0], ast.Attribute) \
                    and isinstance(n_.comparators[0].value, ast.Name) and n_.comparators[0].value.id == "self":
                c_ = _filter_cond(n_.comparators[0].attr, n_.left)
                if c_ is not None:
                    run_filter[0] = True
                    return ast.fix_missing_locations(ast.copy_location(c_ if isinstance(n_.ops[0], ast.In) else ast.UnaryOp(op=ast.Not(), operand=c_), n_))
            return self.generic_visit(n_)

    loop = ast.fix_missing_locations(_Member().visit(_copy.deepcopy(loop)))
    pre_stmts = [ast.fix_missing_locations(_Member().visit(_copy.deepcopy(st_))) for st_ in pre_stmts]

    def fires(env) -> int:
        e2 = dict(env)
        count = [0]

        def on_call(text, call):
            if text == var:
                count[0] += 1

        r = run_stmts(pre_stmts, e2, on_call)
        if r == "return":
            return 0
        run_stmts(loop.body, e2, on_call)
        return count[0]

    domain = []
    for i in range(-7, 8):
        for s in range(0, 21):
            for li in (1, 2, 3, 4):
                # identity tests on the observer (`observer is self.default_logger`) are evaluated both ways
                for same_logger in (True, False):
                    base_env = {f"{var}.interval": i, "self.step_count": s, "self.logging_interval": li, var: _OBS, "self.default_logger": _OBS if same_logger else _OTHER}
                    if key_var:
                        base_env[key_var] = "obs"
                    if not run_filter[0]:
                        domain.append(base_env)
                    elif li == 1 and same_logger:
                        # every run call [start, start + steps] that contains step s (start = 0 … s, lengths up to 9 beyond)
                        for start in range(0, s + 1):
                            for steps_ in range(s - start, min(s - start + 10, 22)):
                                domain.append({**base_env, "__run_start": start, "__run_steps": steps_})
    bad = None
    try:
        for env in domain:
            i, s = env[f"{var}.interval"], env["self.step_count"]
            want = 1 if ((i > 0 and s % i == 0) or (i < 0 and s == -i)) else 0
            try:
                got = fires(env)
            except Raises as r:
                got = f"raises {r.what}"
            if got != want:
                bad = (i, s, got, want, (f", driver logging_interval={env['self.logging_interval']}" if pre_guards else "")
                       + (f", inside a run call of {env['__run_steps']} steps started at step {env['__run_start']}" if "__run_steps" in env else ""))
                break
    except PredUnsupported as exc:
        raise AnalysisError(f"call_observers guard: {exc}") from exc
    gtxt = norm(loop)[:200]
    L.check(bad is None, "O1", "call_observers:guard", f"{callobs.module.relpath}:{obs_calls[0].lineno}",
            "observer guard differs from the schedule: " + (f"interval={bad[0]}, step={bad[1]}{bad[4]}: observer called {bad[2]}×, schedule says {bad[3]}×" if bad else ""),
            (f"observer with interval {bad[0]} at step {bad[1]}{bad[4]}" if bad else ""), gtxt + "".join(" ; early-exit: " + norm(g.test) for g in pre_guards))
    L.extra["guard_domain_points"] = len(domain)
    # attach_observer really stores into .observers
    om = prog.cls("ObserverManager")
    att = om.methods.get("attach_observer")
    if att is None:
        raise AnalysisError("ObserverManager.attach_observer missing")
    stores = [n for n in walk_no_nested(att.node) if isinstance(n, ast.Assign) and norm(n.targets[0]).startswith("self.observers[")]
    L.check(bool(stores), "O1", "ObserverManager.attach_observer", att.where, "attach_observer does not record the observer in .observers", "attached observer never fires", "attach")

    # ------------------------------------------------------------------ O2
    params = irun.params()
    steps_param = params[1] if len(params) > 1 else None
    if steps_param is None:
        raise AnalysisError("irun has no steps parameter")
    cfg = build_cfg(irun.node)
    loop_tests = [n for n in cfg.nodes if n.kind == "test" and n.label.startswith("while")]
    if len(loop_tests) != 1:
        raise AnalysisError(f"irun: expected one while loop, found {len(loop_tests)}")
    lt = loop_tests[0]
    ltxt = norm(lt.ast)
    L.check(ltxt in ("not self.converged()",), "O2", "irun:loop-condition", f"{irun.module.relpath}:{lt.lineno}",
            f"run loop condition is `{ltxt}`, not `not self.converged()`", "number of executed steps differs from the request", ltxt)
    # converged() ≡ step_count >= max_steps
    rets = [s for s in conv.body() if isinstance(s, ast.Return)]
    if len(rets) != 1 or len(conv.body()) != 1:
        raise AnalysisError("converged(): not a single return expression")
    dom2 = [{"self.step_count": a, "self.max_steps": b} for a in range(0, 8) for b in range(0, 8)]
    try:
        diff = equivalent(rets[0].value, lambda e: e["self.step_count"] >= e["self.max_steps"], dom2)
    except PredUnsupported as exc:
        raise AnalysisError(f"converged(): {exc}") from exc
    L.check(diff is None, "O2", "Driver.converged", conv.where,
            "converged() is not `step_count >= max_steps`: " + (f"step_count={diff[0]['self.step_count']}, max_steps={diff[0]['self.max_steps']} gives {diff[1]}" if diff else ""),
            "run(n) executes a number of steps different from n", norm(rets[0].value))
    # bound assignment
    m_nodes = [n for n in cfg.nodes if n.kind == "stmt" and classify(n.ast, steps_param) == "M"]
    if len(m_nodes) != 1:
        raise AnalysisError(f"irun: expected exactly one assignment to self.max_steps, found {len(m_nodes)}")
    mval = norm(m_nodes[0].ast.value)
    L.check(mval in (f"self.step_count + {steps_param}", f"{steps_param} + self.step_count"), "O2", "irun:bound", f"{irun.module.relpath}:{m_nodes[0].lineno}",
            f"bound is `{mval}`, not the current step counter plus the requested steps", "run(a); run(b) does not end at step a+b", mval)
    L.check(cfg.dominates(m_nodes[0], lt), "O2", "irun:bound-before-loop", f"{irun.module.relpath}:{m_nodes[0].lineno}", "bound not fixed before the loop on every path", "", "max_steps")
    v_nodes = [n for n in cfg.nodes if n.kind == "stmt" and classify(n.ast, steps_param) == "V"]
    ok_v = bool(v_nodes) and cfg.dominates(v_nodes[0], lt) and all(
        cfg.dominates(v_nodes[0], n) for n in cfg.nodes if n.kind == "stmt" and classify(n.ast, steps_param) in ("O", "Y")
    )
    L.check(ok_v, "O2", "irun:validate-dominates", irun.where, "validate_simulation() does not precede the first step / observer call on every path", "first trial uses an unset reference energy", "validate_simulation")
    # per-iteration event sequence on all paths
    n_paths = 0
    startup_seen = False
    for path in cfg.paths(max_back=2, include_exc=False):
        n_paths += 1
        segs: list[list[tuple[str, ast.AST]]] = [[]]
        for node, lab in path:
            if node is lt:
                segs.append([])
                continue
            k = classify(node.ast, steps_param) if node.kind == "stmt" else None
            if k:
                segs[-1].append((k, node.ast))
        pre, iters = segs[0], segs[1:]
        tail = iters[-1] if iters else []
        body_iters = iters[:-1]
        for seg in body_iters:
            seq = "".join(k for k, _ in seg)
            if seq != "YIO":
                st = seg[0][1] if seg else lt.ast
                L.violation("O2", "irun:iteration", f"{irun.module.relpath}:{getattr(st, 'lineno', irun.node.lineno)}",
                            f"one loop iteration performs events `{seq}` (Y=yield step, I=counter increment, O=observers) instead of `YIO`",
                            "observers see a stale step number, or fire twice / not at all per step", seq)
            else:
                y = seg[0][1].value
                yv = y.value
                L.check(isinstance(yv, ast.Call) and norm(yv.func) == "self.step" and not yv.args, "O2", "irun:yield-step", f"{irun.module.relpath}:{seg[0][1].lineno}",
                        f"loop yields `{norm(y)}` rather than `self.step()`", "", norm(y))
                inc = seg[1][1]
                inc_ok = (isinstance(inc, ast.AugAssign) and isinstance(inc.op, ast.Add) and norm(inc.value) == "1") or (
                    isinstance(inc, ast.Assign) and norm(inc.value) in ("self.step_count + 1", "1 + self.step_count"))
                L.check(inc_ok, "O2", "irun:increment", f"{irun.module.relpath}:{inc.lineno}", f"counter update `{norm(inc)}` is not +1", "step numbering drifts", norm(inc))
        if tail:
            seq = "".join(k for k, _ in tail)
            L.violation("O2", "irun:after-loop", irun.where, f"events `{seq}` after the run loop", "extra observer call / step after the requested steps", seq)
        pseq = "".join(k for k, _ in pre)
        core = pseq.replace("V", "", 1).replace("M", "", 1)
        if core not in ("", "O", "HO"):
            L.violation("O2", "irun:startup-sequence", irun.where, f"before the loop the events are `{pseq}`; expected validate, bound, then optionally header followed by one observer call",
                        "header after the first row, or several step-0 rows", pseq)
        else:
            L.ok("O2", f"irun:path[{pseq}|{'-'.join(''.join(k for k, _ in s) for s in body_iters)}]", irun.where)
        if "O" in core:
            startup_seen = True
    L.extra["irun_paths"] = n_paths
    if not startup_seen:
        L.violation("O2", "irun:startup-missing", irun.where, "no path calls the observers before the first step", "positive-interval observers are not called at step 0", "call_observers")

    # ------------------------------------------------------------------ O3
    _check_o3(prog, L, irun, cfg, lt, steps_param)

    # ------------------------------------------------------------------ O4
    n_entry = 0
    for d in prog.subclasses(driver):
        stepf = prog.lookup_method(d, "step")
        if stepf is None or stepf.is_trivial():
            continue
        is_gen = any(isinstance(n, (ast.Yield, ast.YieldFrom)) for n in walk_no_nested(stepf.node))
        for entry in ("run", "srun"):
            f = prog.lookup_method(d, entry)
            if f is None:
                continue
            n_entry += 1
            _check_entry(L, d, flat(prog, f, d, keep=("irun", "step", "validate_simulation", "call_observers", "converged"), public_methods=True), is_gen, entry)
    L.floor("run entry points (driver class × run/srun)", n_entry, 8)


def _check_entry(L: Ledger, d: ClassInfo, f: FuncInfo, is_gen: bool, entry: str) -> None:
    cons = f"{d.name}.{entry}"
    params = f.params()
    sp = params[1] if len(params) > 1 else None
    loops = [n for n in f.body() if isinstance(n, ast.For)]
    if len(loops) != 1 or not isinstance(loops[0].iter, ast.Call) or norm(loops[0].iter.func) != "self.irun":
        L.violation("O4", cons, f.where, f"{f.qualname} does not consist of one loop over self.irun(...)", f"{cons}(n) does not perform the n steps irun would", "irun")
        return
    lp = loops[0]
    args = [norm(a) for a in lp.iter.args] + [norm(k.value) for k in lp.iter.keywords]
    L.check(args == [sp], "O4", f"{cons}:steps", f"{f.module.relpath}:{lp.lineno}", f"irun called with `{args}` instead of the requested `{sp}`", f"{cons}(n) runs a different number of steps", norm(lp.iter))
    for n in walk_no_nested(lp):
        if isinstance(n, (ast.Break, ast.Return)):
            L.violation("O4", f"{cons}:early-exit", f"{f.module.relpath}:{n.lineno}", "entry point leaves the irun loop early", "fewer steps than requested", norm(n))
    if not is_gen:
        L.ok("O4", cons, f.where, "step() is not a generator: iterating irun performs the steps")
        return
    if not isinstance(lp.target, ast.Name):
        raise AnalysisError(f"{cons}: loop target not a name")
    sv = lp.target.id
    # first statement(s) of the body must exhaust the step generator before anything yields/continues
    exhausted = False
    inl_e = Inliner(f.node)

    def is_step(e):
        return norm(inl_e.inline(e)) == sv

    for st in lp.body:
        if isinstance(st, ast.Assign) and len(st.targets) == 1 and isinstance(st.targets[0], ast.Name) and isinstance(st.value, (ast.Name, ast.Constant)):
            continue  # alias / placeholder bindings introduced by helper inlining
        if isinstance(st, ast.For) and is_step(st.iter) and not any(isinstance(x, (ast.Break, ast.Return)) for x in walk_no_nested(st)):
            exhausted = True
            break
        call = st.value if isinstance(st, (ast.Expr, ast.Assign)) and isinstance(st.value, ast.Call) else None
        if call is not None and norm(call.func) in ("list", "tuple", "collections.deque", "deque", "sum", "max", "min", "any", "all") and call.args and is_step(call.args[0]):
            mx = [k for k in call.keywords if k.arg == "maxlen"]
            if norm(call.func) not in ("any", "all"):
                exhausted = True
                break
        if any(isinstance(x, (ast.Yield, ast.YieldFrom)) for x in walk_no_nested(st)):
            break  # hands control back before exhausting
    L.check(exhausted, "O4", cons, f"{f.module.relpath}:{lp.lineno}",
            f"{f.qualname} does not exhaust the step generator `{sv}` before the next step is requested (step() of {d.name} is a generator: its moves run only when iterated)",
            f"{cons}(n): step counter advances but no move is attempted / moves of step k run after observers of step k", sv)


def _check_o3(prog: Program, L: Ledger, irun: FuncInfo, cfg, lt, steps_param: str) -> None:
    # the outermost `if` (direct child of the function body) containing the pre-loop observer call
    startup_if = None
    for st in irun.body():
        if isinstance(st, ast.While):
            break
        if isinstance(st, ast.If) and any(classify(x, steps_param) == "O" for x in walk_no_nested(st)):
            startup_if = st
        elif classify(st, steps_param) == "O":
            L.violation("O3", "irun:startup-unguarded", f"{irun.module.relpath}:{st.lineno}", "step-0 observer call is unconditional: every irun repeats it",
                        "run(a); run(b) logs step a twice", norm(st))
            return
    if startup_if is None:
        raise AnalysisError("irun: start-up block not found")
    guard = startup_if.test
    # the block may sit in the else-branch of an inverted guard (`if done: return` style)
    in_body = any(classify(x, steps_param) == "O" for b in startup_if.body for x in walk_no_nested(b))
    polarity = "true" if in_body else "false"
    gtxt = norm(guard) if in_body else f"not ({norm(guard)})"
    # state variables of the guard
    attrs = sorted({norm(n) for n in ast.walk(guard) if isinstance(n, ast.Attribute) and norm(n.value) == "self"})
    if not attrs:
        raise AnalysisError(f"irun: start-up guard `{gtxt}` has no simulation state")
    flags = [a for a in attrs if a != "self.step_count"]
    test_node = next((n for n in cfg.nodes if n.kind == "test" and n.ast is guard), None)
    if test_node is None:
        raise AnalysisError("irun: start-up guard node not in CFG")
    n_checked = 0
    for path in cfg.paths(max_back=2, include_exc=False):
        took = any(node is test_node and lab == polarity for node, lab in path)
        if not took:
            continue
        # entry states that make the guard true
        for vals in itertools.product([0, 1, 3], *[[False, True]] * len(flags)):
            env = {"self.step_count": vals[0]}
            env.update(dict(zip(flags, vals[1:])))
            if "self.step_count" not in attrs:
                env.pop("self.step_count")
                if vals[0] != 0:
                    continue
            try:
                if bool(ev(guard, env)) != in_body:
                    continue
            except (Raises, PredUnsupported) as exc:
                raise AnalysisError(f"irun start-up guard `{gtxt}`: {exc}") from exc
            st = dict(env)
            st.setdefault("self.step_count", 0)
            iters = 0
            for node, lab in path:
                a = node.ast
                if node.kind != "stmt" or a is None:
                    if node is lt and lab == "true":
                        iters += 1
                    continue
                if isinstance(a, ast.AugAssign) and norm(a.target) == "self.step_count" and isinstance(a.op, ast.Add):
                    st["self.step_count"] += 1
                elif isinstance(a, ast.Assign):
                    for t in a.targets:
                        tt = norm(t)
                        if tt in flags and isinstance(a.value, ast.Constant):
                            st[tt] = a.value.value
                        elif tt == "self.step_count" and norm(a.value) == "self.step_count + 1":
                            st["self.step_count"] += 1
            final = {k: v for k, v in st.items() if k in attrs}
            still = bool(ev(guard, final)) == in_body
            n_checked += 1
            cons = "irun:startup-one-shot"
            if still:
                L.violation("O3", cons, f"{irun.module.relpath}:{startup_if.lineno}",
                            f"start-up guard `{gtxt}` is still true at exit on the path with {iters} loop iteration(s): the next irun writes the header and calls step-0 observers again",
                            f"run(0); run(n): header and step-0 row appear twice (guard state at exit: {final})", gtxt)
            else:
                L.ok("O3", f"{cons}[iters={iters},entry={env}]", f"{irun.module.relpath}:{startup_if.lineno}")
    if n_checked == 0:
        raise AnalysisError("irun: no path executes the start-up block")
    # O3 (other writers): a method other than irun / the constructor / from_dict that assigns one of the guard's flags must
    # not re-arm the start-up block: with the assigned value the guard is false for every step count a finished call can leave
    n_w = 0
    drv_classes = set(prog.subclasses(prog.cls("Driver")))
    for fi_w in prog.iter_functions():
        if fi_w.cls not in drv_classes or fi_w.name in ("irun", "__init__", "from_dict") or fi_w.node is irun.node:
            continue
        for a in walk_no_nested(fi_w.node):
            if not isinstance(a, ast.Assign):
                continue
            for t in a.targets:
                tt = norm(t)
                if tt not in flags:
                    continue
                n_w += 1
                for sc in (0, 1, 3):
                    for fv in itertools.product([False, True], repeat=len(flags)):
                        env = {"self.step_count": sc, **dict(zip(flags, fv))}
                        if bool(ev(guard, env)) == in_body:
                            continue  # not a state a completed start-up leaves behind
                        try:
                            env2 = dict(env)
                            env2[tt] = ev(a.value, env)
                            rearmed = bool(ev(guard, {k: v for k, v in env2.items() if k in attrs})) == in_body
                        except (Raises, PredUnsupported) as exc:
                            raise AnalysisError(f"{fi_w.qualname}: `{norm(a)}` writes the start-up flag with a value that is not decided: {exc}") from exc
                        if rearmed:
                            L.violation("O3", f"{fi_w.qualname}:startup-rearmed", f"{fi_w.module.relpath}:{a.lineno}",
                                        f"`{norm(a)}` leaves the start-up guard `{gtxt}` true again (state before: {env}): the next run/irun on the same driver repeats the header and the step-0 observer call",
                                        f"{fi_w.name}(k) then run(n): header twice, observers due at the split step called twice", gtxt)
                            break
                    else:
                        continue
                    break
                else:
                    L.ok("O3", f"{fi_w.qualname}:startup-flag-write", f"{fi_w.module.relpath}:{a.lineno}")
    # header precedes the observer call inside the block
    # (execution order = pre-order of the normalised block; line numbers mean nothing once helpers were inlined)
    seq = []

    def _preorder(node):
        k = classify(node, steps_param) if isinstance(node, ast.AST) else None
        if k in ("H", "O"):
            seq.append(k)
        for ch in ast.iter_child_nodes(node):
            if not isinstance(ch, (ast.FunctionDef, ast.AsyncFunctionDef, ast.Lambda, ast.ClassDef)):
                _preorder(ch)

    _preorder(startup_if)
    order = "".join(seq)
    L.check(order == "HO", "O3", "irun:header-before-row", f"{irun.module.relpath}:{startup_if.lineno}",
            f"start-up block events are `{order}`: the header must be written there, once, before the step-0 observer call", "first log row precedes the header, or a logger that is not due at step 0 (negative interval) never gets a header", order)
    # the header is written by the one-shot start-up block and nowhere else: a header tied to the logger being *due*
    # (inside the observer fan-out) is missing for a one-shot logger and repeated on continuation otherwise
    driver = prog.cls("Driver")
    irun_orig = driver.methods.get("irun")
    helpers = set(getattr(irun, "inlined", [])) | set(SPLICED)
    n_hdr = 0
    for c_ in calls_in(irun.node):  # the normalised irun, private helpers inlined
        if isinstance(c_.func, ast.Attribute) and c_.func.attr == "write_header":
            n_hdr += 1
            inside = any(x is c_ for x in ast.walk(startup_if))
            L.check(inside, "O3", "Driver.irun:write_header", f"{irun.module.relpath}:{c_.lineno}",
                    f"`{norm(c_)}` in irun is outside the one-shot start-up block", "the header is repeated when a run is continued", norm(c_))
    for fi_ in prog.iter_functions():
        if fi_.module.name.startswith(f"{prog.package}.io") or fi_ is irun_orig or fi_.qualname in helpers:
            continue
        for c_ in calls_in(fi_.node):
            if isinstance(c_.func, ast.Attribute) and c_.func.attr == "write_header":
                n_hdr += 1
                L.violation("O3", f"{fi_.qualname}:write_header", f"{fi_.module.relpath}:{c_.lineno}",
                            f"`{norm(c_)}` in {fi_.qualname}: the log header is written outside the one-shot start-up block of irun",
                            "a logger with a negative interval (not due at step 0) gets no header; or the header is repeated when a run is continued", norm(c_))
    L.floor("write_header call sites outside quansino.io", n_hdr, 1)
