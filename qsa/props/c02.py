"""C02 — acceptance decisions equal the textbook Metropolis rule.

F formula identity (sympy normal form + numeric witness) of every criterion's acceptance ratio with
  the reference, over atoms that are dataflow sources (context.* reads, ASE getters)
K no `matrix ± scalar` broadcast in a criterion (a hydrostatic pressure must enter as P·𝟙)
O no exponential that raises on overflow has an argument unbounded above
D the decision is the strict comparison `u < R` with u one draw from context.rng
P parameters are read from the context at evaluation time and the drivers' property pairs forward
  to the same context slot they read
"""

from __future__ import annotations

import ast
import copy
import random

from ..loader import AnalysisError, ClassInfo, FuncInfo, Program, calls_in, dotted, norm, walk_no_nested
from ..report import Ledger
from ..normalize import flat
from ..sym import DIFFERENT, EQUAL, UNDECIDED, Translator, Unsupported, Vocabulary, mat3, same, sp

POS = {"positive": True}
REAL = {"real": True}


def base_vocab() -> dict:
    t = {}
    for txt in ("context.atoms.get_potential_energy()",):
        t[txt] = ("E1", REAL)
    t["context.last_potential_energy"] = ("E0", REAL)
    t["context.last_kinetic_energy"] = ("K0", REAL)
    t["context.atoms.get_total_energy()"] = ("Etot1", REAL)
    t["context.temperature"] = ("T", POS)
    t["kB"] = ("kB", POS)
    t["context.pressure"] = ("P", REAL)
    for txt in ("context.atoms.get_volume()", "context.atoms.cell.volume", "context.atoms.get_cell().volume"):
        t[txt] = ("V1", POS)
    for txt in ("context.last_cell.volume",):
        t[txt] = ("V0", POS)
    t["len(context.atoms)"] = ("N", {"integer": True, "nonnegative": True})
    t["context.chemical_potential"] = ("mu", REAL)
    t["context.number_of_exchange_particles"] = ("Nex", {"integer": True, "positive": True})
    t["context.accessible_volume"] = ("Vacc", POS)
    t["context.exchange_atoms.get_masses().sum()"] = ("m", POS)
    t["np.sum(context.exchange_atoms.get_masses())"] = ("m", POS)
    t["_hplanck"] = ("h", POS)
    t["_Nav"] = ("Nav", POS)
    t["_e"] = ("qe", POS)
    t["context.rng.random()"] = ("u", REAL)
    return t


class AliasSubst(ast.NodeTransformer):
    def __init__(self, aliases: dict[str, ast.expr]):
        self.aliases = aliases

    def visit_Name(self, node):
        if isinstance(node.ctx, ast.Load) and node.id in self.aliases:
            return copy.deepcopy(self.aliases[node.id])
        return node


def pure_aliases(fn: ast.FunctionDef) -> dict[str, ast.expr]:
    """locals bound once to a pure attribute chain (``atoms = context.atoms``)."""
    from ..dataflow import local_defs

    out = {}
    for name, lst in local_defs(fn).items():
        if len(lst) == 1 and lst[0][1] is not None:
            v = lst[0][1]
            if isinstance(v, ast.Attribute) and dotted(v):
                out[name] = v
    # resolve chains
    for _ in range(3):
        for k, v in list(out.items()):
            out[k] = AliasSubst({a: b for a, b in out.items() if a != k}).visit(copy.deepcopy(v))
    return out


def criteria_classes(prog: Program) -> list[ClassInfo]:
    base = prog.cls("BaseCriteria")
    out = []
    for c in prog.subclasses(base, strict=True):
        f = prog.lookup_method(c, "evaluate")
        if f is not None and not f.is_trivial():
            out.append(c)
    return out


def reference(name: str, v: Vocabulary, delta: int | None, eps, S):
    s = v.sym
    E1, E0, K0, Et, T, kB, P = s("E1", **REAL), s("E0", **REAL), s("K0", **REAL), s("Etot1", **REAL), s("T", **POS), s("kB", **POS), s("P", **REAL)
    V1, V0, N = s("V1", **POS), s("V0", **POS), s("N", integer=True, nonnegative=True)
    if name == "canonical":
        return -(E1 - E0) / (kB * T)
    if name == "hamiltonian":
        return -(Et - E0 - K0) / (kB * T)
    if name == "isobaric":
        return -((E1 - E0) + P * (V1 - V0)) / (kB * T) + (N + 1) * sp.log(V1 / V0)
    if name == "isotension":
        work = V0 * ((S - P * sp.eye(3)) * eps).trace()
        return -((E1 - E0) + P * (V1 - V0) + work) / (kB * T) + (N + 1) * sp.log(V1 / V0)
    if name == "grand":
        mu, Nex, Vacc, m = s("mu", **REAL), s("Nex", integer=True, positive=True), s("Vacc", **POS), s("m", **POS)
        h, Nav, qe = s("h", **POS), s("Nav", **POS), s("qe", **POS)
        lam = sp.Float(1) * 0 + sp.Integer(10) ** 10 * sp.sqrt(h**2 / (2 * sp.pi * (m * sp.Rational(1, 1000) / Nav) * (kB * T * qe)))
        dE = E1 - E0
        if delta > 0:
            pref = Vacc**delta / lam ** (3 * delta)
            for i in range(1, delta + 1):
                pref = pref / (Nex + i)
        else:
            k = -delta
            pref = lam ** (3 * k) / Vacc**k
            for i in range(0, k):
                pref = pref * (Nex - i)
        return sp.log(pref) + (delta * mu - dE) / (kB * T)
    raise AnalysisError(f"no reference for {name}")


def kind_of(prog: Program, ci: ClassInfo, txt: str) -> str | None:
    n = ci.name.lower()
    if "grand" in n:
        return "grand"
    if "isotension" in n:
        return "isotension"
    if "isobaric" in n:
        return "isobaric"
    if "hamiltonian" in n:
        return "hamiltonian"
    if "canonical" in n:
        return "canonical"
    return None


def unclamp(logR):
    """Split Min(c, x) clamps: returns (core, [clamp constants])."""
    clamps = []

    def rec(x):
        if isinstance(x, sp.Min):
            nums = [a for a in x.args if a.is_number]
            rest = [a for a in x.args if not a.is_number]
            if nums and len(rest) == 1:
                clamps.append(min(nums))
                return rec(rest[0])
        if isinstance(x, sp.Add):
            return sp.Add(*[rec(a) for a in x.args])
        return x

    return rec(logR), clamps


_VIEW_FUNCS = {"np.asarray", "np.asanyarray", "numpy.asarray", "np.atleast_1d", "np.atleast_2d", "np.ravel", "np.squeeze", "np.transpose", "np.reshape", "np.diagonal", "np.broadcast_to"}
_VIEW_METHODS = {"view", "reshape", "ravel", "squeeze", "transpose", "swapaxes", "diagonal"}
_INPLACE_METHODS = {"sort", "fill", "resize", "put", "itemset", "partition", "append", "extend", "insert", "pop", "remove", "clear", "update", "setdefault", "popitem", "reverse"}


def _may_alias_context(e: ast.expr, aliases: set[str]) -> bool:
    """can the value of `e` share storage with something the context (or the criterion) holds?"""
    if isinstance(e, ast.Name):
        return e.id in aliases
    if isinstance(e, ast.Attribute):
        if e.attr in ("T", "real", "flat", "array"):
            return _may_alias_context(e.value, aliases)
        root = e
        while isinstance(root, ast.Attribute):
            root = root.value
        return isinstance(root, ast.Name) and (root.id in ("context", "self") or root.id in aliases)
    if isinstance(e, ast.Subscript):
        return _may_alias_context(e.value, aliases)  # basic slicing gives a view
    if isinstance(e, ast.Call):
        fn = norm(e.func)
        if fn in _VIEW_FUNCS and e.args:
            return _may_alias_context(e.args[0], aliases)
        if isinstance(e.func, ast.Attribute) and e.func.attr in _VIEW_METHODS:
            return _may_alias_context(e.func.value, aliases)
    if isinstance(e, ast.IfExp):
        return _may_alias_context(e.body, aliases) or _may_alias_context(e.orelse, aliases)
    return False


def _check_read_only(L: Ledger, ci: ClassInfo, f: FuncInfo, body: list[ast.stmt]) -> None:
    """Rule W: evaluating a criterion is an observation.  evaluate() may bind locals and keep diagnostic values on the
    criterion, but it never writes to the context, and never changes IN PLACE an array that may share storage with a context
    attribute (np.asarray / a slice / .T of one is the same memory): the parameter would drift from trial to trial."""
    aliases: set[str] = set()
    n = 0
    for st in ast.walk(ast.Module(body=body, type_ignores=[])):
        if isinstance(st, (ast.Assign, ast.AnnAssign)) and st.value is not None:
            for t in (st.targets if isinstance(st, ast.Assign) else [st.target]):
                if isinstance(t, ast.Name) and _may_alias_context(st.value, aliases) and not (isinstance(st.value, ast.Attribute) and norm(st.value).startswith("self.")):
                    aliases.add(t.id)
    aliases.discard("context")

    def ctx_target(t) -> bool:
        root = t
        while isinstance(root, (ast.Attribute, ast.Subscript)):
            root = root.value
        if isinstance(root, ast.Name) and root.id == "context" and root is not t:
            return True
        if isinstance(t, ast.Subscript):
            return _may_alias_context(t.value, aliases) and not (isinstance(root, ast.Name) and root.id == "self")
        return isinstance(t, ast.Name) and t.id in aliases

    for st in ast.walk(ast.Module(body=body, type_ignores=[])):
        bad = None
        if isinstance(st, ast.AugAssign) and ctx_target(st.target):
            bad = st
        elif isinstance(st, ast.Assign) and any(not isinstance(t, ast.Name) and ctx_target(t) for t in st.targets):
            bad = st
        elif isinstance(st, ast.Call) and isinstance(st.func, ast.Attribute) and st.func.attr in _INPLACE_METHODS and _may_alias_context(st.func.value, aliases) \
                and not norm(st.func.value).startswith("self."):
            bad = st
        elif isinstance(st, ast.Call) and any(k.arg == "out" and _may_alias_context(k.value, aliases) for k in st.keywords):
            bad = st
        if bad is not None:
            n += 1
            L.violation("W", f"{ci.name}.evaluate:writes-context", f"{f.module.relpath}:{bad.lineno}",
                        f"`{norm(bad)[:90]}` in {ci.name}.evaluate changes, in place, data that the context holds (or an array sharing its storage: np.asarray / a slice / .T of a context attribute is the same memory)",
                        "the parameter read by the acceptance formula drifts from trial to trial (trial k sees k updates); the user's own array changes as well", norm(bad)[:100])
    if n == 0:
        L.ok("W", f"{ci.name}.evaluate:read-only", f.where)


def analyse(prog: Program, L: Ledger, ci: ClassInfo, f: FuncInfo, deltas: list[int]) -> None:
    kind = kind_of(prog, ci, "")
    if kind is None:
        raise AnalysisError(f"criterion {ci.name}: no reference formula is associated with this class")
    params = f.params()
    ctxp = params[0] if f.kind == "static" else (params[1] if len(params) > 1 else None)
    if ctxp is None:
        raise AnalysisError(f"{f.qualname}: no context parameter")
    aliases = pure_aliases(f.node)
    if ctxp != "context":
        aliases[ctxp] = ast.Name(id="context", ctx=ast.Load())
    body = [AliasSubst(aliases).visit(copy.deepcopy(st)) for st in f.body()]
    for st in body:
        ast.fix_missing_locations(st)
    where = f.where
    _check_read_only(L, ci, f, body)

    for delta in (deltas if kind == "grand" else [None]):
        table = base_vocab()
        v = Vocabulary(table, default_assumptions={"real": True})
        t = Translator(v)
        S = mat3("S")
        eps = mat3("eps")
        v.bind("context.external_stress", S)
        # a determinant of the cell is the SIGNED volume: ±V (the orientation of the cell vectors is the user's choice, a
        # left-handed cell is legal); only its absolute value is the volume the formula speaks of
        for txts_, vol_, sg_ in (
            (("np.linalg.det(context.atoms.cell.array)", "np.linalg.det(context.atoms.get_cell().array)", "np.linalg.det(context.atoms.get_cell())", "np.linalg.det(context.atoms.cell)"), "V1", "hand1"),
            (("np.linalg.det(context.last_cell.array)", "np.linalg.det(context.last_cell)"), "V0", "hand0"),
        ):
            for txt_ in txts_:
                v.bind(txt_, v.sym(vol_, **POS) * v.sym(sg_, **REAL))
        if delta is not None:
            v.bind("context.particle_delta", sp.Integer(delta))
        strain_exprs = []

        def hook(tr, node, _eps=eps):
            # keep the strain tensor opaque: whatever is stored in self.strain_tensor is ε
            if isinstance(node, ast.Attribute) and norm(node) == "self.strain_tensor":
                return _eps
            return None

        t.hooks.append(hook)

        def det_hook(tr, node, _body=body):
            # np.linalg.det(<a local that names one of the cells>): the signed volume of that cell
            if isinstance(node, ast.Call) and norm(node.func) in ("np.linalg.det", "numpy.linalg.det") and len(node.args) == 1 and isinstance(node.args[0], ast.Name):
                from ..dataflow import seq_inline

                txt_ = norm(ast.Call(func=node.func, args=[seq_inline(_body, node.args[0], stop_at=node)], keywords=[]))
                if txt_ in v.values:
                    return v.values[txt_]
            return None

        t.hooks.append(det_hook)
        # pre-bind the strain assignment: translate its RHS separately for the zero-at-identity check
        body2 = []
        for st in body:
            if isinstance(st, ast.Assign) and any(norm(x) == "self.strain_tensor" for x in st.targets):
                strain_exprs.append(st.value)
                continue
            body2.append(st)
        # locals that only feed the strain tensor (a `strain = inv(h0.T) @ …; strain -= 1; strain *= 0.5` built up before it is
        # stored) are not part of the acceptance formula either: they go with it (the strain itself is checked separately)
        feeding = {n_.id for e_ in strain_exprs for n_ in ast.walk(e_) if isinstance(n_, ast.Name)}
        changed_ = True
        while changed_ and feeding:
            changed_ = False
            for nm_ in list(feeding):
                defs_ = [st_ for st_ in body2 if isinstance(st_, (ast.Assign, ast.AugAssign, ast.AnnAssign))
                         and any(isinstance(t_, ast.Name) and t_.id == nm_ for t_ in (st_.targets if isinstance(st_, ast.Assign) else [st_.target]))]
                others_ = [st_ for st_ in body2 if st_ not in defs_ and any(isinstance(n_, ast.Name) and n_.id == nm_ and isinstance(n_.ctx, ast.Load) for n_ in ast.walk(st_))]
                if defs_ and not others_:
                    for d_ in defs_:
                        feeding |= {n_.id for n_ in ast.walk(d_) if isinstance(n_, ast.Name) and isinstance(n_.ctx, ast.Load)}
                        body2.remove(d_)
                    feeding.discard(nm_)
                    changed_ = True
        try:
            r = t.run_block(body2)
        except Unsupported as exc:
            raise AnalysisError(f"{f.qualname}: outside the straight-line fragment: {exc}") from exc
        if r is None or r[0] != "return":
            raise AnalysisError(f"{f.qualname}: no return reached")
        ret = r[1]
        # the decision may have been named first (`accepted = u < A; return accepted`, also through an inlined helper)
        for _hop in range(3):
            if not isinstance(ret, ast.Name):
                break
            defs_ = [st for st in body2 if isinstance(st, (ast.Assign, ast.AnnAssign)) and st.value is not None
                     and any(isinstance(x, ast.Name) and x.id == ret.id for x in (st.targets if isinstance(st, ast.Assign) else [st.target]))]
            if len(defs_) != 1:
                break
            ret = defs_[0].value
        tag = f"{ci.name}" + (f"[δ={delta:+d}]" if delta is not None else "")
        # ---- D decision shape
        u = v.sym("u", **REAL)
        okD = False
        R = None
        if isinstance(ret, ast.Compare) and len(ret.ops) == 1:
            lhs, rhs = t.tr(ret.left), t.tr(ret.comparators[0])
            if isinstance(ret.ops[0], ast.Lt) and lhs == u:
                okD, R = True, rhs
            elif isinstance(ret.ops[0], ast.Gt) and rhs == u:
                okD, R = True, lhs
            elif isinstance(ret.ops[0], (ast.LtE, ast.GtE)):
                R = rhs if isinstance(ret.ops[0], ast.LtE) else lhs
        n_draws = sum(1 for c in calls_in(f.node) if norm(AliasSubst(aliases).visit(copy.deepcopy(c))) == "context.rng.random()")
        L.check(okD and n_draws == 1, "D", tag, where,
                f"decision is `{norm(ret)[:100]}` with {n_draws} generator draw(s): the rule is `u < A` (strict, one uniform draw from context.rng)",
                "u = 0 with A = 0 would be accepted under `<=`; two draws desynchronise same-seed runs", norm(ret)[:120])
        if R is None:
            raise AnalysisError(f"{f.qualname}: return value `{norm(ret)[:60]}` is not a comparison against the acceptance ratio")
        # ---- P: criterion-cached parameters
        for txt in list(v.unknown):
            if txt.startswith("self.") and v.unknown[txt] in sp.sympify(R).free_symbols:
                L.violation("P", f"{ci.name}:{txt}", where, f"acceptance ratio reads `{txt}` cached on the criterion instead of the context",
                            "changing the parameter on the simulation object does not affect the next trial", txt)
        # ---- K broadcasts
        for b in t.broadcasts:
            L.violation("K", f"{ci.name}:{norm(b)[:60]}", f"{f.module.relpath}:{f.node.lineno + getattr(b, 'lineno', 1) - 1}" if False else where,
                        f"`{norm(b)[:80]}` adds a scalar to a 3×3 matrix: numpy broadcasts it onto every element, off-diagonal ones included",
                        "S = P·𝟙 (purely hydrostatic) with a sheared step: the stress-work term P·Σ_{i≠j} ε_ij does not vanish, so isotension differs from isobaric", norm(b)[:100])
        if not t.broadcasts:
            L.ok("K", tag, where)
        # ---- O overflow
        Rs = sp.sympify(R)
        for call, arg in t.raising_calls:
            fn = norm(call.func)
            if fn not in ("math.exp", "exp"):
                continue
            argn = sp.sympify(arg)
            core, clamps = unclamp(argn)
            bounded = bool(clamps) and max(clamps) <= sp.Float(709.78)
            unb = [s_ for s_ in (v.sym("E1", **REAL), v.sym("Etot1", **REAL)) if s_ in argn.free_symbols]
            if bounded:
                L.ok("O", f"{tag}:{norm(call)[:40]}", where)
            elif unb:
                L.violation("O", f"{ci.name}.evaluate:math.exp", where,
                            f"`{norm(call)[:90]}`: the argument is unbounded above (it decreases linearly in {unb[0]}), and math.exp raises OverflowError above 709.78",
                            f"a very favourable trial, (E1−E0)/kT < −709.78 (e.g. an overlapping configuration relaxed, or T→small): OverflowError instead of acceptance", norm(call)[:120])
            else:
                raise AnalysisError(f"{f.qualname}: cannot bound the argument of `{norm(call)[:60]}`")
        # ---- F formula identity
        unknown_in_R = sorted(txt for txt, s_ in v.unknown.items() if s_ in Rs.free_symbols and not txt.startswith("self."))
        if unknown_in_R:
            raise AnalysisError(f"{f.qualname}: acceptance ratio mentions unrecognised sources {unknown_in_R[:4]}")
        logR = sp.expand_log(sp.log(Rs), force=True)
        core, clamps = unclamp(logR)
        for c in clamps:
            # a clamp at c changes no decision iff exp(c)·(factors outside) ≥ 1; c ≥ 0 for a bare exponential
            L.check(c >= 0, "F", f"{tag}:clamp", where, f"exponent clamped at {c} < 0: trials with acceptance ratio in (e^{c}, 1) are wrongly rejected", f"acceptance ratio 0.9 with u = 0.5", str(c))
        ref = reference(kind, v, delta, eps, S)
        dom = {"T": (sp.Rational(1, 2), 3), "kB": (sp.Rational(1, 2), 2), "V1": (1, 3), "V0": (1, 3), "Nex": (4, 9), "N": (0, 6), "Vacc": (1, 3), "m": (1, 3), "h": (1, 2), "Nav": (1, 2), "qe": (1, 2)}
        verdict, wit = same(core, ref, domains=dom, trials=10, seed=L.seed)
        if verdict == EQUAL:
            L.ok("F", tag, where, "normal forms equal")
        elif verdict == DIFFERENT:
            L.violation("F", tag, where, f"acceptance ratio of {ci.name} is not the textbook one: ln A differs from the reference ({wit})",
                        f"ln A(implemented) vs ln A(reference) {wit}", f"{tag}")
        else:
            raise AnalysisError(f"{f.qualname}: formula comparison undecided: {wit}")
        # ---- strain: zero at identity deformation
        if strain_exprs:
            _check_strain(prog, L, ci, f, body, aliases)


def _check_strain(prog, L, ci, f, body, aliases):
    """Value-number the body up to the strain assignment with current cell = reference cell (one
    exact rational matrix): the stored strain must be the zero matrix."""
    v = Vocabulary({}, default_assumptions={"real": True})
    t = Translator(v)
    rng = random.Random(7)
    h0 = sp.Matrix(3, 3, lambda i, j: sp.Rational(rng.randint(-5, 5), 4) + (3 if i == j else 0))
    for txt in ("context.atoms.get_cell().array", "context.atoms.cell.array", "context.last_cell.array", "context.atoms.get_cell()", "context.last_cell", "context.atoms.cell",
                "np.asarray(context.atoms.get_cell())", "np.asarray(context.last_cell)", "np.array(context.atoms.get_cell())", "np.array(context.last_cell)"):
        v.bind(txt, h0)
    upto = []
    for st in body:
        upto.append(st)
        if isinstance(st, ast.Assign) and any(norm(x) == "self.strain_tensor" for x in st.targets):
            break
    try:
        t.run_block(upto)
    except Unsupported as exc:
        raise AnalysisError(f"{f.qualname}: strain expression outside the fragment: {exc}") from exc
    val = v.values.get("self.strain_tensor")
    if not isinstance(val, sp.MatrixBase):
        raise AnalysisError(f"{f.qualname}: strain expression did not evaluate to a matrix")
    zero = all(sp.simplify(x) == 0 for x in val)
    L.check(zero, "F", f"{ci.name}:strain(identity)", f.where,
            "strain tensor does not vanish for an undeformed cell (current cell = reference cell)",
            "a trial that leaves the cell unchanged still pays stress work", "strain_tensor")


def check_properties(prog: Program, L: Ledger) -> None:
    mc = prog.cls("MonteCarlo")
    n = 0
    for d in prog.subclasses(mc):
        for c in [d]:
            for pname, getter in c.methods.items():
                if getter.kind != "property":
                    continue
                slot = None
                for st in getter.body():
                    if isinstance(st, ast.Return) and isinstance(st.value, ast.Attribute) and norm(st.value.value) == "self.context":
                        slot = st.value.attr
                if slot is None:
                    continue
                n += 1
                setter = c.setters.get(pname)
                cons = f"{c.name}.{pname}"
                if setter is None:
                    L.violation("P", cons, getter.where, f"`{pname}` reads context.{slot} but has no setter", "the parameter cannot be changed on the simulation object", pname)
                    continue
                vp = setter.params()[1]
                tgt = [norm(t) for st in setter.body() if isinstance(st, ast.Assign) for t in st.targets if norm(st.value) == vp]
                L.check(tgt == [f"self.context.{slot}"], "P", cons, setter.where,
                        f"getter of `{pname}` reads context.{slot} but the setter assigns {tgt or 'nothing'}",
                        f"sim.{pname} = x changes something the next acceptance test does not read", pname)
    L.floor("driver property pairs forwarding to the context", n, 6)
    # constructor parameters reach the context through those properties
    for d in prog.subclasses(mc):
        init = d.methods.get("__init__")
        if init is None:
            continue
        for p in init.params()[1:]:
            getter = prog.lookup_method(d, p)
            if getter is None or getter.kind != "property":
                continue
            assigned = False
            for st in walk_no_nested(init.node):
                if isinstance(st, ast.Assign) and any(norm(t) == f"self.{p}" for t in st.targets):
                    assigned = True
                for c in (n2 for n2 in walk_no_nested(st) if isinstance(n2, ast.Call)):
                    if isinstance(c.func, ast.Attribute) and c.func.attr == "__init__" and (any(norm(a) == p for a in c.args) or any(k.arg == p for k in c.keywords)):
                        assigned = True
            L.check(assigned, "P", f"{d.name}.__init__:{p}", init.where, f"constructor parameter `{p}` of {d.name} is never stored through its property", f"{d.name}(..., {p}=x) runs at the default {p}", p)
            # … for EVERY value: a store skipped when the parameter is falsy (0 is a legal temperature offset, pressure,
            # chemical potential) leaves the slot at the context's own default, which must then be that falsy value
            slot = next((st.value.attr for st in getter.body() if isinstance(st, ast.Return) and isinstance(st.value, ast.Attribute) and norm(st.value.value) == "self.context"), None)
            ctx = prog.classvar_class(d, "default_context")

            def truth_tests(test, name):
                if isinstance(test, ast.Name):
                    return test.id == name
                if isinstance(test, ast.UnaryOp) and isinstance(test.op, ast.Not):
                    return truth_tests(test.operand, name)
                if isinstance(test, ast.BoolOp):
                    return any(truth_tests(v, name) for v in test.values)
                return False

            for iff in [n2 for n2 in walk_no_nested(init.node) if isinstance(n2, ast.If) and truth_tests(n2.test, p)]:
                stores = [st for b in iff.body + iff.orelse for st in [b, *walk_no_nested(b)] if isinstance(st, ast.Assign) and any(norm(t) == f"self.{p}" for t in st.targets)]
                if not stores or slot is None or ctx is None:
                    continue
                default = None
                for cf in prog.super_chain(ctx, "__init__"):
                    for a_ in walk_no_nested(cf.node):
                        tg_ = a_.targets if isinstance(a_, ast.Assign) else [a_.target] if isinstance(a_, ast.AnnAssign) and a_.value is not None else []
                        if any(norm(t) == f"self.{slot}" for t in tg_) and default is None:
                            default = a_.value
                falsy_default = isinstance(default, ast.Constant) and not isinstance(default.value, str) and default.value is not None and not default.value
                L.check(falsy_default, "P", f"{d.name}.__init__:{p}:truth-tested", f"{init.module.relpath}:{iff.lineno}",
                        f"`{p}` is stored only when it is truthy (`if {norm(iff.test)}`), and the context's own default for `{slot}` is `{norm(default) if default is not None else '?'}`, not the falsy value: {d.name}(..., {p}=0) runs at that default instead of 0",
                        f"{d.name}(..., {p}=0.0): the acceptance rule uses {slot} = {norm(default) if default is not None else '?'}", p)


def check_particle_number(prog: Program, L: Ledger) -> None:
    """N: every write of `number_of_exchange_particles` is an initialisation from a constant / constructor parameter, a
    property setter forwarding a value to the context, or the accept-path advance by `self.particle_delta`."""
    from ..dataflow import Inliner, param_names

    slot = "number_of_exchange_particles"
    n = 0
    advance = 0
    for fi in prog.iter_functions():
        inl = None
        for st in walk_no_nested(fi.node):
            tg = st.targets if isinstance(st, ast.Assign) else ([st.target] if isinstance(st, (ast.AugAssign, ast.AnnAssign)) else [])
            for t in tg:
                if not (isinstance(t, ast.Attribute) and t.attr == slot):
                    continue
                n += 1
                where = f"{fi.module.relpath}:{st.lineno}"
                recv = norm(t.value)
                cons = f"{fi.qualname}:{slot}"
                if isinstance(st, ast.AugAssign):
                    ok = isinstance(st.op, ast.Add) and norm(st.value) == f"{recv}.particle_delta"
                    advance += ok
                    L.check(ok, "N", cons, where, f"`{norm(st)}` advances the particle number by something other than the trial's particle_delta",
                            "after an accepted exchange of a multi-atom species the N entering V/(Λ³(N+1)) and Λ³N/V is not the number of particles", norm(st))
                    continue
                val = st.value
                if val is None:
                    continue
                inl = inl or Inliner(fi.node)
                v = inl.inline(val)
                vt = norm(v)
                if fi.name == "__init__" and (isinstance(v, ast.Constant) or (isinstance(v, ast.Name) and v.id in param_names(fi.node))):
                    L.ok("N", cons, where)
                elif fi.kind == "setter" and isinstance(v, ast.Name) and v.id in param_names(fi.node):
                    L.ok("N", cons, where)
                elif vt in (f"{recv}.{slot} + {recv}.particle_delta", f"{recv}.particle_delta + {recv}.{slot}"):
                    advance += 1
                    L.ok("N", cons, where)
                else:
                    L.violation("N", cons, where, f"`{norm(st)[:100]}` sets the particle number to `{vt[:80]}`: not an initialisation and not N + particle_delta",
                                "the N entering the insertion/deletion acceptance ratio is not the number of particles", norm(st)[:120])
    L.floor("writes of number_of_exchange_particles", n, 3)
    L.check(advance >= 1, "N", "ExchangeContext.save_state:advance", "src/quansino/mc/contexts.py", "no accept path advances the particle number by particle_delta", "N never changes although particles are exchanged", "advance")


def run(prog: Program, L: Ledger) -> None:
    L.explanation = (
        "C02 decided by value-numbering each criterion's evaluate() (straight-line code; the grand-canonical factorial loops are "
        "unrolled for particle_delta ∈ {±1} (quick) / {±1, ±2, ±3} (thorough)) into a sympy expression over atoms that are dataflow "
        "sources, and deciding ln A(implemented) = ln A(reference) by symbolic normal form; a difference is reported only with a "
        "numeric witness point of the two *formulas*. Matrix terms use explicit 3×3 symbol matrices with numpy broadcasting "
        "semantics, so `S − P` (scalar broadcast) differs from `S − P·𝟙`. math.exp arguments are checked for an upper bound "
        "(clamps recognised); the decision must be the strict `u < A` with one draw; parameters must be read from the context and the "
        "drivers' property pairs must forward to the slot they read. Not decided: floating-point rounding near A = 1; the strain "
        "definition beyond 'vanishes for an undeformed cell'."
    )
    L.rule("F", "ln of the acceptance ratio has the same normal form as the textbook reference for its ensemble (atoms = dataflow sources)")
    L.rule("K", "no `matrix ± scalar` broadcast inside a criterion")
    L.rule("O", "every math.exp argument reachable in evaluate() is bounded above by 709.78 (clamped) — arbitrarily favourable trials never raise")
    L.rule("D", "the decision is `u < A`, strict, with u the single context.rng.random() draw")
    L.rule("P", "criteria read parameters from the context at evaluation time; driver property getter/setter pairs use the same context slot; constructor parameters go through them")
    L.rule("W", "evaluate() never writes to the context nor changes in place an array that may share storage with a context attribute")
    L.rule("N", "the particle number N read by the insertion/deletion rule is only ever advanced by the trial's particle_delta (who-may-write on number_of_exchange_particles)")
    L.assume("numpy broadcasting: matrix ± scalar is element-wise; math.exp raises OverflowError above 709.78 while np.exp saturates")

    crits = criteria_classes(prog)
    L.floor("criteria classes with a real evaluate()", len(crits), 5)
    deltas = [1, -1] if L.tier == "quick" else [1, -1, 2, -2, 3, -3]
    for ci in crits:
        # public / static helpers of the criteria classes (an `acceptance_probability(x)`, a `potential_energy_difference(ctx)`) are seen through
        # — but not helpers that keep state on the criterion (a cache written to `self.…`): those stay calls, and rule P
        # reports what the formula reads through them
        stateful = tuple(m.name for c_ in prog.mro_classes(ci) for m in c_.methods.values()
                         if any(isinstance(t_, ast.Attribute) and isinstance(t_.value, ast.Name) and t_.value.id == "self"
                                for n_ in walk_no_nested(m.node) if isinstance(n_, (ast.Assign, ast.AugAssign, ast.AnnAssign))
                                for t_ in (n_.targets if isinstance(n_, ast.Assign) else [n_.target])))
        f = flat(prog, prog.lookup_method(ci, "evaluate"), ci, keep=("evaluate", "to_dict", "from_dict", *stateful), public_methods=True)
        analyse(prog, L, ci, f, deltas)
    # default criteria used by drivers are covered
    check_properties(prog, L)
    check_particle_number(prog, L)
    # the kinetic energy K0 the Hamiltonian formula reads must be that of the momenta the trajectory started from
    from . import c14

    check_reference_energy(prog, L)
    check_default_tables(prog, L)
    L.rule("H", "context.last_kinetic_energy, read by the Hamiltonian criterion as the initial kinetic energy, is on every abstract path that of the momenta present when the integrator starts")
    c14.check_kinetic_reference(prog, L, "H")


def check_default_tables(prog: Program, L: Ledger) -> None:
    """Rule T: the criterion a driver picks BY DEFAULT for a move is the textbook rule for that kind of trial."""
    from ..scenarios import compatible, default_criteria_for, elementary_moves, monte_carlo_drivers

    L.rule("T", "default criteria tables: a trial that draws momenta and integrates a trajectory (Hamiltonian move) is judged by default by a criterion whose exponent contains the kinetic-energy difference, and no other trial is (the table lookup follows ** spreads and the move's MRO)")
    ham = prog.cls("HamiltonianDisplacementMove")

    def reads_kinetic(ci) -> bool:
        f = prog.lookup_method(ci, "evaluate")
        return f is not None and any(isinstance(n, ast.Attribute) and n.attr in ("last_kinetic_energy", "get_kinetic_energy") for n in ast.walk(f.node))

    n = 0
    for d in monte_carlo_drivers(prog):
        for mv in elementary_moves(prog):
            if not compatible(prog, d, mv):
                continue
            crit = default_criteria_for(prog, d, mv)
            if crit is None:
                continue
            n += 1
            needs = ham in prog.mro(mv)
            has = reads_kinetic(crit)
            L.check(needs == has, "T", f"{d.name}.default_criteria[{mv.name}]", d.where,
                    f"{d.name} judges {mv.name} by default with {crit.name}, whose exponent {'contains' if has else 'does not contain'} the kinetic-energy difference while the trial {'does' if needs else 'does not'} draw momenta and integrate",
                    ("hybrid Monte Carlo accepted on ΔE_pot alone: integration error in the total energy is not corrected, momenta bias the ensemble" if needs else "a positional trial judged with a kinetic term that was never refreshed"),
                    crit.name)
    L.floor("driver × move default criteria resolved", n, 6)


# ---------------------------------------------------------------------------------------------- rule E (abstract heap)
def check_trial(prog: Program, sc, rec) -> list[dict]:
    """Called by qsa.scenarios.run_all for every completed abstract trial: the energy E_old that the acceptance formula
    reads (context.last_potential_energy) is the energy of the configuration the trial started from."""
    from ..absim import V, simp

    if "last_potential_energy" not in rec.ctx_before:
        return []
    v = rec.ctx_before["last_potential_energy"]
    b = (simp(rec.before["P"]), simp(rec.before["C"]), simp(rec.before["A"]))
    scen = f"{rec.driver}×{rec.move_cls}"
    out = []

    def bad(which, key, val):
        out.append({"status": "violation", "rule": "E", "construct": f"{rec.driver}:reference-energy[{key}]", "where": "",
                    "detail": f"at the start of {which} under {rec.driver} the reference energy E_old is {str(val)[:90]}, not the energy of the configuration the trial starts from: "
                              "ΔE in the acceptance ratio is not E_new − E_old of this trial (with NaN every comparison is False and min(0, nan) is 0 — the trial is accepted or rejected unconditionally)",
                    "witness": f"scenario {scen}; abstract path: " + " ; ".join(list(rec.path)[-6:]), "stmt": f"reference-energy-{key}"})

    if rec.index == 0:
        if isinstance(v, V) and v.term and v.term[0] == "E" and v.term[1] == b:
            out.append({"status": "ok", "rule": "E", "construct": f"{scen}:first-trial:reference-energy"})
        else:
            bad(f"the first trial (after validate_simulation) of {rec.move_cls}", "first", v)
    # what the NEXT trial will read: after this one completed (accepted, rejected or failed) the slot holds the energy
    # of the configuration the atoms are left in
    unrestored = rec.outcome in ("rejected", "failed") and any(simp(rec.after[c]) != simp(rec.before[c]) for c in ("P", "A", "C"))
    if unrestored:
        # the configuration itself was not restored: that is C03's violation (recorded there); the reference energy of a
        # configuration that should not exist would only restate it
        out.append({"status": "ok", "rule": "E", "construct": f"{scen}:after-{rec.outcome}:skipped-unrestored-configuration(C03)"})
    elif rec.outcome in ("accepted", "rejected", "failed") and "last_potential_energy" in rec.ctx_after:
        va = rec.ctx_after["last_potential_energy"]
        a = (simp(rec.after["P"]), simp(rec.after["C"]), simp(rec.after["A"]))
        if isinstance(va, V) and va.term and va.term[0] == "E" and va.term[1] == a:
            out.append({"status": "ok", "rule": "E", "construct": f"{scen}:after-{rec.outcome}:reference-energy"})
        else:
            bad(f"the trial that follows a {rec.outcome} trial of {rec.move_cls}", f"after-{rec.outcome}", va)
    return out


def check_reference_energy(prog: Program, L: Ledger) -> None:
    from ..scenarios import run_all, scenarios

    L.rule("E", "on every abstract path, at the start of the first trial and after every completed trial, context.last_potential_energy (E_old of the formula) is the energy of the configuration the trial starts from")
    scs = scenarios(prog, with_composites=False, iterations=1)
    if L.tier == "thorough":
        # composite move tables as well, and two consecutive trials (the reference the second trial actually reads)
        scs = scenarios(prog, with_composites=True, iterations=1) + scenarios(prog, with_composites=False, iterations=2)
    L.floor("driver × move scenarios for the reference energy", len(scs), 8)
    n = 0
    for label, stats, findings, oks, err in run_all(prog, "qsa.props.c02", scs):
        if err:
            raise AnalysisError(f"scenario {label}: {err}")
        n += stats["trials"]
        for rule, construct, k in oks:
            L.ok(rule, construct, "", f"{k} trials")
        for f in findings:
            L.violation(f["rule"], f["construct"], f["where"], f["detail"], f["witness"], f.get("stmt", ""))
    L.floor("abstract trials checked for the reference energy", n, 100)
