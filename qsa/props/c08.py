"""C08 — every shipped component survives serialization with its full configuration.

S1 registered under its own class name, by a module that importing its sub-package / quansino.mc executes
S2 every get_typed_class(name, Base) reading site admits every class the writing site can put there
S3 emitted kwargs ⊆ constructor parameters (no TypeError on rebuild)
S4 every constructor parameter / tunable attribute is emitted (kwargs, attributes, or the context dict)
S5 emitted value ∘ constructor treatment = identity (e.g. dt*fs stored ↔ dt/fs emitted)
S6 import-order simulation: every public module works as the first import of a fresh interpreter
"""

from __future__ import annotations

import ast

from ..dataflow import ann_members, self_attr_annotations
from ..importsim import ImportSim, State
from ..loader import AnalysisError, ClassInfo, FuncInfo, Program, dotted, norm, walk_no_nested
from ..report import Ledger
from ..serial import (
    DV,
    EV,
    class_members,
    ctor_info,
    emitted_schema,
    lookup_sites,
    protocol_members,
    registrations,
)

ACTIONS = {
    "move": "__call__",
    "operation": "calculate",
    "integrator": "integrate",
    "criteria": "evaluate",
    "driver": "step",
}
# constructor parameters of drivers that are I/O handles or convenience move slots, not settings
DRIVER_PARAM_EXEMPT = {
    "logfile": "open file / observer handle (re-attached by the user on restart, like the calculator)",
    "trajectory": "open file / observer handle",
    "restart_file": "open file / observer handle",
    "default_displacement_move": "convenience slot: the move itself is serialized in the move table",
    "default_cell_move": "convenience slot: serialized in the move table",
    "default_exchange_move": "convenience slot: serialized in the move table",
    "atoms": "emitted as the top-level 'atoms' entry",
}


def family_of(prog: Program, ci: ClassInfo) -> str | None:
    mem = class_members(prog, ci)
    names = {c.name for c in prog.mro_classes(ci)}
    if "to_dict" not in mem:
        return None
    if any(b.rsplit(".", 1)[-1] == "Protocol" for c in prog.mro_classes(ci) for b in c.bases):
        return None  # structural protocol definitions, not components
    if "Observer" in names or any(isinstance(b, str) and b.endswith("FixConstraint") for b in prog.mro(ci)):
        return None  # observers / ASE constraints: not in the property's scope
    if {"save_state", "revert_state"} <= mem and "step" not in mem:
        return "context"
    if "step" in mem and "irun" in mem:
        return "driver"
    if "evaluate" in mem:
        return "criteria"
    if "integrate" in mem:
        return "integrator"
    if "calculate" in mem:
        return "operation"
    if "__call__" in mem and "on_atoms_changed" in mem:
        return "move"
    if {"move", "criteria"} <= set(ci.class_annotations):
        return "storage"
    return "other"


def is_concrete(prog: Program, ci: ClassInfo, fam: str) -> bool:
    if fam in ("storage",):
        return True
    act = ACTIONS.get(fam)
    if act is None:
        return False
    fi = prog.lookup_method(ci, act)
    if fi is None:
        return False
    if fi.is_trivial():
        return False
    for d in fi.node.decorator_list:
        if (dotted(d) or "").endswith("abstractmethod"):
            return False
    return True


def subjects(prog: Program) -> dict[str, list[tuple[ClassInfo, bool]]]:
    out: dict[str, list] = {}
    for ci in sorted(prog.classes.values(), key=lambda c: c.qualname):
        fam = family_of(prog, ci)
        if fam is None or fam == "other":
            continue
        out.setdefault(fam, []).append((ci, is_concrete(prog, ci, fam)))
    return out


def _is_callable_ann(ann) -> bool:
    return any(m.startswith("Callable") or m.startswith("collections.abc.Callable") for m in ann_members(ann))


def tunables(prog: Program, ci: ClassInfo) -> dict[str, tuple[FuncInfo, ast.stmt, ast.expr]]:
    """Public attributes assigned in an ``__init__`` along the MRO from a constructor
    parameter or a numeric/bool/str literal, and never re-assigned outside ``__init__``s
    and property setters: configuration, as opposed to working state."""
    cand: dict[str, tuple] = {}
    reassigned: set[str] = set()
    for c in prog.mro_classes(ci):
        for f in list(c.methods.values()) + list(c.setters.values()):
            for n in walk_no_nested(f.node):
                tgts, val = [], None
                if isinstance(n, ast.Assign):
                    tgts, val = n.targets, n.value
                elif isinstance(n, ast.AnnAssign):
                    tgts, val = [n.target], n.value
                elif isinstance(n, ast.AugAssign):
                    tgts, val = [n.target], None
                for t in tgts:
                    if not (isinstance(t, ast.Attribute) and isinstance(t.value, ast.Name) and t.value.id == "self"):
                        continue
                    a = t.attr
                    if f.name == "__init__":
                        if val is None or a.startswith("_"):
                            continue
                        params = set(f.params()[1:]) | {x.arg for x in f.node.args.kwonlyargs}
                        names = {x.id for x in ast.walk(val) if isinstance(x, ast.Name)}
                        lit = isinstance(val, ast.Constant) and isinstance(val.value, (int, float, str, bool)) and val.value is not None
                        from_param = bool(names & params) and not any(isinstance(x, ast.Call) and not _benign_call(x) for x in ast.walk(val))
                        if (lit or from_param) and a not in cand:
                            ann = n.annotation if isinstance(n, ast.AnnAssign) else None
                            cand[a] = (f, n, val, ann)
                    elif f.kind != "setter":
                        reassigned.add(a)
    anns = self_attr_annotations(prog, ci)
    out = {}
    for a, (f, n, val, ann) in cand.items():
        if a in reassigned:
            continue
        if _is_callable_ann(ann or anns.get(a)):
            continue
        out[a] = (f, n, val)
    return out


def _benign_call(c: ast.Call) -> bool:
    d = dotted(c.func) or ""
    return d in ("np.zeros", "np.ones", "np.eye", "np.asarray", "np.array", "float", "int", "bool", "len")


def _lossless_default_guard(prog: Program, ci: ClassInfo, tst) -> bool:
    """`if self.A != K: d["A"] = self.A` loses nothing for class `ci` only if ci's own constructor chain leaves A at K
    when the caller says nothing: the most derived __init__ that assigns self.A assigns the constant K (or a parameter
    whose default is K), after any super().__init__ call."""
    if not (isinstance(tst, tuple) and len(tst) == 4):
        return False
    _tag, test, pol, fi = tst
    if not (isinstance(test, ast.Compare) and len(test.ops) == 1 and len(test.comparators) == 1):
        return False
    op = test.ops[0]
    if not ((isinstance(op, ast.NotEq) and pol) or (isinstance(op, ast.Eq) and not pol)):
        return False
    a, b = test.left, test.comparators[0]
    if not (isinstance(a, ast.Attribute) and norm(a.value) == "self"):
        a, b = b, a
    if not (isinstance(a, ast.Attribute) and norm(a.value) == "self"):
        return False

    def const_of(e, module):
        if isinstance(e, ast.Constant):
            return ("c", e.value)
        if isinstance(e, ast.Name) and e.id in module.assigns and isinstance(module.assigns[e.id], ast.Constant):
            return ("c", module.assigns[e.id].value)
        return None

    k = const_of(b, fi.module)
    if k is None:
        return False
    for c in prog.mro_classes(ci):
        init = c.methods.get("__init__")
        if init is None:
            continue
        asg = [st for st in init.body() if isinstance(st, (ast.Assign, ast.AnnAssign)) and st.value is not None
               and any(norm(t) == f"self.{a.attr}" for t in (st.targets if isinstance(st, ast.Assign) else [st.target]))]
        nested = [st for st in walk_no_nested(init.node) if isinstance(st, (ast.Assign, ast.AnnAssign, ast.AugAssign))
                  and any(norm(t) == f"self.{a.attr}" for t in (st.targets if isinstance(st, ast.Assign) else [st.target]))]
        if not nested:
            continue
        if len(asg) != 1 or len(nested) != 1:
            return False
        sup = [i for i, st in enumerate(init.body()) if any(isinstance(x, ast.Call) and isinstance(x.func, ast.Attribute) and x.func.attr == "__init__" for x in ast.walk(st))]
        if sup and init.body().index(asg[0]) < max(sup):
            return False
        v = asg[0].value
        got = const_of(v, init.module)
        if got is None and isinstance(v, ast.Name):
            from ..dataflow import NO_DEFAULT, param_default

            d = param_default(init.node, v.id)
            got = const_of(d, init.module) if d is not NO_DEFAULT and d is not None else None
        return got == k
    return False


def run(prog: Program, L: Ledger) -> None:
    L.explanation = (
        "C08 decided as table agreement over the parsed package: subjects are discovered (every class whose MRO "
        "provides to_dict, grouped by the protocol action it implements; concrete = action body is real code). For each, "
        "the to_dict chain is abstractly interpreted into an emitted schema (name/kwargs/attributes with the expression "
        "behind each key, following super() and dict aliasing), the constructor chain is resolved through **kwargs "
        "forwarding, from_dict reading sites give the demanded lookup bases, *_registry tables give the registered "
        "names, and an import-order simulation executes module-level imports for every public module as first import. "
        "Rules S1–S6 compare these tables. Not decided: value equality after a real JSON round trip (ASE's encoder is "
        "trusted for ndarray/Atoms), callables, user-registered classes."
    )
    L.rule("S1", "every concrete serializable class is registered under its own class name, in a module that importing its own sub-package and importing quansino.mc both execute")
    L.rule("S2", "for each nested slot, some get_typed_class(name, Base) at the reading site structurally admits every class the writing site can put there")
    L.rule("S3", "emitted kwargs keys ⊆ parameters accepted by the class's constructor chain; a from_dict exists")
    L.rule("S4", "every constructor parameter and tunable attribute (callables excepted) is emitted under kwargs/attributes or, for driver settings, in the context dictionary replayed by from_dict")
    L.rule("S5", "emitted expression for key k composed with the constructor's treatment of k is the identity")
    L.rule("S6", "import-time simulation completes for every public module taken as the first import of a fresh interpreter")
    L.assume("ASE's JSON encoder/decoder round-trips ndarray, Atoms and Cell values exactly")

    subj = subjects(prog)
    n_subjects = sum(len(v) for v in subj.values())
    L.floor("classes with a to_dict in their MRO (moves, operations, integrators, criteria, drivers, contexts, storage)", n_subjects, 30)
    regs = registrations(prog)
    L.floor("registry entries", len(regs), 30)
    reg_by_name: dict[str, list] = {}
    for r in regs:
        reg_by_name.setdefault(r.name, []).append(r)

    # ---------------------------------------------------------- S6 import order
    sim = ImportSim(prog)
    executed_by: dict[str, list[str]] = {}
    n_first = 0
    for mname in sorted(prog.modules):
        st, fail = sim.simulate(mname)
        n_first += 1
        if fail is None:
            executed_by[mname] = st.executed
            L.ok("S6", f"import {mname}", prog.modules[mname].relpath)
        else:
            imod = prog.modules[fail.importer]
            L.violation(
                "S6", f"first-import:{mname}", f"{imod.relpath}:{fail.lineno}",
                f"`import {mname}` as the first import of a fresh interpreter fails in {fail.importer}: {fail.reason}",
                f"python -c 'import {mname}'  (import stack: {' -> '.join(fail.stack)}; statement `{fail.stmt}`)",
                fail.stmt,
            )
    L.floor("public modules simulated as first import", n_first, 35)
    if L.tier == "thorough":
        # all ordered pairs: second import after a successful first one
        npairs = 0
        for a in sorted(executed_by):
            st0, _ = sim.simulate(a)
            for b in sorted(prog.modules):
                if b in st0.done:
                    continue
                st = State(loading=[], done=set(st0.done), bound={k: set(v) for k, v in st0.bound.items()}, executed=list(st0.executed))
                _, fail = sim.simulate(b, st)
                npairs += 1
                if fail is not None and b in executed_by:
                    imod = prog.modules[fail.importer]
                    L.violation("S6", f"import-pair:{a},{b}", f"{imod.relpath}:{fail.lineno}", f"`import {a}; import {b}` fails: {fail.reason}", fail.stmt, fail.stmt)
        L.extra["import_pairs_simulated"] = npairs
        L.ok("S6", "ordered-pairs", "src/quansino", f"{npairs} ordered pairs of public modules simulated")

    # ---------------------------------------------------------------- per subject
    protos = {}
    pm = prog.modules.get(f"{prog.package}.protocols")
    if pm is None:
        raise AnalysisError("quansino.protocols not found")
    for name in ("Move", "Criteria", "Operation", "Integrator", "Serializable"):
        if name not in pm.classes:
            raise AnalysisError(f"protocol {name} not found in quansino.protocols")
        protos[name] = protocol_members(prog, pm.classes[name])

    concrete_by_family: dict[str, list[ClassInfo]] = {f: [c for c, k in lst if k] for f, lst in subj.items()}

    for fam, lst in sorted(subj.items()):
        for ci, concrete in lst:
            if fam == "context":
                continue
            schema = emitted_schema(prog, ci)
            if schema is None:
                continue
            # ---- S1
            if concrete:
                rs = reg_by_name.get(ci.name, [])
                if not rs:
                    L.violation("S1", ci.name, ci.where, f"concrete {fam} `{ci.name}` is not in any registry: its dictionary (name={ci.name!r}) cannot be rebuilt by name",
                                f"get_class({ci.name!r}) raises KeyError after importing any quansino module", f"class {ci.name}")
                else:
                    good = [r for r in rs if r.resolved == ci]
                    if not good:
                        L.violation("S1", ci.name, f"{rs[0].module.relpath}:{rs[0].lineno}", f"name {ci.name!r} is registered to `{norm(rs[0].cls_expr)}`, not to the class of that name",
                                    f"{ci.name}.from_dict(x.to_dict()) rebuilds a different type", f"{ci.name!r}: {norm(rs[0].cls_expr)}")
                    else:
                        top = ".".join(ci.module.name.split(".")[:2])
                        need = [top, f"{prog.package}.mc"]
                        miss = []
                        for first in need:
                            if first in executed_by and not any(r.module.name in executed_by[first] for r in good):
                                miss.append(first)
                        L.check(not miss, "S1", ci.name, f"{good[0].module.relpath}:{good[0].lineno}",
                                f"registration of {ci.name} lives in {good[0].module.name}, which `import {', '.join(miss)}` does not execute",
                                f"fresh interpreter: import {miss[0] if miss else ''}; get_class({ci.name!r}) -> KeyError", ci.name)
                # the emitted name is the class's own name
                nm = schema.items.get("name")
                okname = isinstance(nm, EV) and norm(nm.expr) in ("self.__class__.__name__", "type(self).__name__", repr(ci.name))
                L.check(okname, "S1", f"{ci.name}:name-key", ci.where,
                        f"to_dict emits name=`{nm!r}` rather than the class's own name", "rebuild by name yields another class", "name")
            # ---- S3 / S4 / S5 only for concrete subjects
            if not concrete:
                continue
            ct = ctor_info(prog, ci)
            kw = schema.items.get("kwargs")
            kw_keys = set(kw.items) if isinstance(kw, DV) else set()
            at = schema.items.get("attributes")
            at_keys = set(at.items) if isinstance(at, DV) else set()
            fd = prog.lookup_method(ci, "from_dict")
            if fd is None:
                L.violation("S3", f"{ci.name}:from_dict", ci.where, f"{ci.name} has to_dict but no from_dict along its MRO", "cannot be rebuilt", "from_dict")
            else:
                L.ok("S3", f"{ci.name}:from_dict", fd.where)
            if not ct.accepts_any:
                extra = sorted(kw_keys - set(ct.params))
                where = schema.origin.get("kwargs").where if schema.origin.get("kwargs") else ci.where
                for k in extra:
                    org = kw.origin.get(k)
                    L.violation("S3", f"{ci.name}.kwargs[{k}]", org.where if org else where,
                                f"to_dict emits kwargs key {k!r} that {ci.name}.__init__ does not accept",
                                f"{ci.name}.from_dict(obj.to_dict()) -> TypeError: unexpected keyword argument {k!r}", k)
                if not extra:
                    L.ok("S3", f"{ci.name}.kwargs", where)
            # a value written only under a condition (e.g. "only if it differs from the default") is not there for the
            # reader in the other case: the rebuilt object keeps whatever *its* class's constructor sets, and the two
            # serialisations differ
            def cond_keys(dv, path=""):
                for k in sorted(dv.conditional):
                    yield path + k, dv.origin.get(k), dv.cond_tests.get(k)
                for k, v in dv.items.items():
                    if isinstance(v, DV):
                        yield from cond_keys(v, path + k + ".")

            ck = [(kp, org) for kp, org, tst in cond_keys(schema) if not _lossless_default_guard(prog, ci, tst)]
            for kpath, org in ck:
                L.violation("S4", f"{ci.name}.{kpath}:conditional", org.where if org else ci.where,
                            f"to_dict writes `{kpath}` only under a condition: when the condition is false the reader never sees the value and the rebuilt {ci.name} keeps its own constructor's default",
                            f"a {ci.name} whose `{kpath.split('.')[-1]}` makes the condition false (e.g. equals another class's default) is rebuilt with a different value; serialising again gives a different dictionary", kpath)
            if not ck:
                L.ok("S4", f"{ci.name}:unconditional-emission", ci.where)
            # required parameters must be emitted
            ctx_keys: set[str] = set()
            if fam == "driver":
                ctxc = prog.classvar_class(ci, "default_context")
                if ctxc is not None:
                    cs = emitted_schema(prog, ctxc)
                    ctx_keys = set(cs.items) if cs else set()
            for pname, p in ct.params.items():
                if _is_callable_ann(p.annotation):
                    continue
                if fam == "driver" and pname in DRIVER_PARAM_EXEMPT:
                    if pname == "atoms":
                        L.check("atoms" in schema.items, "S4", f"{ci.name}.atoms", ci.where, "driver dictionary lacks the 'atoms' entry", "from_dict indexes data['atoms']", "atoms")
                    continue
                emitted = pname in kw_keys or pname in at_keys
                via_ctx = False
                if not emitted and fam == "driver":
                    # property-backed setting stored in the context?
                    getter = prog.lookup_method(ci, pname)
                    if getter is not None and getter.kind == "property":
                        slot = _context_slot(getter)
                        if slot and slot in ctx_keys:
                            via_ctx = True
                if emitted or via_ctx:
                    L.ok("S4", f"{ci.name}.{pname}", ci.where, "context dict" if via_ctx else "")
                else:
                    req = "required " if not p.has_default else ""
                    owner = p.owner.where if p.owner else ci.where
                    L.violation("S4", f"{ci.name}.{pname}", owner,
                                f"{req}constructor parameter `{pname}` of {ci.name} is not emitted by its to_dict chain"
                                + (" nor carried by the context dictionary" if fam == "driver" else ""),
                                (f"{ci.name}.from_dict(obj.to_dict()) -> TypeError: missing argument {pname!r}" if not p.has_default
                                 else f"an object built with a non-default `{pname}` is rebuilt with the default"), pname)
            for a, (f, n, val) in sorted(tunables(prog, ci).items()):
                if a in ct.params:
                    continue  # handled as parameter
                names = {x.id for x in ast.walk(val) if isinstance(x, ast.Name)}
                if names & set(ct.params):
                    continue  # derived from a parameter that is itself checked
                fparams = set(f.params()[1:]) | {x.arg for x in f.node.args.kwonlyargs}
                if names & fparams:
                    continue  # fed by a base-class parameter that this class's constructor pins (not configurable here)
                emitted = a in kw_keys or a in at_keys
                L.check(emitted, "S4", f"{ci.name}.{a}", f.where,
                        f"tunable attribute `{a}` (set in {f.qualname} from a literal, never re-assigned as working state) is not emitted by {ci.name}.to_dict",
                        f"set obj.{a} to a non-default value; from_dict(obj.to_dict()).{a} is the default again", a)
            # ---- S5
            _check_s5(prog, L, ci, ct, kw)

    # ---------------------------------------------------------------- S2
    _check_s2(prog, L, subj, concrete_by_family, protos)

    # ------------------------------------------------ drivers' context settings
    _check_context_settings(prog, L, subj)
    _check_driver_from_dict_copies(prog, L, subj)
    _check_from_dict_values_untouched(prog, L)


def _context_slot(getter: FuncInfo) -> str | None:
    for st in getter.body():
        if isinstance(st, ast.Return) and isinstance(st.value, ast.Attribute):
            v = st.value
            if norm(v.value) == "self.context":
                return v.attr
    return None


def _check_s5(prog: Program, L: Ledger, ci: ClassInfo, ct, kw) -> None:
    """Arithmetic identity between constructor treatment and emitted expression."""
    if not isinstance(kw, DV):
        return
    try:
        from ..sym import sympy_identity_param
    except Exception:  # sym layer unavailable
        return
    for k, v in kw.items.items():
        if not isinstance(v, EV) or k not in ct.params:
            continue
        # constructor treatment: self.<attr> = expr(k) in the owner __init__
        owner = ct.params[k].owner
        if owner is None:
            continue
        stores = {}
        for n in walk_no_nested(owner.node):
            if isinstance(n, (ast.Assign, ast.AnnAssign)) and n.value is not None:
                tgts = n.targets if isinstance(n, ast.Assign) else [n.target]
                for t in tgts:
                    if isinstance(t, ast.Attribute) and isinstance(t.value, ast.Name) and t.value.id == "self":
                        stores[t.attr] = n.value
        _check_live_copy(prog, L, ci, k, v, owner, stores)
        verdict = sympy_identity_param(prog, owner, k, stores, v)
        if verdict is None:
            continue
        okv, detail = verdict
        L.check(okv, "S5", f"{ci.name}.kwargs[{k}]", v.func.where,
                f"emitted `{norm(v.expr)}` does not invert the constructor's treatment of `{k}`: {detail}",
                f"from_dict(to_dict()) changes `{k}`: {detail}", k)


def _check_live_copy(prog: Program, L: Ledger, ci: ClassInfo, k: str, v, owner, stores: dict) -> None:
    """When the constructor keeps several attributes derived from one parameter (`self.time_step = dt; self.dt =
    self.time_step * fs`), to_dict must emit from the one the object's behaviour reads: the other is a construction-time
    copy that stays behind when the live attribute is retuned on the object."""
    derived: set[str] = set()
    grew = True
    while grew:
        grew = False
        for attr, val in stores.items():
            if attr in derived:
                continue
            names = {n.id for n in ast.walk(val) if isinstance(n, ast.Name)}
            attrs = {n.attr for n in ast.walk(val) if isinstance(n, ast.Attribute) and isinstance(n.value, ast.Name) and n.value.id == "self"}
            if k in names or attrs & derived:
                derived.add(attr)
                grew = True
    if len(derived) < 2:
        return
    emitted = {n.attr for n in ast.walk(v.expr) if isinstance(n, ast.Attribute) and isinstance(n.value, ast.Name) and n.value.id == "self"} & derived
    live: set[str] = set()
    for c in prog.mro_classes(ci):
        for m in list(c.methods.values()) + list(c.setters.values()):
            if m.name in ("__init__", "to_dict", "todict", "from_dict", "__repr__", "__str__"):
                continue
            for n in ast.walk(m.node):
                if isinstance(n, ast.Attribute) and isinstance(n.value, ast.Name) and n.value.id == "self" and n.attr in derived and isinstance(n.ctx, ast.Load):
                    live.add(n.attr)
    others = {a for a in (derived - emitted) & live if not a.startswith("_")}  # public: a user can retune it
    if emitted and not (emitted & live) and others:
        L.violation("S5", f"{ci.name}.kwargs[{k}]:live-copy", v.func.where,
                    f"to_dict emits `{norm(v.expr)}` for `{k}`, a copy kept by the constructor; the object's methods read `self.{sorted(others)[0]}` instead, which can be retuned on the live object",
                    f"set `{sorted(others)[0]}` on a built {ci.name} (as one tunes any public attribute), serialise, rebuild: the rebuilt object runs with the construction-time `{k}`", k)
    else:
        L.ok("S5", f"{ci.name}.kwargs[{k}]:live-copy", v.func.where)


def _check_s2(prog: Program, L: Ledger, subj, concrete_by_family, protos) -> None:
    pm = prog.modules[f"{prog.package}.protocols"]
    fam_of_proto = {"Move": "move", "Criteria": "criteria", "Operation": "operation", "Integrator": "integrator"}
    n_sites = 0
    # group reading sites by (function, slot)
    for fam, lst in sorted(subj.items()):
        for ci, concrete in lst:
            fd = prog.lookup_method(ci, "from_dict")
            if fd is None or fd.cls != ci and fd.cls not in prog.mro_classes(ci):
                continue
            if fd.cls != ci:
                continue  # analysed at the defining class; inheritors handled below via writer sets
            sites = lookup_sites(prog, fd)
            by_slot: dict[str, list] = {}
            for s in sites:
                by_slot.setdefault(s.slot or s.key_text, []).append(s)
            for slot, ss in by_slot.items():
                n_sites += 1
                accepted_bases = [s.base for s in ss]
                # writers: which classes can sit in that slot for the classes using this from_dict
                users = [c for c, k in lst if k and prog.lookup_method(c, "from_dict") is fd]
                if fam == "driver":
                    users = [c for c, k in lst if prog.lookup_method(c, "from_dict") is fd]
                for user in users:
                    for wcls, why in _slot_writers(prog, user, slot, concrete_by_family, fam):
                        ok = False
                        for b in accepted_bases:
                            if isinstance(b, ClassInfo):
                                if b.module is pm and b.name in protos:
                                    if protos[b.name] <= class_members(prog, wcls):
                                        ok = True
                                elif prog.is_subclass(wcls, b):
                                    ok = True
                        bases_txt = " | ".join(b.name if isinstance(b, ClassInfo) else str(b) for b in accepted_bases)
                        missing = ""
                        if not ok and accepted_bases and isinstance(accepted_bases[0], ClassInfo) and accepted_bases[0].name in protos:
                            missing = ", ".join(sorted(protos[accepted_bases[0].name] - class_members(prog, wcls)))
                        L.check(ok, "S2", f"{user.name}.{slot}<-{wcls.name}", f"{fd.module.relpath}:{ss[0].call.lineno}",
                                f"{fd.qualname} looks the `{slot}` entry up with get_typed_class(..., {bases_txt}) but {user.name} can hold a {wcls.name} there ({why}); "
                                f"{wcls.name} lacks {missing or 'the demanded base'}",
                                f"{user.name}.from_dict({user.name}(...).to_dict()) -> TypeError: Class `{wcls.name}` is not a {bases_txt} subclass", slot)
    L.floor("get_typed_class reading sites (function × slot)", n_sites, 5)


def _slot_writers(prog: Program, user: ClassInfo, slot: str, concrete_by_family, fam: str = "") -> list[tuple[ClassInfo, str]]:
    """Classes that the writing side can put into ``slot`` of ``user``."""
    out: list[tuple[ClassInfo, str]] = []
    if fam == "driver" and slot == "moves":
        for c in concrete_by_family.get("storage", []):
            out.append((c, "move table entry"))
    elif slot == "operation":
        # the move's default operation (resolved constructor call) is what the shipped move holds
        dop = prog.lookup_method(user, "default_operation")
        if dop is not None:
            for st in dop.body():
                if isinstance(st, ast.Return) and isinstance(st.value, ast.Call):
                    r = prog.resolve_class(dop.module, st.value.func)
                    if isinstance(r, ClassInfo):
                        out.append((r, f"{dop.qualname} returns {r.name}(...)"))
        # and any concrete operation/integrator admitted by the declared TypeVar bound of the slot
        bound = _operation_bound(prog, user)
        for fam in bound:
            for c in concrete_by_family.get(fam, []):
                if all(c != o for o, _ in out):
                    out.append((c, f"declared {fam} slot"))
    elif slot in ("moves", "move"):
        for c in concrete_by_family.get("move", []):
            out.append((c, "shipped move"))
    elif slot == "criteria":
        for c in concrete_by_family.get("criteria", []):
            out.append((c, "shipped criteria"))
    elif slot == "operations":
        for c in concrete_by_family.get("operation", []):
            out.append((c, "shipped operation"))
    elif slot in ("moves_storage",) or slot.startswith("move_storage"):
        for c in concrete_by_family.get("storage", []):
            out.append((c, "move table entry"))
    return out


def _operation_bound(prog: Program, user: ClassInfo) -> list[str]:
    """Which protocol families the `operation` slot of a move class is declared to hold,
    from the annotation of the `operation` constructor parameter (TypeVar bound)."""
    init = prog.lookup_method(user, "__init__")
    if init is None:
        return []
    ann = None
    for x in init.node.args.args + init.node.args.kwonlyargs:
        if x.arg == "operation":
            ann = x.annotation
    fams = []
    for m in ann_members(ann):
        tv = init.module.assigns.get(m)
        if isinstance(tv, ast.Call) and (dotted(tv.func) or "").endswith("TypeVar"):
            for kwd in tv.keywords:
                if kwd.arg == "bound":
                    txt = kwd.value.value if isinstance(kwd.value, ast.Constant) else norm(kwd.value)
                    if "Integrator" in str(txt):
                        fams.append("integrator")
                    if "Operation" in str(txt):
                        fams.append("operation")
    return fams


def _check_context_settings(prog: Program, L: Ledger, subj) -> None:
    """Driver settings (property pairs forwarding to the context) survive: the slot the
    property reads is emitted by the context's to_dict chain and is a slot of that class."""
    for ci, concrete in subj.get("driver", []):
        ctxc = prog.classvar_class(ci, "default_context")
        if ctxc is None:
            continue
        cs = emitted_schema(prog, ctxc)
        if cs is None:
            continue
        slots = set()
        for c in prog.mro_classes(ctxc):
            slots |= set(c.slots() or [])
        for k in cs.items:
            L.check(k in slots or not slots, "S3", f"{ctxc.name}.to_dict[{k}]", ctxc.where,
                    f"context dictionary key {k!r} is not a slot of {ctxc.name}: the setattr loop in from_dict raises AttributeError",
                    f"{ci.name}.from_dict(...) -> AttributeError", k)
        for c in prog.mro_classes(ci):
            for pname, getter in c.methods.items():
                if getter.kind != "property":
                    continue
                if prog.lookup_method(ci, pname) is not getter:
                    continue
                slot = _context_slot(getter)
                if slot is None:
                    continue
                kwd = emitted_schema(prog, ci)
                in_kwargs = isinstance(kwd.items.get("kwargs"), DV) and pname in kwd.items["kwargs"].items
                L.check(slot in cs.items or in_kwargs, "S4", f"{ci.name}.{pname}", getter.where,
                        f"simulation setting `{pname}` lives in context slot `{slot}`, which {ctxc.name}.to_dict does not emit (and it is not a kwargs entry)",
                        f"set sim.{pname} to a non-default value; {ci.name}.from_dict(sim.to_dict()).{pname} is the default again", pname)
                # … and what is written under that key is the slot itself, not a quantity computed from other state
                val = cs.items.get(slot)
                if isinstance(val, EV):
                    roots = {n_.attr for n_ in ast.walk(val.expr) if isinstance(n_, ast.Attribute) and isinstance(n_.value, ast.Name) and n_.value.id == "self"}
                    L.check(bool(roots) and roots <= {slot, "_" + slot, slot.lstrip("_")}, "S5", f"{ci.name}.{pname}:context-value", f"{val.func.module.relpath}:{val.expr.lineno}",
                            f"simulation setting `{pname}` (context slot `{slot}`) is serialised as `{norm(val.expr)[:80]}`, which does not read that slot",
                            f"set sim.{pname} to a value different from `{norm(val.expr)[:60]}`; the rebuilt simulation has the latter", norm(val.expr)[:100])


def _check_driver_from_dict_copies(prog: Program, L: Ledger, subj) -> None:
    """S7: a simulation rebuilt from a dictionary owns its state.  The driver's from_dict installs objects taken from the
    dictionary directly on the live simulation (the Atoms object, context arrays, the generator state): it must work on a
    deep copy of its argument — otherwise the rebuilt simulation and the dictionary (and a second simulation rebuilt from
    the same dictionary) share one Atoms object, and serialising again no longer gives the dictionary it was built from."""
    from ..normalize import flat

    L.rule("S7", "the drivers' from_dict rebinds its argument to copy.deepcopy(argument) before reading it (or deep-copies every value it installs)")
    seen = set()
    n = 0
    for ci, _concrete in subj.get("driver", []):
        fd = prog.lookup_method(ci, "from_dict")
        if fd is None or fd.qualname in seen:
            continue
        seen.add(fd.qualname)
        params = [a.arg for a in fd.node.args.args]
        if len(params) < 2:
            continue
        dp = params[1]
        body = [st for st in flat(prog, fd, fd.cls).body() if not (isinstance(st, ast.Expr) and isinstance(st.value, ast.Constant))]
        n += 1
        ok = False
        first_read = None
        for st in body:
            reads = [x for x in ast.walk(st) if isinstance(x, ast.Name) and x.id == dp and isinstance(x.ctx, ast.Load)]
            if not reads:
                continue
            if isinstance(st, ast.Assign) and len(st.targets) == 1 and isinstance(st.targets[0], ast.Name) and st.targets[0].id == dp and isinstance(st.value, ast.Call) \
                    and norm(st.value.func) in ("deepcopy", "copy.deepcopy") and len(st.value.args) == 1 and norm(st.value.args[0]) == dp:
                ok = True
            else:
                first_read = st
            break
        if not ok and first_read is not None:
            # alternative: every read of the argument sits inside a deepcopy(...) call
            mod_ = ast.Module(body=body, type_ignores=[])
            covered = set()
            for c in ast.walk(mod_):
                if isinstance(c, ast.Call) and norm(c.func) in ("deepcopy", "copy.deepcopy"):
                    covered |= {id(x) for x in ast.walk(c)}
            ok = all(id(x) in covered for x in ast.walk(mod_) if isinstance(x, ast.Name) and x.id == dp and isinstance(x.ctx, ast.Load))
        L.check(ok, "S7", f"{fd.qualname}:owns-its-state", f"{fd.module.relpath}:{first_read.lineno if first_read is not None else fd.node.lineno}",
                f"{fd.qualname} reads its argument through `{norm(first_read)[:80] if first_read is not None else ''}` without a deep copy: the Atoms object and the context values of the rebuilt simulation ARE the objects inside the dictionary",
                f"data = read_json(f); a = Sim.from_dict(data); a.run(n); b = Sim.from_dict(data): b.atoms is a.atoms, b starts from a's evolved positions with the file's step counter; data['atoms'] itself has changed", dp)
    L.floor("driver from_dict implementations checked for ownership of their state", n, 1)


def _check_from_dict_values_untouched(prog: Program, L: Ledger) -> None:
    """S8: rebuilding hands the stored values to the constructor AS STORED.  Inside a from_dict the only entries of the
    keyword dictionary that may be replaced are nested component dictionaries, by the objects rebuilt from them
    (`X.from_dict(...)`, a list of such, or a local that holds one); an entry recomputed from itself (`max(v, 1)`, a clamp, a
    cast, a default substituted for a falsy value) makes the rebuilt object differ from the serialised one for the values the
    recomputation changes."""
    from ..normalize import flat

    L.rule("S8", "from_dict passes stored keyword values on unchanged: an entry of the keyword dictionary is only ever replaced by the component rebuilt from it")
    seen = set()
    n = 0
    for ci in prog.classes.values():
        fd = ci.methods.get("from_dict")
        if fd is None or fd.qualname in seen:
            continue
        seen.add(fd.qualname)
        f = flat(prog, fd, ci)
        params = [a.arg for a in fd.node.args.args]
        if len(params) < 2:
            continue
        dp = params[1]
        # dictionaries derived from the argument
        derived = {dp}
        for _r in range(4):
            for st in walk_no_nested(f.node):
                if isinstance(st, (ast.Assign, ast.AnnAssign)) and st.value is not None:
                    for t in (st.targets if isinstance(st, ast.Assign) else [st.target]):
                        if isinstance(t, ast.Name) and any(isinstance(x, ast.Name) and x.id in derived for x in ast.walk(st.value)) \
                                and not any(isinstance(c, ast.Call) and isinstance(c.func, ast.Attribute) and c.func.attr == "from_dict" for c in ast.walk(st.value)):
                            v = st.value
                            is_dictish = isinstance(v, ast.Subscript) or (isinstance(v, ast.Call) and (norm(v.func) in ("deepcopy", "copy.deepcopy", "dict", "copy", "copy.copy") or (isinstance(v.func, ast.Attribute) and v.func.attr in ("get", "copy", "pop")))) \
                                or isinstance(v, ast.Name) or (isinstance(v, ast.BinOp) and isinstance(v.op, ast.BitOr))
                            if is_dictish:
                                derived.add(t.id)
        def _rebuilds(v) -> bool:
            """does the expression contain a call that rebuilds a component: `X.from_dict(…)`, or a package helper whose body does"""
            from ..normalize import resolve_callee

            for c in ast.walk(v):
                if isinstance(c, ast.Call):
                    if isinstance(c.func, ast.Attribute) and c.func.attr == "from_dict":
                        return True
                    r_ = resolve_callee(prog, fd, c, ci)
                    if r_ is not None and any(isinstance(c2, ast.Call) and isinstance(c2.func, ast.Attribute) and c2.func.attr == "from_dict" for c2 in ast.walk(r_[0].node)):
                        return True
            return False

        rebuilt_locals = {t.id for st in walk_no_nested(f.node) if isinstance(st, (ast.Assign, ast.AnnAssign)) and st.value is not None
                          for t in (st.targets if isinstance(st, ast.Assign) else [st.target]) if isinstance(t, ast.Name)
                          and any(isinstance(c, ast.Call) and isinstance(c.func, ast.Attribute) and c.func.attr == "from_dict" for c in ast.walk(st.value))}
        # lists that collect rebuilt components
        for st in walk_no_nested(f.node):
            if isinstance(st, ast.Expr) and isinstance(st.value, ast.Call) and isinstance(st.value.func, ast.Attribute) and st.value.func.attr == "append" and isinstance(st.value.func.value, ast.Name) \
                    and st.value.args and (any(isinstance(c, ast.Call) and isinstance(c.func, ast.Attribute) and c.func.attr == "from_dict" for c in ast.walk(st.value.args[0]))
                                           or (isinstance(st.value.args[0], ast.Name) and st.value.args[0].id in rebuilt_locals)):
                rebuilt_locals.add(st.value.func.value.id)
        for st in walk_no_nested(f.node):
            if not isinstance(st, (ast.Assign, ast.AugAssign)):
                continue
            for t in (st.targets if isinstance(st, ast.Assign) else [st.target]):
                if isinstance(t, ast.Subscript) and isinstance(t.value, ast.Name) and t.value.id in derived and isinstance(t.slice, ast.Constant):
                    n += 1
                    v = st.value
                    ok = isinstance(st, ast.Assign) and (_rebuilds(v) or (isinstance(v, ast.Name) and v.id in rebuilt_locals))
                    L.check(ok, "S8", f"{fd.qualname}:kwargs[{t.slice.value!r}]", f"{fd.module.relpath}:{st.lineno}",
                            f"`{norm(st)[:90]}` recomputes the stored entry {t.slice.value!r} before it reaches the constructor: the rebuilt object does not have the serialised value whenever the recomputation changes it",
                            f"serialise an object whose `{t.slice.value}` is changed by `{norm(v)[:50]}` (a boundary value: 0, a negative number, an empty container …), rebuild it: different value; serialising again gives a different dictionary", norm(st)[:100])
    L.floor("stores into the keyword dictionary inside from_dict implementations", n, 2)
