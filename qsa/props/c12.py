"""C12 — constraints on the atoms are respected (routing clause).

K1 every write of positions / momenta / cell on the simulation's atoms, on every abstract path of every
   driver × move-table scenario (abstract heap, qsa.absim), is either a *proposal* routed through ASE's
   constraint-aware API (set_positions / set_momenta / set_cell with apply_constraint defaulted or bound
   to a flag that is True by default) or an exact *restore* of a version the component had before; a
   package-wide scan additionally forbids raw in-place writes and literal apply_constraint=False on the
   live atoms outside restores
K2 Verlet with constraints: the second kick starts from the momentum of the constrained displacement and
   both writes are constraint-aware
K3 force bias: the displacement applied to the positions is the one read back after set_momenta (so
   adjust_momenta-type constraints such as FixCom act) and the position update is constraint-aware
"""

from __future__ import annotations

import ast

from .. import asetab
from ..absim import Opaque, Ref, V, simp
from ..loader import AnalysisError, Program, calls_in, norm, walk_no_nested
from ..report import Ledger
from ..scenarios import run_all, scenarios
from . import c14

COMP = {"P": "positions", "M": "momenta", "C": "cell"}


def check_trial(prog: Program, sc, rec) -> list[dict]:
    out = []
    scen = f"{rec.driver}×{rec.table}"
    path = " ; ".join(rec.path[-6:])
    history: dict[str, list] = {c: [simp(rec.before[c])] for c in COMP}
    for ev in rec.events:
        if ev.kind == "raw-write" and isinstance(ev.data, dict) and ev.data.get("obj") == "atoms" and ev.data.get("comp") in COMP:
            out.append({"status": "violation", "rule": "K1", "construct": f"{ev.func}:raw-{COMP[ev.data['comp']]}", "where": ev.where,
                        "detail": f"`{ev.detail}` in {ev.func} writes the live {COMP[ev.data['comp']]} array in place: no constraint can act on it",
                        "witness": f"scenario {scen}; path {path}: a FixAtoms-constrained atom moves", "stmt": ev.detail})
            continue
        if ev.kind != "write" or not isinstance(ev.data, dict) or ev.data.get("obj") != "atoms":
            continue
        comp = ev.data.get("comp")
        if comp not in COMP:
            continue
        new = ev.data.get("new")
        raw = ev.data.get("raw")
        ca = ev.data.get("constraint_aware")
        is_restore = new in history[comp]
        if is_restore:
            out.append({"status": "ok", "rule": "K1", "construct": f"{ev.func}:restore-{COMP[comp]}"})
        elif raw or ca is False:
            out.append({"status": "violation", "rule": "K1", "construct": f"{ev.func}:unconstrained-{COMP[comp]}", "where": ev.where,
                        "detail": f"`{ev.detail}` in {ev.func} writes new {COMP[comp]} without going through the constraint-aware API (raw={bool(raw)}, apply_constraint={ca!r}) and the value is not a restore of an earlier version",
                        "witness": f"scenario {scen}; path {path}: with FixAtoms/FixCom attached the constrained atoms (or the centre of mass) move", "stmt": ev.detail})
        elif ca is True or ca is None:
            out.append({"status": "ok", "rule": "K1", "construct": f"{ev.func}:proposal-{COMP[comp]}"})
        elif isinstance(ca, bool):
            out.append({"status": "ok", "rule": "K1", "construct": f"{ev.func}:proposal-{COMP[comp]}"})
        else:
            # bound to a flag: must be a tracked boolean that is True in the default configuration
            out.append({"status": "violation", "rule": "K1", "construct": f"{ev.func}:flag-{COMP[comp]}", "where": ev.where,
                        "detail": f"`{ev.detail}` in {ev.func}: apply_constraint is bound to {ca!r}, which is not True by default", "witness": f"scenario {scen}", "stmt": ev.detail})
        history[comp].append(new)
    return out


def run(prog: Program, L: Ledger) -> None:
    L.explanation = (
        "C12's routing clause decided on the abstract heap (qsa.absim): every write to positions, momenta or cell of the live atoms on every "
        "abstract path of every driver × move-table scenario is classified as a constraint-aware proposal (ASE set_* with apply_constraint "
        "defaulted or bound to a flag whose constructor default is True — the flag's value is tracked from the moves' __init__) or as an "
        "exact restore of a version the component held earlier; anything else is reported with the writing function. A package-wide scan "
        "covers code outside the scenarios (raw in-place writes, literal apply_constraint=False). Verlet's constrained branch and the "
        "force-bias momentum round trip are decided by value numbering. Not decided: the FixRot clause (zero angular momentum to rounding "
        "is a numerical identity involving an eigendecomposition) and that ASE's own constraints do what they promise (trusted; the "
        "setters' constraint handling is validated against the installed ASE source)."
    )
    L.rule("K1", "every positions/momenta/cell write on the live atoms is a constraint-aware proposal or an exact restore")
    L.rule("K2", "Verlet (constraints on): second kick from the constrained displacement; constraint-aware writes")
    L.rule("K3", "ForceBias.step: displacement read back after set_momenta; constraint-aware set_positions")
    for k, v in asetab.validate_atoms_setters().items():
        L.assume(f"ASE {k}: {v}")

    scs = scenarios(prog, with_composites=False, iterations=1)
    L.floor("driver × move scenarios", len(scs), 8)
    results = run_all(prog, "qsa.props.c12", scs)
    tot = 0
    for label, stats, findings, oks, err in results:
        if err:
            raise AnalysisError(f"scenario {label}: {err}")
        tot += stats["trials"]
        for rule, construct, n in oks:
            L.ok(rule, construct, "", f"{n} writes")
        for f in findings:
            L.violation(f["rule"], f["construct"], f["where"], f["detail"], f["witness"], f.get("stmt", ""))
    L.extra["trials_checked"] = tot
    L.floor("abstract trials checked", tot, 150)

    # ---- flags default to True
    for cname in ("BaseMove", "Verlet"):
        ci = prog.cls(cname)
        init = ci.methods.get("__init__")
        from ..dataflow import NO_DEFAULT, param_default

        d = param_default(init.node, "apply_constraints")
        L.check(d is not NO_DEFAULT and isinstance(d, ast.Constant) and d.value is True, "K1", f"{cname}.__init__:apply_constraints-default", init.where,
                f"apply_constraints of {cname} does not default to True", "constraints ignored unless the user opts in", "apply_constraints")

    # ---- package-wide scan
    live = ("atoms", "context.atoms", "self.atoms", "self.context.atoms")
    raw_writers = asetab.unconstrained_position_writers() - {"set_cell"}
    L.assume("ASE Atoms methods writing positions without adjust_positions (computed from the installed source): " + ", ".join(sorted(raw_writers)))
    n_scan = 0
    for fi in prog.iter_functions():
        for n in walk_no_nested(fi.node):
            tg = n.targets if isinstance(n, ast.Assign) else ([n.target] if isinstance(n, ast.AugAssign) else [])
            for t in tg:
                base = t.value if isinstance(t, ast.Subscript) else None
                if base is not None and norm(base) in [f"{a}.positions" for a in live] + [f"{a}.arrays['positions']" for a in live] + [f"{a}.arrays['momenta']" for a in live]:
                    n_scan += 1
                    sl = t.slice
                    whole = isinstance(sl, ast.Slice) and sl.lower is None and sl.upper is None and sl.step is None
                    rhs = norm(n.value) if isinstance(n, ast.Assign) else ""
                    if whole and isinstance(n, ast.Assign) and (rhs.startswith("old_") or ".last_" in rhs or rhs.startswith("self.last_")):
                        L.ok("K1", f"{fi.qualname}:restore-whole-array", f"{fi.module.relpath}:{n.lineno}")
                        continue
                    L.violation("K1", f"{fi.qualname}:raw-subscript", f"{fi.module.relpath}:{n.lineno}", f"`{norm(n)[:80]}` writes part of the live array in place", "constrained atoms move", norm(n)[:100])
                if isinstance(n, ast.AugAssign) and norm(t) in [f"{a}.positions" for a in live]:
                    n_scan += 1
                    L.violation("K1", f"{fi.qualname}:raw-augassign", f"{fi.module.relpath}:{n.lineno}", f"`{norm(n)[:80]}` updates the live positions in place", "constrained atoms move", norm(n)[:100])
        for c in calls_in(fi.node):
            if isinstance(c.func, ast.Attribute) and c.func.attr in ("set_positions", "set_momenta", "set_cell") and norm(c.func.value) in live:
                n_scan += 1
                for k in c.keywords:
                    if k.arg == "apply_constraint" and isinstance(k.value, ast.Constant) and k.value.value is False:
                        # allowed only for restores: the argument is a snapshot name / last_* slot
                        a0 = norm(c.args[0]) if c.args else ""
                        okr = a0.startswith("old_") or ".last_" in a0 or a0.startswith("self.last_")
                        L.check(okr, "K1", f"{fi.qualname}:apply_constraint=False", f"{fi.module.relpath}:{c.lineno}",
                                f"`{norm(c)[:90]}` switches constraints off for a value that is not a snapshot", "constrained atoms move", norm(c)[:100])
            if isinstance(c.func, ast.Attribute) and c.func.attr in raw_writers and norm(c.func.value) in live:
                n_scan += 1
                L.violation("K1", f"{fi.qualname}:unconstrained-{c.func.attr}", f"{fi.module.relpath}:{c.lineno}",
                            f"`{norm(c)[:90]}` moves the live atoms through ASE's {c.func.attr}(), which writes the positions array directly: no constraint's adjust_positions runs",
                            "fixed atoms move / FixCom's centre of mass drifts", norm(c)[:100])
    L.ok("K1", "package-scan", "src/quansino", f"{n_scan} writer sites scanned")

    # ---- K2
    c14.verlet_constrained(prog, L, "K2")

    # ---- K3
    from ..dataflow import Inliner
    from ..normalize import flat
    from ..sym import DIFFERENT, EQUAL, Translator, Unsupported, Vocabulary, same, sp

    fb = prog.cls("ForceBias")
    step0 = fb.methods.get("step")
    if step0 is None:
        raise AnalysisError("ForceBias.step missing")
    step = flat(prog, step0, fb, keep=("get_zeta", "calculate_trial_probability", "calculate_gamma"), public_methods=True)
    sbody = step.body()

    def top_index(node):
        for i, st in enumerate(sbody):
            if any(x is node for x in ast.walk(st)):
                return i
        return -1

    all_calls = [c for c in calls_in(step.node)]
    sm = [c for c in all_calls if norm(c.func) == "self.atoms.set_momenta"]
    spp = [c for c in all_calls if norm(c.func) == "self.atoms.set_positions"]
    # read-back of the momenta the constraints adjusted: get_momenta(), or get_velocities() (= momenta / the atoms' own masses)
    gm = [c for c in all_calls if norm(c.func) in ("self.atoms.get_momenta", "self.atoms.get_velocities")]
    seq = sorted([(top_index(c), "set_momenta") for c in sm] + [(top_index(c), "set_positions") for c in spp] + [(top_index(c), "read_back") for c in gm])
    names = [k for _i, k in seq]
    ok_order = len(sm) == 1 and len(spp) == 1 and len(gm) >= 1 and all(top_index(sm[0]) < top_index(g) <= top_index(spp[0]) for g in gm) and all(i >= 0 for i, _k in seq)
    L.check(ok_order, "K3", "ForceBias.step:order", step0.where,
            f"momentum round trip is `{names}`, expected set_momenta → get_momenta → set_positions at the top level of the step", "FixCom cannot remove the centre-of-mass drift from the displacement", ",".join(names))
    if ok_order:
        inl = Inliner(step.node)
        spc = spp[0]
        smc = sm[0]
        from ..dataflow import seq_inline

        # locals bound more than once (`positions = get_positions(); positions = positions + d`, the rebinding form of an
        # in-place `+=` on a private copy) are followed in program order
        arg = inl.inline(seq_inline(sbody, spc.args[0], stop_at=spc)) if spc.args else None
        vocab = Vocabulary({"self.atoms.get_momenta()": ("Pback", {"real": True}), "self.atoms.get_velocities()": ("Vback", {"real": True}), "self.shaped_masses": ("msh", {"positive": True}),
                            "self.atoms.get_positions()": ("X0", {"real": True}), "self.atoms.positions.copy()": ("X0", {"real": True})})
        tr = Translator(vocab)
        try:
            got = tr.tr(arg)
        except Unsupported as exc:
            raise AnalysisError(f"ForceBias.step: position update `{norm(arg)[:80]}`: {exc}") from exc
        want = vocab.sym("X0", real=True) + vocab.sym("Pback", real=True) / vocab.sym("msh", positive=True)
        verdict, wit = same(sp.sympify(got), want)
        if verdict == DIFFERENT:
            # the velocities read back after the constraints acted are an equally constraint-filtered displacement (zero for
            # fixed atoms; the constrained set_positions that follows takes care of the rest) — how the displacement is
            # scaled by masses is C13's subject, not this property's
            v2, _w2 = same(sp.sympify(got), vocab.sym("X0", real=True) + vocab.sym("Vback", real=True))
            if v2 == EQUAL:
                verdict = EQUAL
        a0 = norm(arg)
        if verdict == EQUAL:
            L.ok("K3", "ForceBias.step:applied", f"{step0.module.relpath}:{spc.lineno}")
            L.ok("K3", "ForceBias.step:read-back", f"{step0.module.relpath}:{spc.lineno}")
        elif verdict == DIFFERENT:
            L.violation("K3", "ForceBias.step:applied", f"{step0.module.relpath}:{spc.lineno}",
                        f"positions become `{a0[:100]}`, not (positions before the step) + get_momenta()/masses read back after the constraints adjusted the momenta ({wit})", "with FixCom the centre of mass drifts", a0[:120])
        else:
            raise AnalysisError(f"ForceBias.step: position update `{a0[:80]}` undecided: {wit}")
        # the saved positions are those of the live atoms before anything was written
        pos_defs = [st for st in walk_no_nested(step.node) if isinstance(st, ast.Assign) and any(isinstance(t, ast.Name) and t.id in {n.id for n in ast.walk(spc.args[0]) if isinstance(n, ast.Name)} for t in st.targets)
                    and norm(st.value) in ("self.atoms.get_positions()", "self.atoms.positions.copy()")]
        if pos_defs:
            L.check(all(top_index(d) < top_index(smc) for d in pos_defs), "K3", "ForceBias.step:base-positions", step0.where, "the base positions are read after the momenta were written", "", "base")
        kws = {k.arg: norm(k.value) for k in spc.keywords}
        L.check(kws.get("apply_constraint", "True") == "True", "K3", "ForceBias.step:set_positions", f"{step0.module.relpath}:{spc.lineno}", "position update switches constraints off", "fixed atoms move", "apply_constraint")
        kws = {k.arg: norm(k.value) for k in smc.keywords}
        L.check(kws.get("apply_constraint", "True") == "True", "K3", "ForceBias.step:set_momenta", f"{step0.module.relpath}:{smc.lineno}", "momentum update switches constraints off", "FixCom/FixAtoms do not act on the displacement", "apply_constraint")
