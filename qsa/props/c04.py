"""C04 — energies used for acceptance belong to the configuration they describe.

On the same abstract heap as C03 (qsa.absim), with ASE's calculator cache summarised as
"get_property is a cache hit iff calc.atoms equals the live atoms on positions/cell/numbers,
otherwise results are replaced and recomputed" (validated against the installed ASE source):
E1 no misattribution: whenever calc.atoms equals the current configuration, calc.results are the
   results of that configuration (after every trial, and at every energy read)
E2 the reference energy for the next acceptance test (context.last_potential_energy) is the energy
   of the current configuration after every trial; remembered positions/cell equal the current ones
E3 (Hamiltonian moves apart) a trial that reaches its criteria costs exactly one evaluation, a failed
   one none, and after every trial the cache is coherent, so logging the energy is a cache hit
E4 before the first trial the reference energy is that of the initial configuration
E5 the calculator stays usable: whenever calc.atoms carries the live atom set (so ASE will not report a `numbers`
   change and calculators will not re-initialise), the calculator's last real calculation was on that atom set
"""

from __future__ import annotations

from ..absim import Ref, V, simp
from ..loader import AnalysisError, Program
from ..report import Ledger
from ..scenarios import run_all, scenarios
from .. import asetab


def _is_hamiltonian(prog: Program, sc) -> bool:
    def walk(spec):
        if isinstance(spec, int):
            return False
        if spec.cls.startswith("Hamiltonian"):
            return True
        return any(walk(c) for c in (spec.children or []) if not isinstance(c, int))

    return any(walk(s) for s in sc.table)


def _last(rec, pred):
    w = None
    for ev in rec.events:
        if pred(ev):
            w = ev
    return w


def check_trial(prog: Program, sc, rec) -> list[dict]:
    out = []
    scen = f"{rec.driver}×{rec.table}"
    path = " ; ".join(rec.path[-8:])
    m = rec.machine

    def viol(rule, construct, where, detail, stmt=""):
        out.append({"status": "violation", "rule": rule, "construct": construct, "where": where, "detail": detail,
                    "witness": f"scenario {scen}, {rec.outcome} trial; abstract path: {path}", "stmt": stmt})

    def ok(rule, construct):
        out.append({"status": "ok", "rule": rule, "construct": construct})

    if rec.outcome == "raised":
        return out  # reported under C03/U5
    if rec.outcome in ("rejected", "failed") and any(simp(rec.after[c]) != simp(rec.before[c]) for c in ("P", "A", "C")):
        # the configuration itself was not restored: that is C03's violation; every energy/cache
        # comparison below would only restate it
        out.append({"status": "ok", "rule": "E1", "construct": f"{scen}:{rec.outcome}:skipped-unrestored-configuration(C03)"})
        return out
    cfg = m.config()
    ccfg = m.calc_config()
    R = m.heap["calc"]["R"]
    coherent = ccfg == cfg
    # ---- E1 misattribution now
    if coherent and R != ("res", cfg):
        w = _last(rec, lambda e: e.kind == "calc-write") or _last(rec, lambda e: e.kind == "write")
        viol("E1", f"{w.func if w else rec.driver + '.revert_state'}:results", w.where if w else "",
             f"after a {rec.outcome} trial the calculator believes it is at the current configuration (calc.atoms equals atoms) but holds results of another one: "
             f"results = {str(R)[:110]}, configuration = {str(cfg)[:110]} — the next energy read returns a stale value without recomputation", "results")
    else:
        ok("E1", f"{scen}:{rec.outcome}")
    # ---- E1 at every read inside the trial
    for ev in rec.events:
        if ev.kind == "energy-read" and isinstance(ev.data, dict):
            r, c = ev.data["results"], ev.data["config"]
            if r != ("res", c):
                viol("E1", f"{ev.func}:stale-read", ev.where, f"`{ev.detail}` in {ev.func} is served from the cache although the cached results belong to {str(r)[:100]} and the atoms are at {str(c)[:100]}", "read")
    # ---- E2 reference energy / remembered geometry
    ctx = rec.ctx_after
    if "last_potential_energy" in ctx:
        v = ctx["last_potential_energy"]
        good = isinstance(v, V) and v.term and v.term[0] == "E" and v.term[1] == cfg
        if good:
            ok("E2", f"{scen}:{rec.outcome}:last_potential_energy")
        else:
            w = _last(rec, lambda e: e.kind == "slot-write" and isinstance(e.data, dict) and e.data.get("slot") == "last_potential_energy")
            func = w.func if w else f"{sc.ctx_cls.name}.save_state"
            viol("E2", f"{func}:last_potential_energy", w.where if w else sc.ctx_cls.where,
                 f"after a {rec.outcome} trial the reference energy for the next acceptance test is {str(v)[:120]}, not the energy of the current configuration {str(cfg)[:100]}", "last_potential_energy")
    if "last_results" in ctx:
        lr = m.value_of(ctx["last_results"])
        if lr == ("res", cfg):
            ok("E2", f"{scen}:{rec.outcome}:last_results")
        else:
            w = _last(rec, lambda e: e.kind == "slot-write" and isinstance(e.data, dict) and e.data.get("slot") == "last_results")
            func = w.func if w else f"{sc.ctx_cls.name}.save_state"
            viol("E2", f"{func}:last_results", w.where if w else sc.ctx_cls.where,
                 f"after a {rec.outcome} trial the results remembered for the next rejection ({str(lr)[:100]}) are not those of the current configuration {str(cfg)[:100]}: "
                 "a later revert_state would attribute them to it", "last_results")
    for slot, comp in (("last_positions", "P"), ("last_cell", "C")):
        if slot in ctx:
            val = m.value_of(ctx[slot])
            cur = simp(m.heap["atoms"][comp])
            if simp(val) == cur:
                ok("E2", f"{scen}:{rec.outcome}:{slot}")
            else:
                w = _last(rec, lambda e: e.kind == "slot-write" and isinstance(e.data, dict) and e.data.get("slot") == slot)
                func = w.func if w else f"{sc.ctx_cls.name}.save_state"
                viol("E2", f"{func}:{slot}", w.where if w else sc.ctx_cls.where,
                     f"after a {rec.outcome} trial `{slot}` is {str(simp(val))[:100]} while the atoms are at {str(cur)[:100]}", slot)
    # ---- E3 evaluation count / coherence (Hamiltonian moves apart)
    if not _is_hamiltonian(prog, sc):
        want = 1 if rec.outcome in ("accepted", "rejected") else 0
        if rec.evals == want:
            ok("E3", f"{scen}:{rec.outcome}:evaluations")
        else:
            evs = [e for e in rec.events if e.kind == "energy-eval"]
            extra = evs[want] if len(evs) > want else (evs[-1] if evs else None)
            func = extra.func if extra else (f"{rec.criteria_cls}.evaluate")
            viol("E3", f"{func}:evaluations", extra.where if extra else "",
                 f"a {rec.outcome} trial of {rec.move_cls} under {rec.driver} spends {rec.evals} energy evaluations (expected {want}): "
                 + ", ".join(f"{e.detail} in {e.func}" for e in evs), "evaluations")
        if coherent and R == ("res", cfg):
            ok("E3", f"{scen}:{rec.outcome}:coherent")
        else:
            w = _last(rec, lambda e: e.kind in ("calc-write",)) or _last(rec, lambda e: e.kind == "write" and isinstance(e.data, dict) and e.data.get("obj") == "atoms")
            func = w.func if w else f"{rec.driver}.revert_state"
            if rec.outcome == "rejected":
                func = _resync_owner(prog, sc) or func
            viol("E3", f"{func}:resync", w.where if w else "",
                 f"after a {rec.outcome} trial the calculator cache is not coherent with the atoms (calc.atoms at {str(ccfg)[:90]}, atoms at {str(cfg)[:90]}, results {str(R)[:60]}): "
                 "logging the current energy or the next trial's reference costs a recomputation", "resync")
    # ---- E5 per-atom internal state of the calculator (neighbour lists …)
    I = simp(m.heap["calc"].get("I", ("none",)))
    live_A = simp(m.heap["atoms"]["A"])
    ca_A = simp(m.heap["calcatoms"]["A"])
    stale_now = [e for e in rec.events if e.kind == "calc-stale-state"]
    if stale_now:
        e = stale_now[0]
        viol("E5", f"{e.func}:stale-calculator-state@{scen}", e.where, f"`{e.detail}` in {e.func}: ASE reports no change of the atom set, so the calculator updates neighbour lists built for {str(e.data['I'])[:80]} with atoms {str(e.data['A'])[:80]}", "stale-state")
    elif I != ("none",) and ca_A == live_A and I != live_A:
        owner = _resync_owner(prog, sc) or f"{rec.driver}.revert_state"
        viol("E5", f"{owner}:calculator-internal-state@{scen}", "",
             f"after a {rec.outcome} trial calc.atoms is set to the current atom set ({str(live_A)[:70]}) while the calculator's last real calculation — and with it its per-atom internal state "
             f"(neighbour lists) — was on {str(I)[:90]}: the next evaluation reports no `numbers` change, the calculator does not re-initialise and works on arrays of the wrong length",
             "internal-state")
    else:
        ok("E5", f"{scen}:{rec.outcome}:calculator-internal-state")
    # ---- E4
    if rec.index == 0 and "last_potential_energy" in rec.ctx_before:
        v = rec.ctx_before["last_potential_energy"]
        b = (simp(rec.before["P"]), simp(rec.before["C"]), simp(rec.before["A"]))
        if isinstance(v, V) and v.term and v.term[0] == "E" and v.term[1] == b:
            ok("E4", f"{rec.driver}.validate_simulation")
        else:
            viol("E4", f"{rec.driver}.validate_simulation", "", f"before the first trial the reference energy is {str(v)[:100]}, not the energy of the initial configuration", "validate")
    return out


def _resync_owner(prog: Program, sc) -> str | None:
    f = prog.lookup_method(sc.driver, "revert_state")
    return f.qualname if f else None


def run(prog: Program, L: Ledger) -> None:
    L.explanation = (
        "C04 decided on the abstract heap of qsa.absim (see C03) extended with the calculator: calc.results and calc.atoms are "
        "components; every energy read in quansino's code is interpreted with ASE's cache rule (hit iff calc.atoms equals the live "
        "atoms on positions/cell/numbers, else results are replaced and recomputed — validated against the installed ASE source). "
        "For every driver × move-table scenario and every abstract path, after each accepted, rejected or failed trial: cached "
        "results are never attributed to another configuration, the reference energy and remembered geometry are those of the "
        "current configuration, and (Hamiltonian moves apart) the number of evaluations is exactly one per trial that reaches its "
        "criteria with a coherent cache afterwards. Calculators with per-atom internal state (neighbour lists) are modelled by one more "
        "component: the atom set of the last real calculation, rebuilt only when ASE reports a `numbers` change (validated on the installed "
        "EMT and LennardJones sources); hand-written cache resynchronisation must not make the calculator believe that state is current. "
        "Not decided: the actual number of force calls inside an integrator."
    )
    L.rule("E1", "calculator results are never attributed to a configuration they were not computed for (at trial end and at every cached read)")
    L.rule("E2", "after every trial context.last_potential_energy is the energy of the current configuration; last_positions/last_cell equal the current ones")
    L.rule("E3", "non-Hamiltonian trials: exactly one evaluation if the criteria are reached, none if the move failed; cache coherent after the trial (logging costs nothing)")
    L.rule("E4", "validate_simulation establishes the reference energy of the initial configuration before the first trial")
    L.rule("E5", "whenever calc.atoms has the live atom set, the calculator's per-atom internal state (rebuilt only when ASE reports a `numbers` change) was built for that atom set")
    L.assume(asetab.validate_calculator_reinit())
    L.assume(asetab.validate_calculator_cache())
    for k, v in asetab.validate_atoms_setters().items():
        L.assume(f"ASE {k}: {v}")

    scs = scenarios(prog, with_composites=True, iterations=1)
    if L.tier == "thorough":
        scs += scenarios(prog, with_composites=False, iterations=2)
        # two different moves in one table, two consecutive trials (e.g. a rejected exchange followed by a displacement)
        scs += [s for s in scenarios(prog, with_composites=True, iterations=2) if len(s.table) == 2]
    L.floor("driver × move-table scenarios", len(scs), 20)
    results = run_all(prog, "qsa.props.c04", scs)
    tot_paths = tot_trials = 0
    per = {}
    for label, stats, findings, oks, err in results:
        if err:
            raise AnalysisError(f"scenario {label}: {err}")
        tot_paths += stats["paths"]
        tot_trials += stats["trials"]
        per[label] = stats
        for rule, construct, n in oks:
            L.ok(rule, construct, "", f"{n} trials")
        for f in findings:
            L.violation(f["rule"], f["construct"], f["where"], f["detail"], f["witness"], f.get("stmt", ""))
    L.extra["scenarios"] = per
    L.extra["abstract_paths"] = tot_paths
    L.extra["trials_checked"] = tot_trials
    L.floor("abstract trials checked", tot_trials, 500)
