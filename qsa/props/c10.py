"""C10 — proposal operations stay within their advertised geometry and are symmetric.

Each shipped operation's calculate() is value-numbered (sympy) with every generator draw turned into a
named symbol carrying its (low, high) range:
G1 Box: one uniform(−s, s) draw per component, shape (1, 3)
G2 Ball / Sphere: the returned row has squared norm r² (r ~ uniform(0, s)) resp. s², built from the
   uniform-on-the-sphere sampler cosθ ~ U(−1,1), φ ~ U over one full period
G3 Translation: U(0,1)³ @ cell − centroid(moving), one row; Rotation: rotates a *copy* of the moving
   group about "COM" and returns rotated − original for the same index set; angles handed to ASE's
   degree-valued API are a full symmetric period in degrees (unit rule)
G4 deformations: generator matrix symmetric by construction with uniform(−m, m) entries, traceless for
   Shape, exp(u)·𝟙 for Isotropic; result = G∘mask + 𝟙∘(¬mask) with the same mask
G5 composite: np.sum over one calculate() per child, axis 0
"""

from __future__ import annotations

import ast

from .. import asetab
from ..normalize import flat
from ..loader import AnalysisError, ClassInfo, FuncInfo, Program, calls_in, norm, walk_no_nested
from ..report import Ledger
from ..sym import DIFFERENT, EQUAL, Translator, Unsupported, Vocabulary, mat3, same, sp


class Draws:
    """Hook turning ``context.rng.uniform(lo, hi, size)`` into fresh symbols."""

    def __init__(self, tr_vocab: Vocabulary):
        self.v = tr_vocab
        self.draws: list[dict] = []

    def hook(self, tr: Translator, node):
        if isinstance(node, ast.Call) and norm(node.func) in ("context.rng.uniform", "context.rng.random", "context.rng.normal", "context.rng.standard_normal"):
            kind = node.func.attr
            kws = {k.arg: k.value for k in node.keywords}
            lo = hi = None
            size = kws.get("size")
            if kind == "uniform":
                a = list(node.args)
                lo = tr.tr(a[0]) if len(a) > 0 else (tr.tr(kws["low"]) if "low" in kws else sp.Integer(0))
                hi = tr.tr(a[1]) if len(a) > 1 else (tr.tr(kws["high"]) if "high" in kws else sp.Integer(1))
                if len(a) > 2:
                    size = a[2]
            n = 1
            stxt = norm(size) if size is not None else ""
            if size is not None:
                try:
                    sv = tr.tr(size)
                    if isinstance(sv, tuple):
                        n = 1
                        for x in sv:
                            n *= int(x)
                    else:
                        n = int(sv)
                except Exception:
                    n = 1
            syms = [sp.Symbol(f"d{len(self.draws)}_{i}", real=True) for i in range(n)]
            self.draws.append({"kind": kind, "lo": lo, "hi": hi, "size": stxt, "n": n, "syms": syms, "node": node})
            if n == 1:
                return syms[0]
            if stxt.replace(" ", "") in ("(1,3)",):
                return sp.Matrix([syms])
            return tuple(syms)
        if isinstance(node, ast.Call) and norm(node.func) == "np.column_stack" and len(node.args) == 1 and isinstance(node.args[0], (ast.Tuple, ast.List)):
            return sp.Matrix([[tr.tr(x) for x in node.args[0].elts]])
        return None

    def of(self, sym):
        for d in self.draws:
            if sym in d["syms"]:
                return d
        return None


def _rotation_scipy_idiom(prog: Program, L: Ledger, f: FuncInfo, inl) -> bool:
    """Alternative idiom: a Haar-uniform rotation from scipy handed the simulation generator, applied to a
    copy of the group about its centre of mass: scipy…Rotation.random(rng=context.rng).apply(P − c) + c."""
    from ..loader import dotted

    ap = [c for c in calls_in(f.node) if isinstance(c.func, ast.Attribute) and c.func.attr == "apply" and isinstance(c.func.value, ast.Call)]
    if len(ap) != 1:
        return False
    rnd = ap[0].func.value
    if not (isinstance(rnd.func, ast.Attribute) and rnd.func.attr == "random"):
        return False
    full = prog.resolve_dotted(f.module, dotted(rnd.func.value) or "")
    if full != "scipy.spatial.transform.Rotation":
        return False
    gen = [k.value for k in rnd.keywords if k.arg in ("rng", "random_state")]
    L.check(bool(gen) and norm(gen[0]) == "context.rng", "G3", "Rotation.calculate:generator", f.where,
            "the random rotation is not drawn from the simulation generator", "orientation proposals depend on global random state", norm(rnd)[:80])
    arg = inl.inline(ap[0].args[0]) if ap[0].args else None
    okc = False
    centre = None
    if isinstance(arg, ast.BinOp) and isinstance(arg.op, ast.Sub):
        centre = arg.right
        mol = arg.left
        okc = norm(centre).endswith(".get_center_of_mass()") and norm(mol).endswith(".positions") and norm(mol)[: -len(".positions")] == norm(centre)[: -len(".get_center_of_mass()")]
        if okc:
            molexpr = mol.value
            while isinstance(molexpr, ast.Call) and norm(molexpr.func) == "cast":
                molexpr = molexpr.args[1]
            okc = isinstance(molexpr, ast.Subscript) and norm(inl.inline(molexpr.value)) == "context.atoms" and norm(molexpr.slice) == "context._moving_indices"
    L.check(okc, "G3", "Rotation.calculate:centre", f.where, "the rotation is not applied to (copy of the group's positions − its centre of mass)", "the group's centre of mass moves / other atoms rotate", norm(arg)[:100] if arg is not None else "")
    rets = [st for st in f.body() if isinstance(st, ast.Return)]
    rv = inl.inline(rets[0].value) if rets else None
    okr = False
    if isinstance(rv, ast.BinOp) and isinstance(rv.op, ast.Sub) and centre is not None:
        left = rv.left
        okr = isinstance(left, ast.BinOp) and isinstance(left.op, ast.Add) and norm(left.right) == norm(centre) and norm(rv.right) in ("context.atoms.positions[context._moving_indices]",)
    L.check(okr, "G3", "Rotation.calculate:difference", f.where, "returned value is not (rotated + centre) − original positions of the same index set", "", norm(rv)[:100] if rv is not None else "")
    L.assume("scipy.spatial.transform.Rotation.random draws Haar-uniform rotations: a rotation and its inverse are equally likely")
    return True


def _translate(f: FuncInfo, table=None, binds=None, extra_hooks=(), prog=None):
    if prog is not None:
        # helpers of an operation are seen through even when public (apply_mask, exponential_map …); calculate()
        # of other operations stays a call
        f = flat(prog, f, f.cls, public_methods=True, keep=("calculate", "integrate", "to_dict", "from_dict"))
    vocab = Vocabulary(table or {}, default_assumptions={"real": True})
    for k, v in (binds or {}).items():
        vocab.bind(k, v)
    t = Translator(vocab)
    t.expr_calls = True  # effectful numpy calls as statements (np.multiply(a, b, out=buf[:, 0])) are interpreted
    t.module = f.module  # module-level constants (index tables such as `_UPPER = ((0, 0, 1), (1, 2, 2))`) resolve
    dr = Draws(vocab)
    for h in extra_hooks:
        t.hooks.append(h)
    t.hooks.append(dr.hook)
    try:
        r = t.run_block(f.body())
    except Unsupported as exc:
        raise AnalysisError(f"{f.qualname}: {exc}") from exc
    if r is None:
        raise AnalysisError(f"{f.qualname}: no return")
    return t, vocab, dr, t.tr(r[1])


def _range_is(d, lo, hi) -> bool:
    try:
        return sp.simplify(d["lo"] - lo) == 0 and sp.simplify(d["hi"] - hi) == 0
    except Exception:
        return False


def _int_index_expr(e: ast.expr, fi) -> bool:
    """True when the expression is known to yield integer indices (not a boolean mask)."""
    if isinstance(e, ast.Subscript) and isinstance(e.value, ast.Call) and norm(e.value.func) in ("np.where", "np.nonzero") and norm(e.slice) == "0":
        return True
    if isinstance(e, ast.Subscript) and isinstance(e.slice, ast.Slice):
        return _int_index_expr(e.value, fi)  # a slice of integer indices
    if isinstance(e, ast.Call):
        fn = norm(e.func)
        if fn in ("np.flatnonzero", "np.arange", "np.argwhere", "range", "np.empty", "np.zeros") :
            return fn not in ("np.empty", "np.zeros") or any(k.arg == "dtype" and norm(k.value) in ("int", "np.int64", "np.intp", "np.int_") for k in e.keywords)
        if fn in ("np.array", "np.asarray", "list") and e.args:
            if any(k.arg == "dtype" and norm(k.value) in ("int", "np.int64", "np.intp", "np.int_") for k in e.keywords):
                return True
            return _int_index_expr(e.args[0], fi)
    if isinstance(e, (ast.List, ast.Tuple)):
        return all(isinstance(x, ast.Constant) and isinstance(x.value, int) and not isinstance(x.value, bool) for x in e.elts)
    if isinstance(e, ast.Name):
        # a local or parameter: follow single local bindings, accept parameters annotated as integer arrays / index lists
        binds = [st for st in walk_no_nested(fi.node) if isinstance(st, ast.Assign) and len(st.targets) == 1 and isinstance(st.targets[0], ast.Name) and st.targets[0].id == e.id]
        if binds:
            return all(_int_index_expr(b.value, fi) for b in binds)
        for a in fi.node.args.args + fi.node.args.kwonlyargs:
            if a.arg == e.id and a.annotation is not None:
                return "Integer" in norm(a.annotation) or "int" in norm(a.annotation)
    return False


def run(prog: Program, L: Ledger) -> None:
    L.explanation = (
        "C10 decided per operation on the value-numbered calculate() body: generator draws become symbols with their (low, high) range; "
        "Ball/Sphere rows are shown to have squared norm r² / s² under sin²+cos²=1 with the uniform-on-sphere parameter ranges; Box, "
        "Translation and Rotation are checked for their defining shape (symmetric interval; fractional point times cell minus centroid; "
        "rotate-a-copy-about-COM and return the difference for the same index set) and the Rotation angles for the unit of ASE's "
        "degree-valued euler_rotate (validated against the installed ASE source); deformation generators are shown symmetric by "
        "construction with symmetric uniform entries, traceless for Shape, scalar for Isotropic, and blended with one mask on both terms; "
        "the composite is the axis-0 sum over one call per child. Trusted lemmas: the (cosθ, φ) sampler is uniform on the sphere and "
        "symmetric under d→−d; expm of a symmetric matrix is SPD with inverse expm(−T); det expm(T) = exp(tr T). Not decided: uniformity "
        "in distribution, volume preservation 'to rounding', symmetry under a non-default mask."
    )
    L.rule("G1", "Box: each component one uniform(−s, s) draw from context.rng; shape (1, 3)")
    L.rule("G2", "Ball/Sphere: squared norm of the returned row is r² (r ~ U(0, s)) / s²; cosθ ~ U(−1, 1), φ ~ U over a full 2π period")
    L.rule("G3", "Translation: U(0,1)^3 @ cell − centroid of the moving group; Rotation: copy, rotate about COM, return difference; angles in the unit ASE expects, over a full period")
    L.rule("G4", "deformations: symmetric generator with uniform(−m, m) entries (traceless for Shape, scalar for Isotropic); result = G∘mask + 𝟙∘(¬mask)")
    L.rule("G5", "CompositeOperation.calculate = np.sum([op.calculate(context) for op in operations], axis=0)")
    L.rule("G6", "every operation owns its parameters: no module- or class-level mutable object (a shared default mask …) is stored into an operation")
    from ..sharing import shared_escapes

    esc_, n_sh = shared_escapes(prog)
    ops_esc = [e_ for e_ in esc_ if "/operations/" in e_.where or "/integrators/" in e_.where]
    for e_ in ops_esc:
        L.violation("G6", f"{e_.func}:shared-{e_.name}", e_.where,
                    f"`{e_.name}` ({e_.kind}, created once at {e_.defined}) is {e_.how}: all operations built with the default share one object",
                    "restrict one operation in place (op.mask[2, :] = False): every other default-mask operation, also those built later, loses isotropy / volume preservation / symmetry with it", e_.name)
    if not ops_esc:
        L.ok("G6", "operations:own-parameters", "src/quansino/operations", f"{n_sh} candidates in the package")
    # G4 (mask handling): a mask that is GIVEN is the mask that is used — whatever it contains (an all-False mask freezes the
    # cell); only `mask is None` selects the default.  Finite case analysis of the constructor.
    from ..cases import AV, CaseEval, Undecided

    dop = prog.cls("DeformationOperation")
    dinit = prog.lookup_method(dop, "__init__")
    if dinit is None:
        raise AnalysisError("DeformationOperation.__init__ missing")
    dflat = flat(prog, dinit, dop)
    mask_sts = [st for st in walk_no_nested(dflat.node) if isinstance(st, (ast.Assign, ast.AnnAssign)) and st.value is not None
                and any(norm(t) == "self.mask" for t in (st.targets if isinstance(st, ast.Assign) else [st.target]))]
    if not mask_sts:
        raise AnalysisError("DeformationOperation.__init__: no assignment of self.mask")
    for case, av in (("array", AV("arrayN", "mask")), ("None", AV("none", "mask"))):
        ce = CaseEval({"mask": av})
        try:
            ce.run([st for st in dflat.body() if not (isinstance(st, ast.Expr) and isinstance(st.value, ast.Constant))])
            got = ce.env.get("self.mask")
        except Undecided as exc:
            got = None
            why = str(exc)
        else:
            why = ""
        where_ = f"{dinit.module.relpath}:{mask_sts[0].lineno}"
        if case == "array":
            L.check(got is not None and got.origin == "mask", "G4", "DeformationOperation.__init__:given-mask", where_,
                    f"with a mask given the operation stores `{got}` ({why or 'not the argument'}): whether the given mask is used depends on more than `mask is None` (e.g. on its content)",
                    "mask = np.zeros((3, 3), bool) (freeze the cell): the operation falls back to the all-True default and deforms every component", norm(mask_sts[0])[:120])
        else:
            L.check(got is not None and got.origin != "mask", "G4", "DeformationOperation.__init__:default-mask", where_,
                    f"without a mask the operation stores `{got}` ({why})", "operations built without a mask have no usable mask", norm(mask_sts[0])[:120])
    L.assume(asetab.validate_euler_rotate())

    ops = {c.name: c for c in prog.subclasses(prog.cls("BaseOperation"), strict=True)}
    concrete = [c for c in ops.values() if (prog.lookup_method(c, "calculate") and not prog.lookup_method(c, "calculate").is_trivial())]
    L.floor("operations with a real calculate()", len(concrete), 9)
    s = sp.Symbol("s", positive=True)

    # ------------------------------------------------------------------ Box
    box = prog.cls("Box")
    f = box.methods["calculate"]
    t, v, dr, ret = _translate(f, {"self.step_size": ("s", {"positive": True})}, prog=prog)
    okb = len(dr.draws) == 1 and dr.draws[0]["kind"] == "uniform" and _range_is(dr.draws[0], -v.sym("s", positive=True), v.sym("s", positive=True)) and dr.draws[0]["n"] == 3
    shape_ok = isinstance(ret, sp.MatrixBase) and ret.shape == (1, 3) and all(ret[0, i] == dr.draws[0]["syms"][i] for i in range(3)) if dr.draws and dr.draws[0]["n"] == 3 else False
    L.check(okb and shape_ok, "G1", "Box.calculate", f.where,
            f"Box draws `{norm(dr.draws[0]['node']) if dr.draws else None}`: each of the 3 components must be one uniform(−step_size, step_size) draw, returned unchanged as a (1,3) row",
            "components outside ±step_size, or −d not as likely as d", norm(dr.draws[0]["node"]) if dr.draws else "")

    # ------------------------------------------------------------------ Ball / Sphere
    for name in ("Ball", "Sphere"):
        ci = prog.cls(name)
        f = ci.methods.get("calculate")
        if f is None:
            raise AnalysisError(f"{name}.calculate missing")
        t, v, dr, ret = _translate(f, {"self.step_size": ("s", {"positive": True})}, prog=prog)
        ss = v.sym("s", positive=True)
        if not (isinstance(ret, sp.MatrixBase) and ret.shape == (1, 3)):
            raise AnalysisError(f"{name}.calculate: return value is not a (1,3) row")
        n2 = sp.trigsimp(sp.simplify(sp.expand(sum(ret[0, i] ** 2 for i in range(3)))))
        # roles of the draws
        trig = {a for fn in ret.atoms(sp.sin, sp.cos) for a in fn.args[0].free_symbols}
        rad = set()
        for pw in ret.atoms(sp.Pow):
            if pw.exp == sp.Rational(1, 2):
                rad |= pw.base.free_symbols
        all_d = {sy for d in dr.draws for sy in d["syms"]}
        phi = trig & all_d
        cth = rad & all_d
        rr = all_d - phi - cth
        cons = f"{name}.calculate"
        if name == "Ball":
            okn = len(rr) == 1 and sp.simplify(n2 - list(rr)[0] ** 2) == 0
            L.check(okn, "G2", f"{cons}:norm", f.where, f"squared norm of the Ball row is `{n2}`, not r² with r the radial draw", "displacement longer than the radial draw (norm can exceed step_size)", str(n2)[:80])
            if len(rr) == 1:
                d = dr.of(list(rr)[0])
                L.check(_range_is(d, 0, ss), "G2", f"{cons}:radius-range", f.where, f"radial draw is uniform({d['lo']}, {d['hi']}), not uniform(0, step_size)", "norm exceeds step_size", norm(d["node"]))
        else:
            L.check(sp.simplify(n2 - ss**2) == 0 and not rr, "G2", f"{cons}:norm", f.where, f"squared norm of the Sphere row is `{n2}`, not step_size²", "displacement not on the sphere of radius step_size", str(n2)[:80])
        if len(phi) == 1 and len(cth) == 1:
            dphi, dc = dr.of(list(phi)[0]), dr.of(list(cth)[0])
            L.check(sp.simplify(dphi["hi"] - dphi["lo"] - 2 * sp.pi) == 0, "G2", f"{cons}:phi-range", f.where,
                    f"azimuth is uniform({dphi['lo']}, {dphi['hi']}): it must cover one full period 2π", "directions with some azimuths are never (or twice as often) proposed: d and −d are not equally likely", norm(dphi["node"]))
            L.check(_range_is(dc, -1, 1), "G2", f"{cons}:cos-theta-range", f.where, f"cosθ is uniform({dc['lo']}, {dc['hi']}), not uniform(−1, 1)", "one hemisphere favoured: d and −d not equally likely", norm(dc["node"]))
            # z component is r·cosθ, x/y carry sqrt(1−cos²θ)
            z = ret[0, 2]
            L.check(list(cth)[0] in z.free_symbols and not (z.free_symbols & phi), "G2", f"{cons}:z-component", f.where, "z component is not r·cosθ", "", str(z)[:60])
        else:
            L.violation("G2", f"{cons}:sampler", f.where, "row is not built from the (cosθ, φ) uniform-on-sphere sampler", "direction not uniform", str(ret)[:100])

    # ------------------------------------------------------------------ Translation
    tr_ci = prog.cls("Translation")
    f = flat(prog, tr_ci.methods["calculate"], tr_ci, public_methods=True, keep=("calculate", "integrate", "to_dict", "from_dict"))
    rets = [st for st in f.body() if isinstance(st, ast.Return)]
    if len(rets) != 1:
        raise AnalysisError("Translation.calculate: single return expected")
    from ..dataflow import Inliner

    from ..dataflow import seq_inline

    e = Inliner(f.node).inline(seq_inline(f.body(), rets[0].value))
    okt = False
    detail = norm(e)[:120]
    if isinstance(e, ast.BinOp) and isinstance(e.op, ast.Sub):
        left, right = e.left, e.right
        if isinstance(left, ast.BinOp) and isinstance(left.op, ast.MatMult):
            u, cell = left.left, left.right
            uok = isinstance(u, ast.Call) and norm(u.func) == "context.rng.uniform" and [norm(a) for a in u.args[:2]] == ["0", "1"] and norm(u.args[2] if len(u.args) > 2 else [k.value for k in u.keywords if k.arg == "size"][0]).replace(" ", "") == "(1,3)"
            cok = norm(cell) in ("context.atoms.cell.array", "context.atoms.get_cell().array", "context.atoms.cell", "context.atoms.get_cell()", "np.asarray(context.atoms.cell)")
            if not cok and isinstance(cell, ast.Attribute) and isinstance(cell.value, ast.Name) and cell.value.id == "self":
                # a cell matrix kept on the operation: accepted when every value stored into the attribute (None apart) is the
                # cell of the context's atoms — whether the kept copy is still fresh is rule M's question
                CELLS = ("context.atoms.cell.array", "context.atoms.get_cell().array", "context.atoms.cell", "context.atoms.get_cell()")
                vals_ = []
                # (private helpers are inlined in the flat form of calculate, so their stores are seen with the caller's names)
                for m_node in [f.node] + [m_.node for c_ in prog.mro_classes(tr_ci) for m_ in c_.methods.values() if m_.name not in ("__init__", "calculate") and not m_.name.startswith("_")]:
                    for _once in (0,):
                        inl_m = Inliner(m_node)
                        for st_ in walk_no_nested(m_node):
                            if isinstance(st_, (ast.Assign, ast.AnnAssign)) and getattr(st_, "value", None) is not None:
                                tg_ = st_.targets if isinstance(st_, ast.Assign) else [st_.target]
                                if any(isinstance(t_, ast.Attribute) and isinstance(t_.value, ast.Name) and t_.value.id == "self" and t_.attr == cell.attr for t_ in tg_):
                                    v_ = st_.value
                                    if isinstance(v_, ast.Constant) and v_.value is None:
                                        continue
                                    for _k in range(3):
                                        if isinstance(v_, ast.Call) and norm(v_.func) in ("np.array", "np.asarray", "numpy.array", "np.copy") and v_.args:
                                            v_ = v_.args[0]
                                        elif isinstance(v_, ast.Call) and isinstance(v_.func, ast.Attribute) and v_.func.attr == "copy" and not v_.args:
                                            v_ = v_.func.value
                                    vals_.append(norm(inl_m.inline(v_)) in CELLS)
                if vals_ and all(vals_):
                    cok = True
            rok = norm(right) in ("context.atoms.positions[context._moving_indices].mean(axis=0)", "np.mean(context.atoms.positions[context._moving_indices], axis=0)",
                                  "context.atoms.get_positions()[context._moving_indices].mean(axis=0)")
            why_not = ""
            if not rok and isinstance(right, ast.BinOp) and isinstance(right.op, ast.Div):
                # centroid written as Σ rows / number of rows
                grp = ("context.atoms.positions[context._moving_indices]", "context.atoms.get_positions()[context._moving_indices]")
                num_ok = norm(right.left) in tuple(g + ".sum(axis=0)" for g in grp) + tuple(f"np.sum({g}, axis=0)" for g in grp)
                den = norm(right.right)
                if num_ok and den in tuple(f"len({g})" for g in grp) + tuple(g + ".shape[0]" for g in grp):
                    rok = True
                elif num_ok and den in ("len(context._moving_indices)", "context._moving_indices.size", "context._moving_indices.shape[0]"):
                    # the number of index entries is the number of selected rows only for integer indices: every producer
                    # of context._moving_indices in the package must hand over integer indices, never a boolean mask
                    masks = []
                    for fi2 in prog.iter_functions():
                        for st2 in walk_no_nested(fi2.node):
                            if isinstance(st2, (ast.Assign, ast.AnnAssign)) and st2.value is not None:
                                tg2 = st2.targets if isinstance(st2, ast.Assign) else [st2.target]
                                unpack = [t2 for t2 in tg2 if isinstance(t2, (ast.Tuple, ast.List)) and len(t2.elts) == 1 and isinstance(t2.elts[0], ast.Attribute) and t2.elts[0].attr == "_moving_indices"]
                                if unpack and not (isinstance(st2.value, ast.Call) and norm(st2.value.func) in ("np.where", "np.nonzero") and len(st2.value.args) == 1):
                                    masks.append(f"{fi2.qualname} ({fi2.module.relpath}:{st2.lineno}) unpacks `{norm(st2.value)[:60]}`")
                                if any(isinstance(t2, ast.Attribute) and t2.attr == "_moving_indices" for t2 in tg2) and not _int_index_expr(st2.value, fi2):
                                    masks.append(f"{fi2.qualname} ({fi2.module.relpath}:{st2.lineno}) stores `{norm(st2.value)[:60]}`")
                    rok = not masks
                    why_not = "; the centroid divides by the number of index ENTRIES while " + "; ".join(masks) + " — with a boolean mask that is the total atom count, not the group size"
            okt = uok and cok and rok
            if why_not and not rok:
                detail = detail + why_not
    L.check(okt, "G3", "Translation.calculate", f.where, f"translation is `{detail}`, not uniform(0,1,(1,3)) @ cell − centroid of the moving group",
            "the group's centroid does not land uniformly in the cell / the group is not moved rigidly", detail)

    # ------------------------------------------------------------------ Rotation
    rot = prog.cls("Rotation")
    f = flat(prog, rot.methods["calculate"], rot, public_methods=True, keep=("calculate", "integrate", "to_dict", "from_dict"))
    inl = Inliner(f.node)
    er = [c for c in calls_in(f.node) if isinstance(c.func, ast.Attribute) and c.func.attr in ("euler_rotate", "rotate")]
    if not er and _rotation_scipy_idiom(prog, L, f, inl):
        er = None
    elif len(er) != 1:
        raise AnalysisError("Rotation.calculate: expected one ASE rotation call")
    if er is None:
        return _after_rotation(prog, L, s)
    call = er[0]
    recv = inl.inline(call.func.value)
    # the rotated object is a copy of the moving sub-structure
    r0 = recv
    while isinstance(r0, ast.Call) and norm(r0.func) == "cast" and len(r0.args) == 2:
        r0 = r0.args[1]
    copy_ok = norm(r0) in ("context.atoms[context._moving_indices].copy()",)
    if isinstance(r0, ast.Subscript) and norm(inl.inline(r0.value)) == "context.atoms" and norm(inl.inline(r0.slice)) == "context._moving_indices":
        copy_ok = True
    if not copy_ok and isinstance(r0, ast.Attribute) and isinstance(r0.value, ast.Name) and r0.value.id == "self":
        # a scratch copy kept on the operation: every value stored into the attribute (None apart) is a slice copy of the
        # moving group — whether the kept copy is still fresh is rule M's question, not this one's
        vals = []
        for c_ in prog.mro_classes(rot):
            for m_ in c_.methods.values():
                if m_.name == "__init__":
                    continue
                inl_ = Inliner(m_.node)
                for st_ in walk_no_nested(m_.node):
                    if isinstance(st_, (ast.Assign, ast.AnnAssign)) and st_.value is not None:
                        tg_ = st_.targets if isinstance(st_, ast.Assign) else [st_.target]
                        if any(isinstance(t_, ast.Attribute) and isinstance(t_.value, ast.Name) and t_.value.id == "self" and t_.attr == r0.attr for t_ in tg_):
                            v_ = st_.value
                            while isinstance(v_, ast.Call) and norm(v_.func) == "cast" and len(v_.args) == 2:
                                v_ = v_.args[1]
                            if isinstance(v_, ast.Constant) and v_.value is None:
                                continue
                            vals.append(isinstance(v_, ast.Subscript) and norm(inl_.inline(v_.value)) == "context.atoms" and norm(inl_.inline(v_.slice)) == "context._moving_indices")
        if vals and all(vals):
            copy_ok = True
    L.check(copy_ok, "G3", "Rotation.calculate:copy", f.where, f"the rotated object is `{norm(r0)[:80]}`, not a copy of the moving sub-structure atoms[moving_indices]", "the live atoms are rotated in place / other atoms move", norm(r0)[:100])
    kws = {k.arg: k.value for k in call.keywords}
    center = kws.get("center")
    L.check(center is not None and isinstance(center, ast.Constant) and center.value == "COM", "G3", "Rotation.calculate:center", f.where,
            f"rotation centre is `{norm(center) if center is not None else '(origin)'}`, not the centre of mass", "the group's centre of mass moves", "center")
    # angle unit and range
    vocab = Vocabulary({}, default_assumptions={"real": True})
    tt = Translator(vocab)
    dr = Draws(vocab)
    tt.hooks.append(dr.hook)
    try:
        pre = [st for st in f.body() if not isinstance(st, ast.Return) and not (isinstance(st, ast.Expr))]
        tt.run_block([st for st in pre if isinstance(st, ast.Assign) and "rng" in norm(st.value)])
    except Unsupported as exc:
        raise AnalysisError(f"Rotation.calculate: {exc}") from exc
    angles = []
    for a in call.args[:3]:
        if isinstance(a, ast.Starred):
            sv = tt.tr(a.value)
            if not isinstance(sv, (tuple, list)):
                raise AnalysisError(f"Rotation.calculate: starred Euler angles `{norm(a)}` not a literal-size draw")
            angles.extend(sv)
        else:
            angles.append(tt.tr(a))
    if len(angles) != 3:
        raise AnalysisError("Rotation.calculate: three Euler angles expected")
    for i, a in enumerate(angles):
        d = dr.of(a) if isinstance(a, sp.Symbol) else None
        nm = ("phi", "theta", "psi")[i]
        if d is None:
            L.violation("G3", f"Rotation.calculate:{nm}", f.where, f"Euler angle {nm} is `{a}`, not a direct uniform draw", "proposal not symmetric", nm)
            continue
        width = sp.simplify(d["hi"] - d["lo"])
        uses_pi = width.has(sp.pi)
        if uses_pi or sp.simplify(width - 360) != 0:
            L.violation("G3", f"Rotation.calculate:angle-unit", f.where,
                        f"Euler angle {nm} is drawn from uniform({d['lo']}, {d['hi']}) and handed to Atoms.{call.func.attr}, which takes DEGREES: the range is "
                        + ("a radian period (2π ≈ 6.28°)" if uses_pi else f"{width}°, not a full 360° period"),
                        "every proposed rotation is by at most ~6.3° and always in the positive sense: the inverse rotation is never proposed (asymmetric proposal, orientations barely sampled)", norm(d["node"]))
        else:
            L.ok("G3", f"Rotation.calculate:{nm}", f.where)
    rets = [st for st in f.body() if isinstance(st, ast.Return)]
    rv = rets[0].value
    from ..dataflow import seq_inline as _seq

    rv2 = _seq(f.body(), rv) if isinstance(rv, ast.Name) else rv
    # (locals that name the rotated copy itself stay names: only the value chain of the returned local is followed)
    rv = rv2 if isinstance(rv2, ast.BinOp) else (inl.inline(rv) if isinstance(rv, ast.Name) else rv)
    okr = isinstance(rv, ast.BinOp) and isinstance(rv.op, ast.Sub) and norm(rv.left).endswith(".positions") and norm(inl.inline(rv.left.value)) == norm(recv) and norm(inl.inline(rv.right)) in ("context.atoms.positions[context._moving_indices]", "context.atoms.get_positions()[context._moving_indices]")
    L.check(okr, "G3", "Rotation.calculate:difference", f.where, f"returned `{norm(rv)[:100]}` is not rotated − original positions of the same index set", "atoms of the group are displaced inconsistently", norm(rv)[:120])

    return _after_rotation(prog, L, s)


def _after_rotation(prog: Program, L: Ledger, s) -> None:
    from ..dataflow import Inliner

    # ------------------------------------------------------------------ TranslationRotation
    trr = prog.cls("TranslationRotation")
    f = flat(prog, trr.methods["calculate"], trr, public_methods=True, keep=("calculate", "integrate", "to_dict", "from_dict"))
    rets = [st for st in f.body() if isinstance(st, ast.Return)]
    okc = len(rets) == 1 and norm(Inliner(f.node).inline(rets[0].value)) in ("self.translation.calculate(context) + self.rotation.calculate(context)", "self.rotation.calculate(context) + self.translation.calculate(context)")
    L.check(okc, "G3", "TranslationRotation.calculate", f.where, "not the sum of its translation and rotation parts", "", norm(rets[0].value) if rets else "")

    # ------------------------------------------------------------------ deformations
    mval = sp.Symbol("mval", positive=True)
    for name in ("AnisotropicDeformation", "ShapeDeformation", "IsotropicDeformation"):
        ci = prog.cls(name)
        f = ci.methods.get("calculate")
        if f is None:
            raise AnalysisError(f"{name}.calculate missing")
        K = mat3("k")
        G = mat3("G")
        captured = {}

        def expm_hook(tr, node, _c=captured, _G=G):
            if isinstance(node, ast.Call) and norm(node.func) in ("expm", "scipy.linalg.expm", "linalg.expm"):
                _c["T"] = sp.Matrix(tr.tr(node.args[0]))
                return _G
            if isinstance(node, ast.UnaryOp) and isinstance(node.op, ast.Invert) and norm(node.operand) == "self.mask":
                return K.applyfunc(lambda x: 1 - x)
            return None

        t, v, dr, ret = _translate(f, {"self.max_value": ("mval", {"positive": True})}, binds={"self.mask": K}, extra_hooks=(expm_hook,), prog=prog)
        mv = v.sym("mval", positive=True)
        if not (isinstance(ret, sp.MatrixBase) and ret.shape == (3, 3)):
            raise AnalysisError(f"{name}.calculate: result is not a 3×3 matrix")
        I3 = sp.eye(3)
        cons = f"{name}.calculate"
        if "T" in captured:
            T = captured["T"]
            L.check(all(sp.simplify(T[i, j] - T[j, i]) == 0 for i in range(3) for j in range(3)), "G4", f"{cons}:symmetric", f.where,
                    "generator matrix is not symmetric by construction", "deformation gradient not symmetric positive-definite; T and −T proposals not inverse of each other", "symmetric")
            ent = set()
            for i in range(3):
                for j in range(i, 3):
                    ent |= T[i, j].free_symbols
            for sy in sorted(ent, key=str):
                d = dr.of(sy)
                if d is None:
                    raise AnalysisError(f"{cons}: generator entry depends on `{sy}`, which is not a draw")
                L.check(_range_is(d, -mv, mv), "G4", f"{cons}:entry-range", f.where, f"generator entries are uniform({d['lo']}, {d['hi']}), not uniform(−max_value, max_value)", "T and −T are not equally likely", norm(d["node"]))
            offdiag_distinct = len({str(T[0, 1]), str(T[0, 2]), str(T[1, 2])}) == 3 and all(T[i, j] != 0 for i, j in ((0, 1), (0, 2), (1, 2)))
            L.check(offdiag_distinct, "G4", f"{cons}:offdiag", f.where, "off-diagonal generator entries are not three independent draws", "shear components missing or tied together", "offdiag")
            if name.startswith("Shape"):
                L.check(sp.simplify(T.trace()) == 0, "G4", f"{cons}:traceless", f.where, f"trace of the generator is `{sp.simplify(T.trace())}`, not 0", "det expm(T) = exp(tr T) ≠ 1: the shape move changes the volume", "trace")
            else:
                L.check(all(dr.of(list(T[i, i].free_symbols)[0]) is not None and len(T[i, i].free_symbols) == 1 for i in range(3)) and len({str(T[i, i]) for i in range(3)}) == 3, "G4", f"{cons}:diag", f.where,
                        "diagonal generator entries are not three independent draws", "", "diag")
            want = G.multiply_elementwise(K) + I3.multiply_elementwise(K.applyfunc(lambda x: 1 - x))
            grad_desc = "expm(T)"
        else:
            # isotropic: eye * exp(u)
            ds = [d for d in dr.draws]
            if len(ds) != 1 or ds[0]["n"] != 1:
                raise AnalysisError(f"{cons}: expected a single scalar draw")
            u = ds[0]["syms"][0]
            L.check(_range_is(ds[0], -mv, mv), "G4", f"{cons}:entry-range", f.where, f"log-strain is uniform({ds[0]['lo']}, {ds[0]['hi']}), not uniform(−max_value, max_value)", "expansion and the inverse compression are not equally likely", norm(ds[0]["node"]))
            want = (I3 * sp.exp(u)).multiply_elementwise(K) + I3.multiply_elementwise(K.applyfunc(lambda x: 1 - x))
            grad_desc = "exp(u)·𝟙"
        verdict, wit = same(ret, want)
        if verdict == EQUAL:
            L.ok("G4", f"{cons}:mask-blend", f.where)
        elif verdict == DIFFERENT:
            L.violation("G4", f"{cons}:mask-blend", f.where, f"result is not {grad_desc}∘mask + 𝟙∘(¬mask): {wit}", "masked-out components are not exactly identity / masked-in ones not the proposed gradient", "mask")
        else:
            raise AnalysisError(f"{cons}: {wit}")

    # ------------------------------------------------------------------ composite
    co = prog.cls("CompositeOperation")
    f = flat(prog, co.methods["calculate"], co, public_methods=True, keep=("calculate", "integrate", "to_dict", "from_dict"))
    rets = [st for st in f.body() if isinstance(st, ast.Return)]
    okc = False
    rv = Inliner(f.node).inline(rets[0].value) if len(rets) == 1 else None
    if rv is not None and isinstance(rv, ast.Call) and norm(rv.func) in ("np.sum", "numpy.sum", "np.add.reduce", "numpy.add.reduce"):
        c = rv
        kws = {k.arg: norm(k.value) for k in c.keywords}
        a = c.args[0] if c.args else None
        if isinstance(a, (ast.ListComp, ast.GeneratorExp)) and len(a.generators) == 1 and not a.generators[0].ifs:
            g = a.generators[0]
            okc = norm(g.iter) == "self.operations" and norm(a.elt) == f"{norm(g.target)}.calculate(context)" and kws.get("axis") == "0" and isinstance(a, ast.ListComp)
    L.check(okc, "G5", "CompositeOperation.calculate", f.where, "not np.sum([op.calculate(context) for op in self.operations], axis=0)", "a part is skipped, applied twice or summed over the wrong axis", norm(rv)[:120] if rv is not None else "")
