"""C07 — restarting from any saved step continues the same trajectory (necessary conditions).

T1 the restart file writer (ASE's encoder -> obj.todict()) executes the most-derived to_dict
T2 every driver that accepts restart_file has todict and from_dict; the file dictionary holds
   what from_dict indexes unconditionally
T3 the file-path dictionary's kwargs cover every required constructor parameter, none unknown
T4 dynamic state is complete: every context slot is emitted, a handle, per-trial scratch, or
   recomputed before the first step; from_dict restores rng state (in place), attributes,
   context and move table
T5 every class name reachable from a driver's dictionary resolves (shared with C08 S1/S2)
"""

from __future__ import annotations

import ast

from .. import asetab
from ..loader import AnalysisError, ClassInfo, FuncInfo, Program, calls_in, dotted, norm, walk_no_nested
from ..report import Ledger
from ..serial import DV, EV, DictInterp, ctor_info, emitted_schema, registrations
from . import c08

HANDLE_SLOTS = {
    "atoms": "live Atoms handle: the atoms are serialized as the top-level 'atoms' entry",
    "rng": "alias of Driver._rng: restored through rng_state",
}


def stale_aliases(prog: Program):
    """Class-body aliases ``X = f`` (f a method of the same class) that some subclass
    inherits while overriding ``f``: the alias still binds the base function."""
    out = []
    for ci in prog.classes.values():
        for alias, val in ci.class_attrs.items():
            if isinstance(val, ast.Name) and val.id in ci.methods and alias != val.id:
                target = ci.methods[val.id]
                for sub in prog.subclasses(ci, strict=True):
                    cur = prog.lookup_method(sub, val.id)
                    bound = prog.lookup_method(sub, alias)
                    if cur is not None and bound is target and cur is not target:
                        out.append((ci, alias, val.id, sub, cur))
    return out


def file_entry(prog: Program, ci: ClassInfo) -> FuncInfo | None:
    """The function that ``obj.todict()`` executes for an instance of ``ci``."""
    return prog.lookup_method(ci, "todict")


def file_schema(prog: Program, ci: ClassInfo) -> DV | None:
    fi = file_entry(prog, ci)
    if fi is None:
        return None
    if fi.name == "todict":
        # delegating method: `return self.to_dict()`
        for st in fi.body():
            if isinstance(st, ast.Return) and isinstance(st.value, ast.Call) and norm(st.value.func) == "self.to_dict" and not st.value.args:
                return emitted_schema(prog, ci)
        return DictInterp(prog, ci, "todict").run(fi)
    # alias to a (possibly stale) to_dict definition: run *that* body with self: ci
    return DictInterp(prog, ci, "to_dict").run(fi)


def _schema_diff(a, b, prefix: str = "") -> list[str]:
    out = []
    if not isinstance(a, DV) or not isinstance(b, DV):
        if isinstance(a, EV) and isinstance(b, EV) and norm(a.expr) != norm(b.expr):
            out.append(f"{prefix}: `{norm(a.expr)}` vs `{norm(b.expr)}`")
        elif type(a) is not type(b):
            out.append(f"{prefix}: shape differs")
        return out
    for k in sorted(set(a.items) | set(b.items)):
        if k not in a.items:
            out.append(f"{prefix}{k} missing from the file dictionary")
        elif k not in b.items:
            out.append(f"{prefix}{k} only in the file dictionary")
        else:
            out += _schema_diff(a.items[k], b.items[k], f"{prefix}{k}.")
    return out


def run(prog: Program, L: Ledger) -> None:
    L.explanation = (
        "C07 is a behavioural statement (step-for-step equality of a resumed run); decided here are structural necessary "
        "conditions whose failure makes every restart of the affected configuration wrong or impossible: which function the "
        "restart writer really executes per driver class (class-body alias vs override, T1), presence of both ends and of the "
        "keys from_dict indexes (T2), constructor coverage of the file dictionary (T3), completeness of the dynamic state "
        "(context slots, rng state restored in place after construction, step counter, move table; T4) and resolvability of "
        "every class name in the file (T5). Not decided: equality of the continued trajectory itself, exact JSON number "
        "round trip (ASE's encoder, trusted)."
    )
    L.rule("T1", "for every driver class C, lookup(C,'todict') executes lookup(C,'to_dict') (no stale class-body alias of an overridden method)")
    L.rule("T2", "every driver accepting restart_file has todict and from_dict; the file dictionary contains every key from_dict indexes unconditionally")
    L.rule("T3", "kwargs of the file-path dictionary cover all constructor parameters without default and contain no key the constructor chain rejects")
    L.rule("T4", "every context slot is emitted, a handle, per-trial scratch (assigned in reset) or recomputed by validate_simulation; from_dict restores rng state in place after construction, attributes, context, move table")
    L.rule("T6", "the restart writer keeps dictionary insertion order (no key sorting by default): the move table is rebuilt in file order and scheduled by position")
    L.rule("T7", "per-move state that is not in the file but derived on load (unique_labels, recomputed by set_labels) is only ever produced by that same function during a run")
    L.rule("T8", "state outside the file — the calculator's cached results — never decides what a run reports: after every accepted / rejected / failed trial the cache either belongs to the current configuration or is recomputed (a restarted run starts with an EMPTY cache; whatever a revert 'restores' into it in place is lost there)")
    _check_cache_independence(prog, L)
    L.rule("T9", "every component that can appear in a restart file writes its state unconditionally (or under a guard that loses nothing: the reader's default is the guarded value)")
    L.rule("T5", "every class name reachable from a driver's dictionary is registered and admitted by the lookup base at its reading site")
    L.assume(asetab.validate_json_todict())

    driver = prog.cls("Driver")
    drivers = [c for c in prog.subclasses(driver) if c08.is_concrete(prog, c, "driver")]
    L.floor("concrete driver classes", len(drivers), 6)

    # the observer really writes `self.simulation` through write_json
    ro = prog.cls("RestartObserver")
    call = ro.methods.get("__call__")
    if call is None:
        raise AnalysisError("RestartObserver.__call__ not found")
    from ..normalize import flat as _flat

    call = _flat(prog, call, ro, keep=("to_dict", "from_dict", "close"), public_methods=True)
    wj = [c for c in calls_in(call.node) if prog.resolve_dotted(call.module, dotted(c.func) or "").endswith("jsonio.write_json")]
    jd = [c for c in calls_in(call.node) if prog.resolve_dotted(call.module, dotted(c.func) or "") in ("json.dumps", "json.dump")]
    if not wj and not jd:
        raise AnalysisError("RestartObserver.__call__ calls neither ase.io.jsonio.write_json nor json.dump(s)")
    if wj:
        objs = [norm(k.value) for c in wj for k in c.keywords if k.arg == "obj"] + [norm(c.args[1]) for c in wj if len(c.args) > 1]
    else:
        objs = [norm(c.args[0]) for c in jd if c.args] + [norm(k.value) for c in jd for k in c.keywords if k.arg == "obj"]
        enc = [k.value for c in jd for k in c.keywords if k.arg == "cls"]
        okenc = len(enc) == len(jd) and all(prog.resolve_dotted(call.module, dotted(e) or "").endswith("jsonio.MyEncoder") for e in enc)
        L.check(okenc, "T1", "RestartObserver.__call__:encoder", call.where, "json.dump(s) is not given ASE's MyEncoder: objects are not converted through todict()", "TypeError when the restart file is written", "cls")
    L.check(objs == ["self.simulation"], "T1", "RestartObserver.__call__:obj", call.where,
            f"restart writer serialises `{objs}` instead of the simulation", "restart file does not describe the simulation", "write_json")
    # T6: the file keeps the insertion order of the dictionaries — from_dict re-inserts the moves in file order and
    # yield_moves turns a random draw into a move by its position in the table
    init_ro = ro.methods.get("__init__")
    defaults: dict | None = {}
    if init_ro is not None:
        for st_ in walk_no_nested(init_ro.node):
            if isinstance(st_, (ast.Assign, ast.AnnAssign)) and st_.value is not None and any(norm(t) == "self.write_kwargs" for t in (st_.targets if isinstance(st_, ast.Assign) else [st_.target])):
                defaults = _literal_default_dict(st_.value)
    explicit = {k.arg: k.value for c in (wj or jd) for k in c.keywords if k.arg}
    sort_explicit = explicit.get("sort_keys")
    spreads_kwargs = any(k.arg is None and norm(k.value) == "self.write_kwargs" for c in (wj or jd) for k in c.keywords)
    sorted_by_default = (isinstance(sort_explicit, ast.Constant) and sort_explicit.value is True) or (spreads_kwargs and defaults is not None and defaults.get("sort_keys") is True)
    if spreads_kwargs and defaults is None:
        raise AnalysisError("RestartObserver.__init__: default of write_kwargs is not a literal dictionary expression")
    L.check(not sorted_by_default, "T6", "RestartObserver:key-order", call.where,
            "the restart writer sorts dictionary keys by default: the move table is written alphabetically, from_dict re-inserts the moves in that order, and yield_moves maps its random draws to moves by position",
            "a table whose insertion order is not alphabetical (e.g. 'small' then 'large', or the default cell+displacement moves): the restarted run turns the same random numbers into different moves", "sort_keys")

    # T7: the file carries `labels`; `unique_labels` (whose order decides which label a random draw picks) is rebuilt by
    # set_labels on load — so set_labels must be its only producer while running
    from . import c11

    c11.check_label_writers(prog, L, "T7")

    # ------------------------------------------------------------------ T1
    stale = stale_aliases(prog)
    for base, alias, meth, sub, cur in stale:
        if prog.is_subclass(sub, driver) and alias == "todict":
            L.violation("T1", f"{sub.name}.{alias}", base.class_attr_nodes[alias] and f"{base.module.relpath}:{base.class_attr_nodes[alias].lineno}",
                        f"`{alias} = {meth}` in {base.name} binds {base.name}.{meth}; {sub.name} overrides {meth} ({cur.where}) but its restart file is still written by {base.name}.{meth}",
                        f"{sub.name}(...).todict() omits what {cur.qualname} adds (the file cannot rebuild the simulation)",
                        norm(base.class_attr_nodes[alias]))
        else:
            L.note(f"class-body alias {base.name}.{alias} = {meth} is stale for subclass {sub.name} (not on the restart path)")
    for d in drivers:
        fe = file_entry(prog, d)
        if fe is None:
            continue
        if any(s[3] == d and s[1] == "todict" for s in stale):
            continue
        # semantic comparison: what the writer emits vs what the most-derived to_dict emits
        diff = _schema_diff(file_schema(prog, d), emitted_schema(prog, d))
        L.check(not diff, "T1", f"{d.name}.todict", fe.where,
                f"the restart writer's entry point for {d.name} ({fe.qualname}) does not produce what {d.name}'s most-derived to_dict produces: {'; '.join(diff[:4])}",
                f"{d.name}(...).todict() != {d.name}(...).to_dict(): the restart file is incomplete", "todict")

    # ------------------------------------------------------------ T2 / T3 / T4
    for d in drivers:
        ct = ctor_info(prog, d)
        accepts_restart = "restart_file" in ct.params or ct.accepts_any
        if not accepts_restart:
            continue
        fe = file_entry(prog, d)
        fd = prog.lookup_method(d, "from_dict")
        if fe is None:
            L.violation("T2", f"{d.name}:todict", d.where, f"{d.name} accepts restart_file but has no todict(): ASE's encoder cannot serialise it",
                        f"{d.name}(atoms, ..., restart_file='r.json').run(1) -> TypeError in write_json", "todict")
        else:
            L.ok("T2", f"{d.name}:todict", fe.where)
        if fd is None:
            L.violation("T2", f"{d.name}:from_dict", d.where, f"{d.name} accepts restart_file but has no from_dict(): a written file cannot be loaded back",
                        "no documented way to rebuild the simulation from the restart file", "from_dict")
        else:
            L.ok("T2", f"{d.name}:from_dict", fd.where)
        if fe is None or fd is None:
            continue
        schema = file_schema(prog, d)
        # keys from_dict indexes unconditionally
        needed = set()
        data_name = fd.params()[1] if len(fd.params()) > 1 else "data"
        for n in walk_no_nested(fd.node):
            if isinstance(n, ast.Subscript) and isinstance(n.value, ast.Name) and n.value.id == data_name and isinstance(n.slice, ast.Constant) and isinstance(n.ctx, ast.Load):
                needed.add(n.slice.value)
        for k in sorted(needed):
            L.check(k in schema.items, "T2", f"{d.name}.file[{k}]", fd.where,
                    f"{fd.qualname} indexes data[{k!r}] but the dictionary written for {d.name} has no such key", f"{d.name}.from_dict(file) -> KeyError {k!r}", k)
        kw = schema.items.get("kwargs")
        kw_keys = set(kw.items) if isinstance(kw, DV) else set()
        for pname, p in ct.params.items():
            if pname in c08.DRIVER_PARAM_EXEMPT:
                continue
            if not p.has_default:
                L.check(pname in kw_keys, "T3", f"{d.name}.file.kwargs[{pname}]", fe.where,
                        f"restart dictionary of {d.name} (written by {fe.qualname}) lacks required constructor argument `{pname}`",
                        f"{d.name}.from_dict(read_json(restart_file)) -> TypeError: missing required argument {pname!r}", pname)
        if not ct.accepts_any:
            for k in sorted(kw_keys - set(ct.params)):
                L.violation("T3", f"{d.name}.file.kwargs[{k}]", fe.where, f"restart dictionary carries kwargs key {k!r} that {d.name}.__init__ rejects",
                            f"{d.name}.from_dict(...) -> TypeError unexpected keyword {k!r}", k)
        # attributes / rng / step counter
        at = schema.items.get("attributes")
        L.check(isinstance(at, DV) and "step_count" in at.items, "T4", f"{d.name}.file.attributes[step_count]", fe.where,
                "step counter is not part of the restart dictionary", "a resumed run restarts at step 0: observers and intervals shift", "step_count")
        rs = schema.items.get("rng_state")
        L.check(isinstance(rs, EV) and norm(rs.expr).endswith("_rng.bit_generator.state"), "T4", f"{d.name}.file[rng_state]", fe.where,
                "generator state is not part of the restart dictionary", "resumed run draws a different random sequence", "rng_state")
        _check_from_dict(prog, L, d, fd)
        _check_context_state(prog, L, d)

    # ------------------------------------------------------------------ T5
    subj = c08.subjects(prog)
    regs = registrations(prog)
    names = {r.name: r for r in regs}
    n5 = 0
    for fam in ("move", "operation", "integrator", "criteria", "storage"):
        for ci, concrete in subj.get(fam, []):
            if not concrete:
                continue
            n5 += 1
            r = names.get(ci.name)
            L.check(r is not None and r.resolved == ci, "T5", ci.name, ci.where,
                    f"{fam} `{ci.name}` can appear in a restart file but is not registered under its name",
                    f"restart of a simulation using {ci.name}: get_class({ci.name!r}) -> KeyError", ci.name)
            # T9: what the component writes into the file does not depend on its values (a key written only "when it
            # differs from the default" is absent otherwise, and the resumed object keeps what ITS constructor derives)
            sch9 = emitted_schema(prog, ci)

            def cond_keys(dv, path=""):
                for k in sorted(dv.conditional):
                    yield path + k, dv.origin.get(k), dv.cond_tests.get(k)
                for k, v in dv.items.items():
                    if isinstance(v, DV):
                        yield from cond_keys(v, path + k + ".")

            if sch9 is not None:
                ck = [(kp, org) for kp, org, tst in cond_keys(sch9) if not c08._lossless_default_guard(prog, ci, tst)]
                for kpath, org in ck:
                    L.violation("T9", f"{ci.name}.{kpath}:conditional", org.where if org else ci.where,
                                f"{ci.name}.to_dict writes `{kpath}` into the restart file only under a condition: when it is false the resumed {ci.name} keeps whatever its constructor sets (not necessarily the value the running object had)",
                                f"a run whose {ci.name} has `{kpath.split('.')[-1]}` at the guarded value while its constructor derives another one resumes with a different value: the remaining steps differ", kpath)
                if not ck:
                    L.ok("T9", f"{ci.name}:unconditional-emission", ci.where)
    L.floor("classes reachable from a driver dictionary", n5, 20)


def _literal_default_dict(e: ast.expr) -> dict | None:
    """value of a dictionary-valued default expression when the caller passes None: `x or {}`, `{"k": c, **(x or {})}`"""
    if isinstance(e, ast.BoolOp) and isinstance(e.op, ast.Or) and len(e.values) == 2 and isinstance(e.values[0], ast.Name):
        return _literal_default_dict(e.values[1])
    if isinstance(e, ast.IfExp):
        a, b = _literal_default_dict(e.body), _literal_default_dict(e.orelse)
        if isinstance(e.body, ast.Name):
            return b
        if isinstance(e.orelse, ast.Name):
            return a
        return a if a == b else None
    if isinstance(e, ast.Call) and norm(e.func) == "dict" and not e.args:
        out = {}
        for k in e.keywords:
            if k.arg is None:
                sub = _literal_default_dict(k.value)
                if sub is None:
                    return None
                out.update(sub)
            elif isinstance(k.value, ast.Constant):
                out[k.arg] = k.value.value
            else:
                out[k.arg] = None
        return out
    if isinstance(e, ast.Dict):
        out = {}
        for k, v in zip(e.keys, e.values):
            if k is None:
                sub = _literal_default_dict(v)
                if sub is None:
                    return None
                out.update(sub)
            elif isinstance(k, ast.Constant):
                out[k.value] = v.value if isinstance(v, ast.Constant) else None
            else:
                return None
        return out
    if isinstance(e, ast.BinOp) and isinstance(e.op, ast.BitOr):
        a, b = _literal_default_dict(e.left), _literal_default_dict(e.right)
        if a is None or b is None:
            return None
        return {**a, **b}
    return None


def _check_from_dict(prog: Program, L: Ledger, d: ClassInfo, fd: FuncInfo) -> None:
    from ..dataflow import Inliner
    from ..normalize import flat

    fd0 = fd
    # public loaders the constructor delegates to (load_attributes / load_context / load_moves …) are seen through
    fd = flat(prog, fd, d, keep=("add_move", "to_dict", "from_dict", "validate_simulation", "set_labels"), public_methods=True)
    body = fd.node
    top = fd.body()
    finl = Inliner(body)

    def order(node) -> int:
        for i, st in enumerate(top):
            if any(x is node for x in ast.walk(st)):
                return i
        return -1

    ctor_line = None
    inst = None
    for n in walk_no_nested(body):
        if isinstance(n, ast.Assign) and isinstance(n.value, ast.Call) and isinstance(n.value.func, ast.Name) and n.value.func.id == "cls":
            ctor_line = order(n)
            inst = n.targets[0].id if isinstance(n.targets[0], ast.Name) else None
    if inst is None:
        raise AnalysisError(f"{fd.qualname}: construction `x = cls(...)` not found")
    def mentions(e, key: str) -> bool:
        """does the value come from data[key] — directly, through single-definition locals, or through a local whose
        every non-None definition reads it (the shape an inlined lookup helper with a try/except takes)"""
        e = finl.inline(e)
        if key in norm(e):
            return True
        if isinstance(e, ast.Name):
            defs = [st_.value for st_ in ast.walk(body) if isinstance(st_, ast.Assign) and any(isinstance(t_, ast.Name) and t_.id == e.id for t_ in st_.targets)]
            real = [v_ for v_ in defs if not (isinstance(v_, ast.Constant) and v_.value is None)]
            return bool(real) and all(key in norm(finl.inline(v_)) for v_ in real)
        return False

    # rng restored in place, after construction
    rng_ok = False
    for n in walk_no_nested(body):
        if isinstance(n, ast.Assign) and len(n.targets) == 1:
            t = norm(n.targets[0])
            if t == f"{inst}._rng.bit_generator.state" and mentions(n.value, "rng_state") and order(n) > ctor_line:
                rng_ok = True
            if t in (f"{inst}._rng", f"{inst}.context.rng"):
                L.violation("T4", f"{d.name}.from_dict:rng-rebind", f"{fd.module.relpath}:{n.lineno}",
                            f"from_dict rebinds the generator (`{norm(n)}`): context.rng and Driver._rng stop being the same object",
                            "after restart, scheduling and moves draw from different generators", norm(n))
    L.check(rng_ok, "T4", f"{d.name}.from_dict:rng_state", fd.where,
            "from_dict does not restore the generator state in place after constructing the simulation",
            "resumed run repeats/forks the random sequence", "rng_state")

    def has_setattr_loop(key: str, target_txt: str) -> bool:
        for n in walk_no_nested(body):
            if isinstance(n, ast.For) and key in norm(finl.inline(n.iter)):
                for c in calls_in(n):
                    if isinstance(c.func, ast.Name) and c.func.id == "setattr" and c.args and norm(c.args[0]) == target_txt:
                        return True
        return False

    _check_restore_loops_unfiltered(prog, L)

    L.check(has_setattr_loop("attributes", inst), "T4", f"{d.name}.from_dict:attributes", fd.where,
            "from_dict does not replay the 'attributes' entry (step counter) onto the simulation", "step counter lost on restart", "attributes")
    L.check(has_setattr_loop("context", f"{inst}.context"), "T4", f"{d.name}.from_dict:context", fd.where,
            "from_dict does not replay the 'context' entry onto the simulation's context", "temperature/pressure/reference energies lost on restart", "context")
    # the move table is rebuilt: either the rebuilt MoveStorage is stored as is, or add_move is called
    # with every field of the stored entry forwarded
    storage_fields = list(prog.cls("MoveStorage").class_annotations)
    moves_ok = False
    detail = "from_dict does not rebuild the move table"
    for n in walk_no_nested(body):
        if isinstance(n, ast.For) and "moves" in norm(finl.inline(n.iter)):
            for s_ in walk_no_nested(n):
                if isinstance(s_, ast.Assign) and norm(s_.targets[0]).startswith(f"{inst}.moves["):
                    moves_ok = True
                if isinstance(s_, ast.Call) and norm(s_.func) == f"{inst}.add_move":
                    add = prog.lookup_method(d, "add_move")
                    pnames = add.params()[1:] if add else []
                    given = set(pnames[: len(s_.args)]) | {k.arg for k in s_.keywords if k.arg}
                    missing = [f for f in storage_fields if f not in given and f in pnames]
                    if not missing:
                        moves_ok = True
                    else:
                        detail = f"from_dict re-adds the moves through add_move without forwarding {missing}: the rebuilt entry falls back to add_move's defaults"
    L.check(moves_ok, "T4", f"{d.name}.from_dict:moves", fd.where, detail,
            "a move stored with a non-default " + ("/".join(m for m in storage_fields if m in detail) or "entry") + " is scheduled differently after restart: the resumed trajectory diverges", "moves")


def _check_context_state(prog: Program, L: Ledger, d: ClassInfo) -> None:
    ctxc = prog.classvar_class(d, "default_context")
    if ctxc is None:
        return
    cs = emitted_schema(prog, ctxc)
    if cs is None:
        raise AnalysisError(f"{ctxc.name} has no to_dict")
    slots: list[str] = []
    for c in prog.mro_classes(ctxc):
        for s in c.slots() or []:
            if s not in slots:
                slots.append(s)
    # per-trial scratch: assigned in a reset() along the MRO
    scratch = set()
    for f in prog.super_chain(ctxc, "reset"):
        for n in walk_no_nested(f.node):
            if isinstance(n, (ast.Assign, ast.AnnAssign)):
                for t in (n.targets if isinstance(n, ast.Assign) else [n.target]):
                    if isinstance(t, ast.Attribute) and norm(t.value) == "self":
                        scratch.add(t.attr)
    # recomputed unconditionally before the first step
    recomputed = set()
    for f in prog.super_chain(d, "validate_simulation"):
        for st in f.body():
            if isinstance(st, ast.Assign):
                for t in st.targets:
                    if isinstance(t, ast.Attribute) and norm(t.value) == "self.context":
                        recomputed.add(t.attr)
            elif isinstance(st, ast.Try):
                # assigned on every path of try/except
                def assigned(stmts):
                    s = set()
                    for x in stmts:
                        if isinstance(x, ast.Assign):
                            for t in x.targets:
                                if isinstance(t, ast.Attribute) and norm(t.value) == "self.context":
                                    s.add(t.attr)
                    return s
                common = assigned(st.body)
                for h in st.handlers:
                    common &= assigned(h.body)
                recomputed |= common
    for s in slots:
        if s in cs.items:
            L.ok("T4", f"{d.name}:{ctxc.name}.{s}", ctxc.where, "emitted")
        elif s in HANDLE_SLOTS:
            L.ok("T4", f"{d.name}:{ctxc.name}.{s}", ctxc.where, HANDLE_SLOTS[s])
        elif s in scratch:
            L.ok("T4", f"{d.name}:{ctxc.name}.{s}", ctxc.where, "per-trial scratch (reset())")
        elif s in recomputed:
            L.ok("T4", f"{d.name}:{ctxc.name}.{s}", ctxc.where, "recomputed by validate_simulation")
        else:
            L.violation("T4", f"{d.name}:{ctxc.name}.{s}", ctxc.where,
                        f"context slot `{s}` of {ctxc.name} is neither emitted by to_dict, nor a handle, nor reset per trial, nor recomputed by {d.name}.validate_simulation",
                        f"a run resumed from the restart file uses the constructor default of `{s}`", s)
    # the value written under a slot's key is that slot (read directly, through a property forwarding to it, or through
    # a lossless wrapper such as .copy() / np.asarray / float): anything computed from OTHER state is a different quantity
    for k, val in cs.items.items():
        if k not in slots or not isinstance(val, EV):
            continue
        roots = set()
        for n_ in ast.walk(val.expr):
            if isinstance(n_, ast.Attribute) and isinstance(n_.value, ast.Name) and n_.value.id == "self":
                roots.add(n_.attr)
        accepted = {k, "_" + k, k.lstrip("_")}
        L.check(bool(roots) and roots <= accepted, "T4", f"{d.name}:{ctxc.name}.to_dict[{k}]:value", f"{val.func.module.relpath}:{val.expr.lineno}",
                f"context dictionary key {k!r} is written from `{norm(val.expr)[:80]}`, not from the slot `{k}` the simulation reads: after a restart the slot holds a different quantity",
                f"a run whose `{k}` differs from `{norm(val.expr)[:60]}` (set through its setter, or drifted during the run) resumes with another value: the remaining trajectory diverges", norm(val.expr)[:100])
    for k in cs.items:
        L.check(k in slots, "T4", f"{d.name}:{ctxc.name}.to_dict[{k}]", ctxc.where,
                f"context dictionary key {k!r} is not a slot of {ctxc.name}", f"{d.name}.from_dict -> AttributeError in the context setattr loop", k)


def _check_cache_independence(prog: Program, L: Ledger) -> None:
    """T8 (abstract heap, shared with C04's E1/E2): the energies a run logs are equal for the uninterrupted and the
    restarted run only if they never depend on what the calculator cache held before — i.e. after every trial the cached
    results are those of the current configuration, and the reference energy / remembered results are too."""
    from ..scenarios import run_all, scenarios

    scs = scenarios(prog, with_composites=False, iterations=1)
    L.floor("driver × move scenarios for the calculator cache", len(scs), 8)
    n = 0
    seen = set()
    for label, stats, findings, oks, err in run_all(prog, "qsa.props.c04", scs):
        if err:
            raise AnalysisError(f"scenario {label}: {err}")
        n += stats["trials"]
        for f in findings:
            if f["rule"] not in ("E1", "E2"):
                continue  # E3 (cost of a rejection) and E5 (calculator-internal state) are C04's own clauses
            key = (f["rule"], f["construct"])
            if key in seen:
                continue
            seen.add(key)
            L.violation("T8", f["construct"], f["where"], f["detail"] + " — an uninterrupted run and a run restarted at this point (fresh calculator, empty cache) report different energies",
                        f["witness"], f.get("stmt", ""))
    if not seen:
        L.ok("T8", "drivers:cache-independence", "src/quansino/mc", f"{n} abstract trials")
    L.floor("abstract trials checked for cache independence", n, 100)


def _check_restore_loops_unfiltered(prog: Program, L: Ledger) -> None:
    """T4 (all from_dict implementations of the package): a loop that replays stored entries with setattr(obj, key, value)
    replays ALL of them — a guard on the truth value of `value` drops the legal falsy ones (default_label = 0,
    max_attempts = 0, False flags, empty arrays) and the rebuilt object keeps its constructor default instead."""
    if getattr(L, "_restore_loops_done", False):
        return
    L._restore_loops_done = True  # once per ledger (this is called from the per-driver from_dict check)
    seen = set()
    n = 0
    for ci in prog.classes.values():
        fd = ci.methods.get("from_dict")
        if fd is None or fd.qualname in seen:
            continue
        seen.add(fd.qualname)
        from ..normalize import flat as _flat_rl

        fdf = _flat_rl(prog, fd, ci)  # a shared `restore_attributes(instance, data)` helper is seen through
        for lp in [x for x in walk_no_nested(fdf.node) if isinstance(x, ast.For)]:
            sets = [c for c in calls_in(lp) if isinstance(c.func, ast.Name) and c.func.id == "setattr" and len(c.args) == 3]
            if not sets:
                continue
            n += 1
            loop_names = {x.id for x in ast.walk(lp.target) if isinstance(x, ast.Name)}
            bad = None
            for st in ast.walk(lp):
                if isinstance(st, ast.If) and any(c_ is s_ for s_ in sets for c_ in ast.walk(st)):
                    t = st.test
                    while isinstance(t, ast.UnaryOp) and isinstance(t.op, ast.Not):
                        t = t.operand
                    parts = t.values if isinstance(t, ast.BoolOp) else [t]
                    for p in parts:
                        if isinstance(p, ast.Name) and p.id in loop_names:
                            bad = st
                        if isinstance(p, ast.Call) and isinstance(p.func, ast.Name) and p.func.id in ("bool", "len") and p.args and isinstance(p.args[0], ast.Name) and p.args[0].id in loop_names:
                            bad = st
            # where the replayed entries come from: the writer puts the "attributes" block at the top level of the
            # dictionary, next to "kwargs" — a reader that looks for it inside the keyword dictionary finds nothing and
            # silently restores no attribute at all
            params_ = [a.arg for a in fdf.node.args.args]
            dparam = params_[1] if len(params_) > 1 else None
            binds_ = {}
            for st_ in walk_no_nested(fdf.node):
                if isinstance(st_, (ast.Assign, ast.AnnAssign)) and getattr(st_, "value", None) is not None:
                    for t_ in (st_.targets if isinstance(st_, ast.Assign) else [st_.target]):
                        if isinstance(t_, ast.Name):
                            binds_.setdefault(t_.id, []).append(st_.value)

            def _keypath(e, depth=0):
                if depth > 8:
                    return None
                if isinstance(e, ast.Name):
                    if e.id == dparam:
                        return []
                    vs = binds_.get(e.id, [])
                    if len(vs) == 1:
                        return _keypath(vs[0], depth + 1)
                    return None
                if isinstance(e, ast.Subscript) and isinstance(e.slice, ast.Constant) and isinstance(e.slice.value, str):
                    b = _keypath(e.value, depth + 1)
                    return None if b is None else b + [e.slice.value]
                if isinstance(e, ast.Call):
                    fn = norm(e.func)
                    if fn in ("deepcopy", "copy.deepcopy", "copy.copy", "dict") and e.args:
                        return _keypath(e.args[0], depth + 1)
                    if isinstance(e.func, ast.Attribute):
                        if e.func.attr in ("items", "copy") and not e.args:
                            return _keypath(e.func.value, depth + 1)
                        if e.func.attr in ("get", "pop", "setdefault") and e.args and isinstance(e.args[0], ast.Constant) and isinstance(e.args[0].value, str):
                            b = _keypath(e.func.value, depth + 1)
                            return None if b is None else b + [e.args[0].value]
                return None

            kp = _keypath(lp.iter) if dparam else None
            if kp is not None and kp and kp[-1] == "attributes":
                L.check(kp == ["attributes"], "T4", f"{fd.qualname}:restore-source", f"{fd.module.relpath}:{lp.lineno}",
                        f"{fd.qualname} replays the entries found under {' → '.join(repr(k) for k in kp)} of its argument, but to_dict writes the attribute block at the top level ('attributes', next to 'kwargs'): nothing is ever found there and no attribute is restored",
                        "a composite exchange move with bias_towards_insert ≠ 0.5 (or any move with max_attempts / default_label set) comes back from the restart file with the constructor defaults: the trajectories diverge at the first draw that falls between the two values", "restore-source")
            L.check(bad is None, "T4", f"{fd.qualname}:restore-unfiltered", f"{fd.module.relpath}:{(bad or lp).lineno}",
                    f"{fd.qualname} replays stored entries only when `{norm(bad.test)[:60] if bad is not None else ''}` is truthy: stored values that are 0, False or empty are skipped",
                    "default_label = 0 (or max_attempts = 0) is written to the restart file but the rebuilt move has the constructor default: after a restart inserted atoms get another label, the trajectories diverge", "restore-filter")
    L.floor("from_dict restore loops (setattr replay)", n, 3)
