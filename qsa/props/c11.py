"""C11 — a displacement move moves only the chosen particle.

D1 write set: the array handed to set_positions is (live positions) + Z, Z a fresh zero array of
   shape (len(atoms), 3) whose only store is Z[context._moving_indices] = operation.calculate(context)
D2 selection: _moving_indices = where(labels == chosen); the chosen label is pre-selected or drawn from
   unique_labels, which only set_labels writes, from labels[labels >= 0] (bounded predicate check)
D3 no eligible particle: the move returns through register_failure() before any write
D4 composite: candidates = setdiff(child.unique_labels, labels displaced so far in this call); the
   list is reset at entry and extended exactly once per child on every path; result = count of
   non-None entries > 0
"""

from __future__ import annotations

import ast

from ..cfg import build_cfg
from ..dataflow import Inliner, local_defs
from ..loader import AnalysisError, FuncInfo, Program, calls_in, norm, walk_no_nested
from ..minieval import PredUnsupported, ev
from ..report import Ledger
from ..absim import simp
from ..scenarios import run_all, scenarios


def check_trial(prog: Program, sc, rec) -> list[dict]:
    """D5 (abstract heap): within one activation of an attempt_* function every proposal write of the
    positions starts from the same version — a vetoed attempt is undone before the next one, so an
    accepted attempt displaces the group by ONE operation result."""
    out = []
    by_frame: dict[tuple, list] = {}
    for ev in rec.events:
        if ev.kind == "write" and isinstance(ev.data, dict) and ev.data.get("obj") == "atoms" and ev.data.get("comp") == "P" and ".attempt_" in ev.func:
            new = ev.data.get("new")
            if isinstance(new, tuple) and new and new[0] in ("new", "scaled") and not ev.data.get("raw"):
                by_frame.setdefault((ev.func, ev.frame), []).append(ev)
    for (func, frame), evs in by_frame.items():
        bases = [simp(e.data.get("old")) for e in evs]
        if all(b == bases[0] for b in bases):
            out.append({"status": "ok", "rule": "D5", "construct": f"{func}:{rec.driver}"})
        else:
            k = next(i for i, b in enumerate(bases) if b != bases[0])
            out.append({"status": "violation", "rule": "D5", "construct": f"{func}:attempt-base", "where": evs[k].where,
                        "detail": f"attempt #{k + 1} of one {func} call proposes from positions {str(bases[k])[:90]} instead of the positions the call started from ({str(bases[0])[:50]}): the previous vetoed attempt was not undone before retrying",
                        "witness": f"scenario {rec.driver}×{rec.table}: check_move vetoes the first attempt and accepts the second — the group is displaced by the SUM of both operation results (path {' ; '.join(rec.path[-5:])})",
                        "stmt": "attempt-base"})
    return out


def run(prog: Program, L: Ledger) -> None:
    L.explanation = (
        "C11 decided by dataflow and CFG rules on moves/displacement.py: the value handed to set_positions is sliced back to its "
        "sources (live positions plus a zero array whose single store is at the moving indices with one operation result, broadcast over "
        "the group); the moving indices are exactly the atoms whose label equals the chosen one; the chosen label comes from "
        "unique_labels, whose only writer filters labels ≥ 0 (predicate compared with the reference on a bounded integer domain); the "
        "no-eligible-particle path returns through register_failure() before any write; the composite excludes labels already displaced in "
        "the same call, registers exactly one outcome per child on every CFG path and reports the number of non-None entries. Not "
        "decided: constraints that move other atoms (excepted by the statement), vetoes by user check_move."
    )
    L.rule("D1", "positions written = live positions + Z, Z fresh zeros (len(atoms),3) with the single store Z[moving_indices] = operation.calculate(context)")
    L.rule("D2", "moving indices = where(labels == chosen); chosen drawn from unique_labels = unique(labels[labels >= 0]); labels/unique_labels written only by set_labels")
    L.rule("D3", "when no label is eligible the move returns register_failure() before any write")
    L.rule("D4", "composite: candidates exclude labels already displaced in this call; one registration per child per path; success iff some child moved")
    L.rule("D5", "every retry inside one attempt_* call proposes from the positions the call started from (a vetoed attempt is undone first), so an accepted attempt applies one operation result")
    scs = [s for s in scenarios(prog, with_composites=True, iterations=1) if any("Displacement" in t.label() or "Exchange" in t.label() or "Cell" in t.label() for t in s.table if not isinstance(t, int))]
    results = run_all(prog, "qsa.props.c11", scs)
    nt = 0
    for label, stats, findings, oks, err in results:
        if err:
            raise AnalysisError(f"scenario {label}: {err}")
        nt += stats["trials"]
        for rule, construct, n in oks:
            L.ok(rule, construct, "", f"{n} activations")
        for f in findings:
            L.violation(f["rule"], f["construct"], f["where"], f["detail"], f["witness"], f.get("stmt", ""))
    L.extra["abstract_trials"] = nt

    dm = prog.cls("DisplacementMove")
    att = dm.methods.get("attempt_displacement")
    call = dm.methods.get("__call__")
    setl = dm.methods.get("set_labels")
    if not (att and call and setl):
        raise AnalysisError("DisplacementMove anchors missing")
    rel = att.module.relpath
    inl = Inliner(att.node)

    # ------------------------------------------------------------------ D1
    sp_calls = [c for c in calls_in(att.node) if isinstance(c.func, ast.Attribute) and c.func.attr == "set_positions"]
    if len(sp_calls) != 1:
        raise AnalysisError(f"attempt_displacement: expected one set_positions call, found {len(sp_calls)}")
    spc = sp_calls[0]
    arg = spc.args[0]
    atoms_alias = {"atoms", "context.atoms"}
    live = {f"{a}.positions" for a in atoms_alias} | {f"{a}.get_positions()" for a in atoms_alias}
    zname = None
    okshape = False
    if isinstance(arg, ast.BinOp) and isinstance(arg.op, ast.Add):
        l, r = arg.left, arg.right
        for a, b in ((l, r), (r, l)):
            if norm(a) in live and isinstance(b, ast.Name):
                zname = b.id
    L.check(zname is not None, "D1", "attempt_displacement:sum", f"{rel}:{spc.lineno}", f"set_positions receives `{norm(arg)[:90]}`, not (current positions) + (translation array)",
            "atoms outside the selected group are placed at positions other than their current ones", norm(arg)[:120])
    if zname is not None:
        defs = local_defs(att.node).get(zname, [])
        plain = [(st, v) for st, v in defs if isinstance(st, (ast.Assign, ast.AnnAssign))]
        zero = False
        if len(defs) == 1 and len(plain) == 1:
            v = plain[0][1]
            if isinstance(v, ast.Call):
                fn = norm(v.func)
                a0 = norm(v.args[0]).replace(" ", "") if v.args else ""
                shape_ok = a0 in ("(len(atoms),3)", "(len(context.atoms),3)")
                if fn == "np.full" and shape_ok and len(v.args) > 1 and norm(v.args[1]) in ("0.0", "0"):
                    zero = True
                if fn == "np.zeros" and shape_ok:
                    zero = True
                if fn == "np.zeros_like" and norm(v.args[0]) in live:
                    zero = True
        L.check(zero, "D1", "attempt_displacement:zeros", f"{rel}:{defs[0][0].lineno if defs else att.node.lineno}",
                f"translation array `{zname}` is not a fresh zero array of shape (len(atoms), 3) (defined {len(defs)} time(s): `{norm(defs[0][0])[:80] if defs else ''}`)",
                "unselected atoms receive a non-zero translation (stale values from a previous attempt or a non-zero fill)", zname)
        stores = []
        for n in walk_no_nested(att.node):
            tg = []
            if isinstance(n, ast.Assign):
                tg = n.targets
            elif isinstance(n, ast.AugAssign):
                tg = [n.target]
            for t in tg:
                if isinstance(t, ast.Subscript) and isinstance(t.value, ast.Name) and t.value.id == zname:
                    stores.append((n, t))
                elif isinstance(n, ast.AugAssign) and isinstance(t, ast.Name) and t.id == zname:
                    stores.append((n, t))
        ok_store = len(stores) == 1 and isinstance(stores[0][0], ast.Assign) and norm(stores[0][1].slice) == "context._moving_indices" and norm(stores[0][0].value) == "self.operation.calculate(context)"
        L.check(ok_store, "D1", "attempt_displacement:store", f"{rel}:{stores[0][0].lineno if stores else att.node.lineno}",
                f"the translation array has {len(stores)} store(s): " + "; ".join(norm(s[0])[:70] for s in stores) + " — expected the single `Z[context._moving_indices] = self.operation.calculate(context)`",
                "atoms not sharing the selected label are displaced, or group members get different displacements", "store")
        # the store precedes the write in the same iteration
        if stores:
            L.check(stores[0][0].lineno < spc.lineno, "D1", "attempt_displacement:order", f"{rel}:{spc.lineno}", "translation is stored after positions are written", "", "order")

    # ------------------------------------------------------------------ D2
    mi = [n for n in walk_no_nested(call.node) if isinstance(n, ast.Assign) and any("_moving_indices" in norm(t) for t in n.targets)]
    okmi = len(mi) == 1 and norm(mi[0].value) in ("np.where(self.labels == self.to_displace_labels)", "np.nonzero(self.labels == self.to_displace_labels)")
    L.check(okmi, "D2", "DisplacementMove.__call__:moving-indices", f"{rel}:{mi[0].lineno if mi else call.node.lineno}",
            f"moving indices are `{norm(mi[0].value)[:80] if mi else None}`, not where(labels == chosen label)", "atoms with other labels move / group members stay behind", "moving_indices")
    ch = [n for n in walk_no_nested(call.node) if isinstance(n, ast.Assign) and any(norm(t) == "self.to_displace_labels" for t in n.targets)]
    okch = len(ch) == 1 and norm(ch[0].value) in ("context.rng.choice(self.unique_labels)",)
    L.check(okch, "D2", "DisplacementMove.__call__:choice", f"{rel}:{ch[0].lineno if ch else call.node.lineno}",
            f"target label chosen by `{norm(ch[0].value)[:80] if ch else None}`, not a draw from unique_labels", "negative (do-not-touch) labels can be chosen", "choice")
    # unique_labels definition
    ul = [n for n in walk_no_nested(setl.node) if isinstance(n, (ast.Assign, ast.AnnAssign)) and norm(n.targets[0] if isinstance(n, ast.Assign) else n.target) == "self.unique_labels"]
    if len(ul) != 1:
        raise AnalysisError("set_labels: single assignment to self.unique_labels expected")
    uv = ul[0].value
    pred = None
    if isinstance(uv, ast.Call) and norm(uv.func) == "np.unique" and uv.args and isinstance(uv.args[0], ast.Subscript) and norm(uv.args[0].value) == "self.labels":
        pred = uv.args[0].slice
    if pred is None:
        L.violation("D2", "DisplacementMove.set_labels:filter", f"{rel}:{ul[0].lineno}", f"unique_labels = `{norm(uv)[:80]}` is not unique(labels[<non-negative filter>])", "negative labels become eligible", norm(uv)[:100])
    else:
        bad = None
        try:
            for x in range(-3, 4):
                got = bool(ev(pred, {"self.labels": x}))
                if got != (x >= 0):
                    bad = (x, got)
        except PredUnsupported as exc:
            raise AnalysisError(f"set_labels filter: {exc}") from exc
        L.check(bad is None, "D2", "DisplacementMove.set_labels:filter", f"{rel}:{ul[0].lineno}",
                f"eligibility filter `{norm(pred)}` is not `labels >= 0`" + (f": label {bad[0]} is {'kept' if bad[1] else 'dropped'}" if bad else ""),
                (f"label {bad[0]}" if bad else ""), norm(pred))
    # who writes labels / unique_labels
    nw = 0
    for fi in prog.iter_functions():
        for n in walk_no_nested(fi.node):
            tg = n.targets if isinstance(n, ast.Assign) else ([n.target] if isinstance(n, (ast.AnnAssign, ast.AugAssign)) else [])
            for t in tg:
                base = t.value if isinstance(t, ast.Subscript) else t
                if isinstance(base, ast.Attribute) and base.attr in ("labels", "unique_labels") and not norm(base).startswith(("context.", "self.context.")):
                    nw += 1
                    L.check(fi is setl, "D2", f"{fi.qualname}:writes-{base.attr}", f"{fi.module.relpath}:{n.lineno}",
                            f"`{norm(n)[:80]}` writes {base.attr} outside set_labels: labels and unique_labels can disagree", "a stale unique_labels offers a label no atom carries (or hides one)", norm(n)[:100])
    L.floor("writers of labels/unique_labels", nw, 2)

    # ------------------------------------------------------------------ D3
    cfg = build_cfg(call.node)
    tests = [n for n in cfg.nodes if n.kind == "test" and "unique_labels" in norm(n.ast)]
    if len(tests) != 1:
        raise AnalysisError("DisplacementMove.__call__: empty-selection test not found")
    tnode = tests[0]
    bad = None
    try:
        for k in range(0, 4):
            got = bool(ev(tnode.ast, {"len(self.unique_labels)": k}))
            if got != (k == 0):
                bad = k
    except PredUnsupported:
        # allow `not len(...)` / `len(...) == 0` forms only
        bad = None if norm(tnode.ast) in ("len(self.unique_labels) == 0", "not len(self.unique_labels)") else -1
    L.check(bad is None, "D3", "DisplacementMove.__call__:empty-test", f"{rel}:{tnode.lineno}", f"`{norm(tnode.ast)}` does not test for an empty set of eligible labels", "choice() over an empty array raises", norm(tnode.ast))
    succ = [(v, lab) for v, lab in cfg.succ(tnode) if lab == "true"]
    okd3 = bool(succ) and succ[0][0].kind == "stmt" and isinstance(succ[0][0].ast, ast.Return) and norm(succ[0][0].ast.value) == "self.register_failure()"
    L.check(okd3, "D3", "DisplacementMove.__call__:failure-return", f"{rel}:{tnode.lineno}", "the no-eligible-particle branch does not immediately `return self.register_failure()`", "the move reports success or touches the atoms although nothing is eligible", "return")
    rf = dm.methods.get("register_failure")
    L.check(rf is not None and any(isinstance(s, ast.Return) and norm(s.value) == "False" for s in rf.body()), "D3", "DisplacementMove.register_failure", rf.where if rf else dm.where, "register_failure does not return False", "", "False")

    # ------------------------------------------------------------------ D4
    cd = prog.cls("CompositeDisplacementMove")
    cc = cd.methods.get("__call__")
    if cc is None:
        raise AnalysisError("CompositeDisplacementMove.__call__ missing")
    body = cc.body()
    first = body[0] if body else None
    reset_ok = isinstance(first, ast.Expr) and isinstance(first.value, ast.Call) and norm(first.value.func) == "self.reset"
    rs = cd.methods.get("reset")
    reset_ok = reset_ok and rs is not None and any(isinstance(s, ast.Assign) and norm(s.targets[0]) == "self.displaced_labels" and norm(s.value) == "[]" for s in rs.body())
    L.check(reset_ok, "D4", "CompositeDisplacementMove.__call__:reset", cc.where, "the displaced-labels list is not emptied at the start of the call", "labels displaced in the previous call stay excluded", "reset")
    loops = [s for s in body if isinstance(s, ast.For) and norm(s.iter) == "self.moves"]
    if len(loops) != 1:
        raise AnalysisError("CompositeDisplacementMove.__call__: loop over self.moves not found")
    lp = loops[0]
    mv = norm(lp.target)
    linl = Inliner(cc.node)
    cand = [n for n in walk_no_nested(lp) if isinstance(n, ast.Assign) and isinstance(n.value, ast.Call) and norm(n.value.func) == "np.setdiff1d"]
    okc = False
    if len(cand) == 1:
        c = cand[0].value
        a0, a1 = norm(c.args[0]), norm(linl.inline(c.args[1])) if isinstance(c.args[1], ast.Name) else norm(c.args[1])
        # second argument: the non-None entries of self.displaced_labels
        second = c.args[1]
        src = None
        for n in walk_no_nested(lp):
            if isinstance(n, ast.Assign) and isinstance(second, ast.Name) and norm(n.targets[0]) == second.id:
                src = n.value
        if src is None:
            src = second
        ok_second = isinstance(src, ast.ListComp) and norm(src.generators[0].iter) == "self.displaced_labels" and len(src.generators[0].ifs) == 1 and norm(src.generators[0].ifs[0]) == f"{norm(src.generators[0].target)} is not None" and norm(src.elt) == norm(src.generators[0].target)
        okc = a0 == f"{mv}.unique_labels" and ok_second
    L.check(okc, "D4", "CompositeDisplacementMove.__call__:candidates", f"{rel}:{cand[0].lineno if cand else lp.lineno}",
            "candidates are not setdiff(child.unique_labels, labels already displaced in this call)", "the same particle is displaced twice in one composite call", norm(cand[0].value)[:120] if cand else "")
    ch = [n for n in walk_no_nested(lp) if isinstance(n, ast.Assign) and norm(n.targets[0]) == f"{mv}.to_displace_labels"]
    L.check(len(ch) == 1 and cand and norm(ch[0].value) == f"context.rng.choice({norm(cand[0].targets[0])})", "D4", "CompositeDisplacementMove.__call__:choice", f"{rel}:{ch[0].lineno if ch else lp.lineno}",
            "the child's target is not drawn from the filtered candidates", "already displaced particle chosen again", norm(ch[0].value) if ch else "")
    # exactly one registration per child on every path
    ccfg = build_cfg(cc.node)
    it = [n for n in ccfg.nodes if n.kind == "iter" and n.ast is lp]
    if len(it) != 1:
        raise AnalysisError("composite loop node not in CFG")
    itn = it[0]
    bad_seg = None
    npth = 0
    for path in ccfg.paths(max_back=2, include_exc=False):
        npth += 1
        segs = [[]]
        for node, lab in path:
            if node is itn:
                segs.append([])
                continue
            if node.ast is None:
                continue
            root = node.ast if node.kind != "iter" else node.ast.iter
            for c in (x for x in walk_no_nested(root) if isinstance(x, ast.Call)):
                if norm(c.func) in ("self.register_success", "self.register_failure"):
                    segs[-1].append(norm(c.func))
        for seg in segs[1:-1]:
            if len(seg) != 1:
                bad_seg = seg
    L.check(bad_seg is None, "D4", "CompositeDisplacementMove.__call__:one-registration", cc.where,
            f"a child iteration registers {len(bad_seg) if bad_seg is not None else 1} outcome(s) {bad_seg}", "the reported number of moved particles is wrong / a displaced label is not recorded and can be chosen again", "registration")
    regs = cd.methods.get("register_success")
    regf = cd.methods.get("register_failure")
    oks = regs is not None and any(isinstance(c, ast.Call) and norm(c.func) == "self.displaced_labels.append" and norm(c.args[0]) == f"{regs.params()[1]}.displaced_labels" for c in calls_in(regs.node))
    okf = regf is not None and any(isinstance(c, ast.Call) and norm(c.func) == "self.displaced_labels.append" and norm(c.args[0]) == "None" for c in calls_in(regf.node))
    L.check(oks and okf, "D4", "CompositeDisplacementMove.register_*", cd.where, "register_success/failure do not append the displaced label / None", "", "append")
    ret = [s for s in body if isinstance(s, ast.Return)]
    L.check(len(ret) == 1 and norm(ret[0].value) == "self.number_of_moved_particles > 0", "D4", "CompositeDisplacementMove.__call__:result", cc.where, "result is not `number_of_moved_particles > 0`", "", norm(ret[0].value) if ret else "")
    nm = cd.methods.get("number_of_moved_particles")
    oknm = False
    if nm is not None:
        r = [s for s in nm.body() if isinstance(s, ast.Return)]
        if len(r) == 1 and isinstance(r[0].value, ast.Call) and norm(r[0].value.func) in ("sum", "len") and len(r[0].value.args) == 1:
            g = r[0].value.args[0]
            if isinstance(g, (ast.GeneratorExp, ast.ListComp)) and len(g.generators) == 1:
                gen = g.generators[0]
                tv = norm(gen.target)
                oknm = (
                    norm(gen.iter) == "self.displaced_labels"
                    and len(gen.ifs) == 1
                    and norm(gen.ifs[0]) == f"{tv} is not None"
                    and (norm(g.elt) in ("True", "1") or norm(r[0].value.func) == "len")
                )
    L.check(oknm, "D4", "CompositeDisplacementMove.number_of_moved_particles", nm.where if nm else cd.where, "moved-particle count is not the number of non-None entries", "", "count")
    L.extra["composite_paths"] = npth
