"""C11 — a displacement move moves only the chosen particle.

D1 write set: the array handed to set_positions is (live positions) + Z, Z a fresh zero array of
   shape (len(atoms), 3) whose only store is Z[context._moving_indices] = operation.calculate(context)
D2 selection: _moving_indices = where(labels == chosen); the chosen label is pre-selected or drawn from
   unique_labels, which only set_labels writes, from labels[labels >= 0] (bounded predicate check)
D3 no eligible particle: the move returns through register_failure() before any write
D4 composite: candidates = setdiff(child.unique_labels, labels displaced so far in this call); the
   list is reset at entry and extended exactly once per child on every path; result = count of
   non-None entries > 0
"""

from __future__ import annotations

import ast

from ..cfg import build_cfg
from ..dataflow import Inliner, local_defs
from ..loader import AnalysisError, FuncInfo, Program, calls_in, norm, walk_no_nested
from ..minieval import PredUnsupported, ev
from ..report import Ledger
from ..absim import simp
from ..scenarios import run_all, scenarios


def check_trial(prog: Program, sc, rec) -> list[dict]:
    """D5 (abstract heap): within one activation of an attempt_* function every proposal write of the
    positions starts from the same version — a vetoed attempt is undone before the next one, so an
    accepted attempt displaces the group by ONE operation result."""
    out = []
    by_frame: dict[tuple, list] = {}
    for ev in rec.events:
        if ev.kind == "write" and isinstance(ev.data, dict) and ev.data.get("obj") == "atoms" and ev.data.get("comp") == "P" and ".attempt_" in ev.func:
            new = ev.data.get("new")
            if isinstance(new, tuple) and new and new[0] in ("new", "scaled") and not ev.data.get("raw"):
                by_frame.setdefault((ev.func, ev.frame), []).append(ev)
    for (func, frame), evs in by_frame.items():
        bases = [simp(e.data.get("old")) for e in evs]
        if all(b == bases[0] for b in bases):
            out.append({"status": "ok", "rule": "D5", "construct": f"{func}:{rec.driver}"})
        else:
            k = next(i for i, b in enumerate(bases) if b != bases[0])
            out.append({"status": "violation", "rule": "D5", "construct": f"{func}:attempt-base", "where": evs[k].where,
                        "detail": f"attempt #{k + 1} of one {func} call proposes from positions {str(bases[k])[:90]} instead of the positions the call started from ({str(bases[0])[:50]}): the previous vetoed attempt was not undone before retrying",
                        "witness": f"scenario {rec.driver}×{rec.table}: check_move vetoes the first attempt and accepts the second — the group is displaced by the SUM of both operation results (path {' ; '.join(rec.path[-5:])})",
                        "stmt": "attempt-base"})
    return out


def _persistent_buffer_idiom(L: Ledger, att: FuncInfo, abody, alp, rel: str, att0: FuncInfo) -> bool:
    """Second idiom for D1: the translation array is a per-move buffer kept between attempts and calls
    (`self._buf`, re-allocated as zeros when the atom count changes).  Then "zero outside the moving rows" is a
    typestate obligation: on every path to every exit of attempt_displacement the last store into the buffer is a
    zeroing store at the rows that were written (or of the whole array)."""
    from ..cfg import build_cfg

    pre = abody[: abody.index(alp)]
    bufattr = bufname = None
    for s_ in pre:
        if isinstance(s_, ast.Assign) and len(s_.targets) == 1 and isinstance(s_.targets[0], ast.Name) and isinstance(s_.value, ast.Attribute) and norm(s_.value.value) == "self":
            bufname, bufattr = s_.targets[0].id, s_.value.attr
    guards = [s_ for s_ in pre if isinstance(s_, ast.If)]
    if bufattr is None or len(guards) != 1:
        return False
    g = guards[0]
    alloc = [x for x in g.body if isinstance(x, ast.Assign) and norm(x.targets[0]) == f"self.{bufattr}"]
    if len(alloc) != 1 or len(g.body) != 1 or g.orelse:
        return False
    av = alloc[0].value
    inl = Inliner(att.node)
    okalloc = isinstance(av, ast.Call) and norm(av.func) in ("np.zeros", "numpy.zeros") and av.args and norm(inl.inline(av.args[0])).replace(" ", "") in ("(len(context.atoms),3)",)
    okguard = norm(inl.inline(g.test)).replace(" ", "") in (f"len(self.{bufattr})!=len(context.atoms)", f"self.{bufattr}.shape[0]!=len(context.atoms)", f"len(context.atoms)!=len(self.{bufattr})")
    where = f"{rel}:{g.lineno}"
    L.check(okalloc and okguard, "D1", "attempt_displacement:zeros", where,
            f"the reused translation buffer self.{bufattr} is not (re)allocated as zeros of shape (len(atoms), 3) whenever the atom count changed (`{norm(g.test)[:60]}` → `{norm(av)[:60]}`)",
            "a buffer of the wrong length, or with non-zero rows, is added to the positions", "buffer-alloc")
    # set_positions argument = (positions at the start of the attempt) + buffer
    spcs = [c for c in calls_in(alp) if isinstance(c.func, ast.Attribute) and c.func.attr == "set_positions"]
    if len(spcs) != 1:
        raise AnalysisError(f"attempt_displacement: expected one set_positions call in the retry loop, found {len(spcs)}")
    spc = spcs[0]
    arg = spc.args[0] if spc.args else None
    base_ok = False
    if isinstance(arg, ast.BinOp) and isinstance(arg.op, ast.Add):
        for a_, b_ in ((arg.left, arg.right), (arg.right, arg.left)):
            if isinstance(b_, ast.Name) and b_.id == bufname and norm(inl.inline(a_)) in ("context.atoms.positions", "context.atoms.get_positions()"):
                base_ok = True
    L.check(base_ok, "D1", "attempt_displacement:sum", f"{rel}:{spc.lineno}", f"set_positions receives `{norm(arg)[:90] if arg is not None else None}`, not (positions) + (translation buffer)",
            "atoms outside the selected group are placed at positions other than their current ones", "sum")
    # stores into the buffer along every path to every exit
    cfg = build_cfg(att.node)

    def store_kind(node):
        st = node.ast
        if node.kind != "stmt" or not isinstance(st, (ast.Assign, ast.AugAssign)):
            return None
        tg = st.targets[0] if isinstance(st, ast.Assign) else st.target
        if isinstance(tg, ast.Subscript) and isinstance(tg.value, ast.Name) and tg.value.id == bufname:
            idx = norm(tg.slice)
            if isinstance(st, ast.Assign) and norm(st.value) in ("0", "0.0"):
                return ("zero", idx)
            if isinstance(st, ast.Assign) and norm(st.value) == "self.operation.calculate(context)" and idx == "context._moving_indices":
                return ("write", idx)
            return ("other", idx)
        if isinstance(st, ast.Expr):
            return None
        return None

    bad = None
    n_paths = 0
    for path in cfg.paths(max_back=2, include_exc=False):
        n_paths += 1
        last = None
        for node, _lab in path:
            k = store_kind(node)
            if k is not None:
                last = (k, node)
                if k[0] == "other" and bad is None:
                    bad = ("other", node, path)
            elif node.kind == "stmt" and isinstance(node.ast, ast.Expr) and isinstance(node.ast.value, ast.Call) and norm(node.ast.value.func) == f"{bufname}.fill" and norm(node.ast.value.args[0]) in ("0", "0.0"):
                last = (("zero", ":"), node)
        if last is not None and last[0][0] == "write" and bad is None:
            exit_stmt = next((n for n, _l in reversed(path) if n.kind == "stmt" and isinstance(n.ast, ast.Return)), None)
            bad = ("dirty-exit", last[1], path, exit_stmt)
    if bad is None:
        L.ok("D1", "attempt_displacement:store", f"{rel}:{alp.lineno}", f"{n_paths} paths: every exit leaves the reused buffer zero")
    elif bad[0] == "other":
        L.violation("D1", "attempt_displacement:store", f"{rel}:{bad[1].lineno}", f"`{norm(bad[1].ast)[:80]}` writes the translation buffer in an unexpected way",
                    "atoms not sharing the selected label are displaced, or group members get different displacements", "store")
    else:
        ex = bad[3]
        L.violation("D1", "attempt_displacement:zeros", f"{rel}:{ex.lineno if ex is not None else bad[1].lineno}",
                    f"on the exit `{norm(ex.ast) if ex is not None else 'fall-through'}` the reused translation buffer self.{bufattr} still holds the last displacement at the moving rows (written at line {bad[1].lineno}, never zeroed on this path)",
                    "the next displacement by this move object (or the next child of a `move * n` composite) also shifts the previously vetoed particle: atoms that do not carry the selected label move", "buffer-dirty-exit")
    return True


def check_label_writers(prog: Program, L: Ledger, rule: str) -> None:
    """labels and the unique-label cache are written together, by set_labels only (or by private helpers that nothing
    but set_labels calls): a second writer lets the two disagree — a label no atom carries is offered, a label an atom
    still carries is handed out again, a negative label becomes eligible."""
    from ..normalize import flat

    dm = prog.cls("DisplacementMove")
    setl = dm.methods.get("set_labels")
    if setl is None:
        raise AnalysisError("DisplacementMove.set_labels missing")
    helpers = set(getattr(flat(prog, setl, dm), "inlined", []))
    for hq in sorted(helpers):
        nm = hq.split(".")[-1]
        for fi_ in prog.iter_functions():
            if fi_ is setl or fi_.qualname in helpers:
                continue
            if any((isinstance(c.func, ast.Attribute) and c.func.attr == nm) or (isinstance(c.func, ast.Name) and c.func.id == nm) for c in calls_in(fi_.node)):
                helpers.discard(hq)
    nw = 0
    for fi in prog.iter_functions():
        for n in walk_no_nested(fi.node):
            tg = n.targets if isinstance(n, ast.Assign) else ([n.target] if isinstance(n, (ast.AnnAssign, ast.AugAssign)) else [])
            for t in tg:
                base = t.value if isinstance(t, ast.Subscript) else t
                if isinstance(base, ast.Attribute) and base.attr in ("labels", "unique_labels") and not norm(base).startswith(("context.", "self.context.")):
                    nw += 1
                    L.check(fi is setl or fi.qualname in helpers, rule, f"{fi.qualname}:writes-{base.attr}", f"{fi.module.relpath}:{n.lineno}",
                            f"`{norm(n)[:80]}` writes {base.attr} outside set_labels: labels and unique_labels can disagree",
                            "a stale unique_labels offers a label no atom carries, hides one that an atom still carries (the next inserted particle gets it again) or admits a negative label", norm(n)[:100])
    L.floor("writers of labels/unique_labels", nw, 2)


def run(prog: Program, L: Ledger) -> None:
    L.explanation = (
        "C11 decided by dataflow and CFG rules on moves/displacement.py: the value handed to set_positions is sliced back to its "
        "sources (live positions plus a zero array whose single store is at the moving indices with one operation result, broadcast over "
        "the group); the moving indices are exactly the atoms whose label equals the chosen one; the chosen label comes from "
        "unique_labels, whose only writer filters labels ≥ 0 (predicate compared with the reference on a bounded integer domain); the "
        "no-eligible-particle path returns through register_failure() before any write; the composite excludes labels already displaced in "
        "the same call, registers exactly one outcome per child on every CFG path and reports the number of non-None entries. Not "
        "decided: constraints that move other atoms (excepted by the statement), vetoes by user check_move."
    )
    L.rule("D1", "positions written = live positions + Z, Z fresh zeros (len(atoms),3) with the single store Z[moving_indices] = operation.calculate(context)")
    L.rule("D2", "moving indices = where(labels == chosen); chosen drawn from unique_labels = unique(labels[labels >= 0]); labels/unique_labels written only by set_labels")
    L.rule("D3", "when no label is eligible the move returns register_failure() before any write")
    L.rule("D4", "composite: candidates exclude labels already displaced in this call; one registration per child per path; success iff some child moved")
    L.rule("D5", "every retry inside one attempt_* call proposes from the positions the call started from (a vetoed attempt is undone first), so an accepted attempt applies one operation result")
    scs = [s for s in scenarios(prog, with_composites=True, iterations=1) if any("Displacement" in t.label() or "Exchange" in t.label() or "Cell" in t.label() for t in s.table if not isinstance(t, int))]
    results = run_all(prog, "qsa.props.c11", scs)
    nt = 0
    for label, stats, findings, oks, err in results:
        if err:
            raise AnalysisError(f"scenario {label}: {err}")
        nt += stats["trials"]
        for rule, construct, n in oks:
            L.ok(rule, construct, "", f"{n} activations")
        for f in findings:
            L.violation(f["rule"], f["construct"], f["where"], f["detail"], f["witness"], f.get("stmt", ""))
    L.extra["abstract_trials"] = nt

    from ..normalize import flat
    from ..rowtrack import RowTracker

    dm = prog.cls("DisplacementMove")
    att0 = dm.methods.get("attempt_displacement")
    call0 = dm.methods.get("__call__")
    setl = dm.methods.get("set_labels")
    if not (att0 and call0 and setl):
        raise AnalysisError("DisplacementMove anchors missing")
    rel = att0.module.relpath
    # extracted public helpers (select_label, get_label_indices, calculate_translation …) are seen through; the anchors of
    # the rules stay calls
    KEEP11 = ("attempt_displacement", "check_move", "register_success", "register_failure", "set_labels", "reset", "calculate", "integrate", "on_atoms_changed", "to_dict", "from_dict")
    att = flat(prog, att0, dm, keep=KEEP11, public_methods=True)
    call = flat(prog, call0, dm, keep=KEEP11, public_methods=True)

    # ------------------------------------------------------------------ D1
    # abstract run of one attempt: the array handed to set_positions, followed back to its allocation and stores
    abody = att.body()
    aloops = [s_ for s_ in abody if isinstance(s_, (ast.For, ast.While))]
    if len(aloops) != 1:
        raise AnalysisError(f"attempt_displacement: expected one retry loop, found {len(aloops)}")
    alp = aloops[0]
    if _persistent_buffer_idiom(L, att, abody, alp, rel, att0):
        abody = None
    T = RowTracker(None, where="attempt_displacement")
    T.sum_operands = {"context.atoms.positions", "context.atoms.get_positions()"}  # `buf = buf + positions` forms the new positions; any other `buf = buf op e` is an update of the buffer
    for s_ in (abody[: abody.index(alp)] if abody is not None else []):
        if isinstance(s_, (ast.Assign, ast.AnnAssign)):
            T.stmt(s_)
        elif not (isinstance(s_, ast.Expr) and isinstance(s_.value, ast.Constant)):
            raise AnalysisError(f"attempt_displacement: statement `{norm(s_)[:60]}` before the retry loop is outside the recognised fragment")
    outside = set(T.objs)
    outside_ids = {id(o_) for o_ in T.objs.values()}  # the arrays that exist before the retry loop (a name may be re-bound to a new one inside it)
    spc = None
    for s_ in (alp.body if abody is not None else []):
        cs = [c for c in (calls_in(s_) if not isinstance(s_, (ast.If, ast.For, ast.While)) else calls_in(ast.Expr(value=s_.test)) if isinstance(s_, ast.If) else [])
              if isinstance(c.func, ast.Attribute) and c.func.attr == "set_positions"]
        if cs:
            spc = cs[0]
            break
        if isinstance(s_, (ast.Assign, ast.AnnAssign, ast.AugAssign)):
            T.stmt(s_)
        elif isinstance(s_, ast.Expr) and isinstance(s_.value, ast.Constant):
            continue
        else:
            raise AnalysisError(f"attempt_displacement: statement `{norm(s_)[:60]}` before the position write is outside the recognised fragment")
    n_sp = sum(1 for c in calls_in(att.node) if isinstance(c.func, ast.Attribute) and c.func.attr == "set_positions")
    if abody is not None:
        if spc is None or n_sp != 1:
            raise AnalysisError(f"attempt_displacement: expected one set_positions call at the top level of the retry loop, found {n_sp}")
        kws = {k.arg: k.value for k in spc.keywords}
        arg = T.subst(spc.args[0] if spc.args else kws.get("newpositions"))
        recv = norm(T.subst(spc.func.value))
        live = {"context.atoms.positions", "context.atoms.get_positions()"}
        zobj = zname = None
        if isinstance(arg, ast.BinOp) and isinstance(arg.op, ast.Add) and recv == "context.atoms":
            for a_, b_ in ((arg.left, arg.right), (arg.right, arg.left)):
                if norm(a_) in live and isinstance(b_, ast.Name) and b_.id in T.objs:
                    zname, zobj = b_.id, T.objs[b_.id]
        L.check(zobj is not None, "D1", "attempt_displacement:sum", f"{rel}:{spc.lineno}", f"set_positions receives `{norm(arg)[:90]}`, not (current positions) + (translation array)",
                "atoms outside the selected group are placed at positions other than their current ones", norm(arg)[:120])
        if zobj is not None:
            shp = norm(zobj.shape).replace(" ", "") if zobj.shape is not None else ""
            zero = zobj.kind == "array" and zobj.fill in ("0", "0.0") and (shp == "(len(context.atoms),3)" or (zobj.like is not None and norm(zobj.like) in live))
            fresh = id(zobj) not in outside_ids
            L.check(zero and fresh, "D1", "attempt_displacement:zeros", f"{rel}:{getattr(zobj.node, 'lineno', att0.node.lineno)}",
                    f"translation array `{norm(zobj.node)[:80]}` is not a zero array of shape (len(atoms), 3) allocated afresh for every attempt" + ("" if fresh else " (allocated once, before the retry loop)"),
                    "unselected atoms receive a non-zero translation (stale values from a previous attempt or a non-zero fill)", "zeros")
            st_ = zobj.stores
            ok_store = len(st_) == 1 and st_[0][0] == ("index", "context._moving_indices") and st_[0][1] == "self.operation.calculate(context)"
            L.check(ok_store, "D1", "attempt_displacement:store", f"{rel}:{st_[0][2] if st_ else att0.node.lineno}",
                    f"the translation array has {len(st_)} store(s): " + "; ".join(f"[{x[0][1] if len(x[0]) > 1 else x[0]}] <- {x[1][:50]}" for x in st_) + " — expected the single `Z[context._moving_indices] = self.operation.calculate(context)`",
                    "atoms not sharing the selected label are displaced, or group members get different displacements", "store")

    # ------------------------------------------------------------------ D2 / D3: exhaustive evaluation of __call__'s control skeleton
    from ..minieval import Raises, run_stmts

    cinl = Inliner(call.node)
    where_c = f"{rel}:{call0.node.lineno}"
    outcomes = {}
    mi_values = set()
    for preset in (False, True):
        for n_el in (0, 2):
            for att_ok in (True, False):
                events: list[tuple] = []
                env = {"self.to_displace_labels": 7 if preset else None, "len(self.unique_labels)": n_el, "self.unique_labels.size": n_el, "self.unique_labels.shape[0]": n_el,
                       "self.attempt_displacement(context)": att_ok, "context.rng.choice(self.unique_labels)": 5,
                       "self.register_failure()": False, "self.register_success()": True, "__trace__": []}

                def flush(_env=env, _events=events):
                    for t in _env["__trace__"]:
                        _events.append(("call", t))
                    _env["__trace__"].clear()

                def on_call(ftxt, c, _events=events, _flush=flush):
                    _flush()
                    _events.append(("call", norm(c)))

                def on_store(t, value, v, _env=env, _events=events, _flush=flush):
                    _flush()
                    tt = norm(t.elts[0]) if isinstance(t, ast.Tuple) and len(t.elts) == 1 else norm(t)
                    _events.append(("store", tt, norm(cinl.inline(value)), v, _env.get("self.to_displace_labels")))

                try:
                    run_stmts(call.body(), env, on_call, on_store=on_store)
                except Raises as exc:
                    events.append(("raises", exc.what))
                except PredUnsupported as exc:
                    raise AnalysisError(f"DisplacementMove.__call__: {exc}") from exc
                flush()
                outcomes[(preset, n_el, att_ok)] = (events, env.get("<return>"))

    def calls(evs, txt):
        return [i for i, e_ in enumerate(evs) if e_[0] == "call" and e_[1] == txt]

    def stores(evs, tgt):
        return [(i, e_) for i, e_ in enumerate(evs) if e_[0] == "store" and e_[1] == tgt]

    ok_mi = ok_ch = ok_d3 = ok_res = True
    why_mi = why_ch = why_d3 = why_res = ""
    for (preset, n_el, att_ok), (evs, ret) in outcomes.items():
        case = f"label {'preset' if preset else 'not set'}, {n_el} eligible labels, attempt {'succeeds' if att_ok else 'fails'}"
        ch = calls(evs, "context.rng.choice(self.unique_labels)")
        mi = stores(evs, "context._moving_indices")
        tl = stores(evs, "self.to_displace_labels")
        at = calls(evs, "self.attempt_displacement(context)")
        if not preset and n_el == 0:
            # D3: nothing eligible: failure, before any draw / write / attempt
            if ch or mi or tl or at or ret is not False or not calls(evs, "self.register_failure()") or calls(evs, "self.register_success()"):
                ok_d3, why_d3 = False, f"{case}: events {[e_[:2] for e_ in evs]}, returns {ret}"
            continue
        want_label = 7 if preset else 5
        if (preset and (ch or tl)) or (not preset and (len(ch) != 1 or len(tl) != 1 or tl[0][1][3] != 5)):
            ok_ch, why_ch = False, f"{case}: draws {len(ch)}, label stores {[e_[2] for _i, e_ in tl]}"
        if len(mi) != 1 or mi[0][1][4] != want_label or (at and mi[0][0] > at[0]):
            ok_mi, why_mi = False, f"{case}: moving-index stores {[e_[2] for _i, e_ in mi]} with chosen label {mi[0][1][4] if mi else None}"
        for _i, e_ in mi:
            mi_values.add(e_[2])
        good = len(at) == 1 and ret is att_ok and len(calls(evs, "self.register_success()")) == (1 if att_ok else 0) and len(calls(evs, "self.register_failure()")) == (0 if att_ok else 1)
        if not good:
            ok_res, why_res = False, f"{case}: events {[e_[:2] for e_ in evs]}, returns {ret}"
    okmi_txt = all(v in ("np.where(self.labels == self.to_displace_labels)", "np.nonzero(self.labels == self.to_displace_labels)", "np.where(self.to_displace_labels == self.labels)",
                         "np.flatnonzero(self.labels == self.to_displace_labels)") for v in mi_values) and bool(mi_values)
    L.check(ok_mi and okmi_txt, "D2", "DisplacementMove.__call__:moving-indices", where_c,
            f"moving indices are `{sorted(mi_values)}` {why_mi}: not where(labels == chosen label), set once before the attempt", "atoms with other labels move / group members stay behind", "moving_indices")
    L.check(ok_ch, "D2", "DisplacementMove.__call__:choice", where_c,
            f"target label is not (the preset label, else one draw from unique_labels): {why_ch}", "negative (do-not-touch) labels can be chosen", "choice")
    any_choice = [c for c in calls_in(call.node) if isinstance(c.func, ast.Attribute) and c.func.attr in ("choice", "integers", "permutation", "shuffle")]
    L.check(all(norm(c) == "context.rng.choice(self.unique_labels)" for c in any_choice), "D2", "DisplacementMove.__call__:choice-source", where_c,
            f"label drawn by `{[norm(c)[:60] for c in any_choice if norm(c) != 'context.rng.choice(self.unique_labels)']}`, not from unique_labels", "negative (do-not-touch) labels can be chosen", "choice-source")
    L.check(ok_res, "D2", "DisplacementMove.__call__:outcome", where_c, f"the attempt's outcome is not reported through register_success/register_failure: {why_res}", "", "outcome")
    # unique_labels definition
    ul = [n for n in walk_no_nested(setl.node) if isinstance(n, (ast.Assign, ast.AnnAssign)) and norm(n.targets[0] if isinstance(n, ast.Assign) else n.target) == "self.unique_labels"]
    if len(ul) != 1:
        raise AnalysisError("set_labels: single assignment to self.unique_labels expected")
    uv = ul[0].value
    pred = None
    if isinstance(uv, ast.Call) and norm(uv.func) == "np.unique" and uv.args and isinstance(uv.args[0], ast.Subscript) and norm(uv.args[0].value) == "self.labels":
        pred = uv.args[0].slice
    if pred is None:
        L.violation("D2", "DisplacementMove.set_labels:filter", f"{rel}:{ul[0].lineno}", f"unique_labels = `{norm(uv)[:80]}` is not unique(labels[<non-negative filter>])", "negative labels become eligible", norm(uv)[:100])
    else:
        bad = None
        try:
            for x in range(-3, 4):
                got = bool(ev(pred, {"self.labels": x}))
                if got != (x >= 0):
                    bad = (x, got)
        except PredUnsupported as exc:
            raise AnalysisError(f"set_labels filter: {exc}") from exc
        L.check(bad is None, "D2", "DisplacementMove.set_labels:filter", f"{rel}:{ul[0].lineno}",
                f"eligibility filter `{norm(pred)}` is not `labels >= 0`" + (f": label {bad[0]} is {'kept' if bad[1] else 'dropped'}" if bad else ""),
                (f"label {bad[0]}" if bad else ""), norm(pred))
    check_label_writers(prog, L, "D2")

    # ------------------------------------------------------------------ D3
    L.check(ok_d3, "D3", "DisplacementMove.__call__:failure-return", where_c, f"with no eligible label the move does not return register_failure() before any draw, write or attempt: {why_d3}",
            "the move reports success, draws from an empty set (raises) or touches the atoms although nothing is eligible", "return")
    rf = dm.methods.get("register_failure")
    L.check(rf is not None and any(isinstance(s, ast.Return) and norm(s.value) == "False" for s in rf.body()), "D3", "DisplacementMove.register_failure", rf.where if rf else dm.where, "register_failure does not return False", "", "False")

    # ------------------------------------------------------------------ D4
    cd = prog.cls("CompositeDisplacementMove")
    cc0 = cd.methods.get("__call__")
    if cc0 is None:
        raise AnalysisError("CompositeDisplacementMove.__call__ missing")
    cc = flat(prog, cc0, cd, keep=KEEP11, public_methods=True)
    body = cc.body()
    first = body[0] if body else None
    reset_ok = isinstance(first, ast.Expr) and isinstance(first.value, ast.Call) and norm(first.value.func) == "self.reset"
    rs = cd.methods.get("reset")
    reset_ok = reset_ok and rs is not None and any(isinstance(s, ast.Assign) and norm(s.targets[0]) == "self.displaced_labels" and norm(s.value) == "[]" for s in rs.body())
    if not reset_ok and first is not None and isinstance(first, ast.Assign) and norm(first.targets[0]) == "self.displaced_labels" and norm(first.value) in ("[]", "list()"):
        reset_ok = True
    L.check(reset_ok, "D4", "CompositeDisplacementMove.__call__:reset", cc0.where, "the displaced-labels list is not emptied at the start of the call", "labels displaced in the previous call stay excluded", "reset")
    loops = [s for s in body if isinstance(s, ast.For) and norm(s.iter) == "self.moves"]
    if len(loops) != 1:
        raise AnalysisError("CompositeDisplacementMove.__call__: loop over self.moves not found")
    lp = loops[0]
    mv = norm(lp.target)
    linl = Inliner(cc.node)
    def _as_setdiff(v):
        """`np.setdiff1d(C, T)` — or its spelled-out form `C[np.isin(C, T, invert=True)]` / `C[~np.isin(C, T)]` (what numpy's
        setdiff1d does for unique inputs) — as a (C, T) call-like pair; None otherwise"""
        if isinstance(v, ast.Call) and norm(v.func) in ("np.setdiff1d", "numpy.setdiff1d") and len(v.args) >= 2:
            return v  # as written: its arguments are looked at (and inlined where needed) by the rule itself
        v = linl.inline(v)
        if isinstance(v, ast.Call) and norm(v.func) in ("np.setdiff1d", "numpy.setdiff1d") and len(v.args) >= 2:
            return v
        if isinstance(v, ast.Subscript):
            m_ = linl.inline(v.slice)
            inv = False
            if isinstance(m_, ast.UnaryOp) and isinstance(m_.op, ast.Invert):
                m_, inv = linl.inline(m_.operand), True
            if isinstance(m_, ast.Call) and norm(m_.func) in ("np.isin", "numpy.isin", "np.in1d") and len(m_.args) >= 2:
                inv = inv != any(k.arg == "invert" and isinstance(k.value, ast.Constant) and k.value.value is True for k in m_.keywords)
                strip = lambda e_: (strip(e_.func.value) if isinstance(e_, ast.Call) and isinstance(e_.func, ast.Attribute) and e_.func.attr in ("ravel", "flatten", "copy") and not e_.args else e_)  # noqa: E731
                base_, arg0_ = strip(linl.inline(v.value)), strip(linl.inline(m_.args[0]))
                if inv and norm(base_) == norm(arg0_):
                    return ast.Call(func=ast.Name(id="np.setdiff1d", ctx=ast.Load()), args=[base_, m_.args[1]], keywords=[])
        return None

    cand = [n for n in walk_no_nested(lp) if isinstance(n, ast.Assign) and isinstance(n.targets[0], ast.Name) and _as_setdiff(n.value) is not None
            and not any(isinstance(n2, ast.Assign) and n2 is not n and isinstance(n2.value, ast.Name) and n2.value.id == n.targets[0].id and False for n2 in ())]
    # the inliner may see the same construct through a local and its use: keep the outermost definition (the one whose name
    # the choice draws from)
    if len(cand) > 1:
        used = {x.id for c_ in calls_in(lp) if isinstance(c_.func, ast.Attribute) and c_.func.attr == "choice" for a_ in c_.args[:1] for x in ast.walk(a_) if isinstance(x, ast.Name)}
        cand = [n for n in cand if n.targets[0].id in used] or cand[-1:]
    okc = False
    aliases: set[str] = set()
    if len(cand) == 1 and isinstance(cand[0].targets[0], ast.Name):
        c = _as_setdiff(cand[0].value)
        aliases = {cand[0].targets[0].id}
        grew = True
        while grew:
            grew = False
            for n in walk_no_nested(lp):
                if isinstance(n, ast.Assign) and isinstance(n.value, ast.Name) and n.value.id in aliases and isinstance(n.targets[0], ast.Name) and n.targets[0].id not in aliases:
                    aliases.add(n.targets[0].id)
                    grew = True
        a0 = norm(c.args[0])
        src = linl.inline(c.args[1]) if len(c.args) > 1 else None
        if isinstance(src, ast.Call) and isinstance(src.func, ast.Name) and src.func.id in ("tuple", "list") and len(src.args) == 1 and isinstance(src.args[0], (ast.GeneratorExp, ast.ListComp)):
            g_ = src.args[0]
            src = ast.copy_location(ast.ListComp(elt=g_.elt, generators=g_.generators), src)
        # second argument: the non-None entries of self.displaced_labels
        ok_second = isinstance(src, ast.ListComp) and len(src.generators) == 1 and norm(src.generators[0].iter) == "self.displaced_labels" and len(src.generators[0].ifs) == 1 \
            and norm(src.generators[0].ifs[0]) == f"{norm(src.generators[0].target)} is not None" and norm(src.elt) == norm(src.generators[0].target)
        # … or a local list that starts empty before the loop and receives, on the success path only, exactly what
        # register_success records for the child (decided below from the exhaustive evaluation of one iteration)
        running = None
        if not ok_second and isinstance(c.args[1] if len(c.args) > 1 else None, ast.Name):
            nm_ = c.args[1].id
            defs_ = [st_ for st_ in walk_no_nested(cc.node) if isinstance(st_, (ast.Assign, ast.AnnAssign)) and st_.value is not None
                     and any(isinstance(t_, ast.Name) and t_.id == nm_ for t_ in (st_.targets if isinstance(st_, ast.Assign) else [st_.target]))]
            before_loop = [st_ for st_ in body[: body.index(lp)] if st_ in defs_]
            muts_ = [c_ for c_ in calls_in(cc.node) if isinstance(c_.func, ast.Attribute) and isinstance(c_.func.value, ast.Name) and c_.func.value.id == nm_]
            in_loop = {id(x) for x in ast.walk(lp)}
            if len(defs_) == 1 and len(before_loop) == 1 and norm(defs_[0].value) in ("[]", "list()") and muts_ and all(c_.func.attr == "append" and len(c_.args) == 1 and id(c_) in in_loop for c_ in muts_):
                rs_ = cd.methods.get("register_success")
                rec = None
                if rs_ is not None:
                    pn = [a_.arg for a_ in rs_.node.args.args][1:2]
                    for c_ in calls_in(rs_.node):
                        if norm(c_.func) == "self.displaced_labels.append" and len(c_.args) == 1 and pn:
                            rec = norm(c_.args[0]).replace(pn[0] + ".", mv + ".")
                if rec is not None and all(norm(c_.args[0]) == rec for c_ in muts_):
                    running = (nm_, rec)
        okc = a0 == f"{mv}.unique_labels" and (ok_second or running is not None)
    L.check(okc, "D4", "CompositeDisplacementMove.__call__:candidates", f"{rel}:{cand[0].lineno if cand else lp.lineno}",
            "candidates are not setdiff(child.unique_labels, labels already displaced in this call)", "the same particle is displaced twice in one composite call", norm(cand[0].value)[:120] if cand else "")
    # one child iteration, exhaustively: number of candidates × outcome of the child
    it_out = {}
    lbody = lp.body
    # a target may have been pre-selected on the child before the call (None, one that is still a candidate, one that is not)
    PRE = {"none": None, "candidate": 7, "gone": 9}
    for k, moved, pre in [(k_, m_, p_) for k_ in (0, 2) for m_ in (True, False) for p_ in PRE]:
        for _once in (0,):
            events = []
            env = {f"{mv}(context)": moved, "__trace__": [], f"{mv}.displaced_labels": ("child-label",), f"{mv}.to_displace_labels": PRE[pre]}
            for al in aliases:
                env[f"len({al})"] = k
                env[f"{al}.size"] = k
                env[f"{al}.shape[0]"] = k
                env[f"context.rng.choice({al})"] = 5
                env[al] = ([5, 7] if k else [])
            env["__modelled__"] = {al: env[al] for al in aliases}

            def flush(_env=env, _events=events):
                for t in _env["__trace__"]:
                    _events.append(("call", t))
                _env["__trace__"].clear()

            def on_call(ftxt, c, _events=events, _flush=flush):
                _flush()
                _events.append(("call", norm(c)))

            def on_store(t, value, v, _events=events, _flush=flush):
                _flush()
                _events.append(("store", norm(t), v))

            try:
                r = run_stmts(lbody, env, on_call, on_store=on_store)
            except Raises as exc:
                events.append(("raises", exc.what))
                r = "raise"
            except PredUnsupported as exc:
                raise AnalysisError(f"CompositeDisplacementMove.__call__ loop body: {exc}") from exc
            flush()
            it_out[(k, moved, pre)] = (events, r, dict(env))
    ok_choice = ok_reg = True
    why_choice = why_reg = ""
    rs_fn = cd.methods.get("register_success")
    rs_par = [a_.arg for a_ in rs_fn.node.args.args][1:2] if rs_fn is not None else []
    rs_app = [norm(c_.args[0]) for c_ in calls_in(rs_fn.node) if norm(c_.func) == "self.displaced_labels.append" and len(c_.args) == 1] if rs_fn is not None else []
    for (k, moved, pre), (evs, r, env_end) in it_out.items():
        case = f"{k} candidates, child {'moves' if moved else 'fails'}, pre-selected target: {pre}"
        regs_ = [e_[1] for e_ in evs if e_[0] == "call" and e_[1].startswith(("self.register_success", "self.register_failure"))]
        draws = [e_ for e_ in evs if e_[0] == "call" and ".choice(" in e_[1]]
        tl = [e_ for e_ in evs if e_[0] == "store" and e_[1] == f"{mv}.to_displace_labels"]
        childcalls = [i for i, e_ in enumerate(evs) if e_[0] == "call" and e_[1] == f"{mv}(context)"]
        if k == 0:
            if regs_ != ["self.register_failure()"] or draws or tl or childcalls or r in ("return", "break", "raise"):
                ok_reg, why_reg = False, f"{case}: {[e_[:2] for e_ in evs]}"
            continue
        # the target the child works on when it is called: the last value stored before the call, else the pre-selected one;
        # it must be one of the filtered candidates (the draw, or a pre-selected label that is verified to be one of them)
        before = [t_ for t_ in tl if childcalls and evs.index(t_) < childcalls[0]]
        target = before[-1][2] if before else PRE[pre]
        if len(draws) != 1 or len(tl) > 1 or len(childcalls) != 1 or len(before) != len(tl) or target not in (5, 7):
            ok_choice, why_choice = False, f"{case}: draws {[d[1][:50] for d in draws]}, label stores {[(t_[1], t_[2]) for t_ in tl]}, child calls {len(childcalls)}, target at the child call {target!r} (candidates are 5 and 7)"
        if running is not None:
            apps = [e_[1] for e_ in evs if e_[0] == "call" and e_[1].startswith(f"{running[0]}.append(")]
            if apps != ([f"{running[0]}.append({running[1]})"] if moved else []):
                ok_reg, why_reg = False, f"{case}: the running list of displaced labels receives {apps}"
        want = [f"self.register_success({mv})"] if moved else ["self.register_failure()"]
        if moved and len(regs_) == 1 and regs_[0].startswith("self.register_success(") and regs_[0] != want[0] and len(rs_par) == 1 and rs_app == rs_par:
            # register_success(label) records its argument: the argument must be the label the child displaced — the
            # child's own record, or a value equal to the target the child was called with, in every case
            arg_txt = regs_[0][len("self.register_success("):-1]
            if arg_txt == f"{mv}.displaced_labels":
                continue
            try:
                val = ev(ast.parse(arg_txt, mode="eval").body, env_end)
            except (PredUnsupported, Raises, SyntaxError):
                val = ("unknown",)
            if val != target:
                ok_reg, why_reg = False, f"{case}: the label recorded is `{arg_txt}` = {val!r} while the child displaced {target!r}"
            continue
        if regs_ != want or r in ("return", "break", "raise"):
            ok_reg, why_reg = False, f"{case}: registrations {regs_}, expected {want}"
    other_draws = [c for c in calls_in(lp) if isinstance(c.func, ast.Attribute) and c.func.attr in ("choice", "integers", "permutation") and not (len(c.args) >= 1 and isinstance(c.args[0], ast.Name) and c.args[0].id in aliases)]
    L.check(ok_choice and not other_draws, "D4", "CompositeDisplacementMove.__call__:choice", f"{rel}:{lp.lineno}",
            f"the child's target is not one draw from the filtered candidates, stored before the child is called: {why_choice} {[norm(c)[:50] for c in other_draws]}", "already displaced particle chosen again", "choice")
    L.check(ok_reg, "D4", "CompositeDisplacementMove.__call__:one-registration", cc0.where,
            f"a child iteration does not register exactly its own outcome: {why_reg}", "the reported number of moved particles is wrong / a displaced label is not recorded and can be chosen again", "registration")
    # the guarantees above are those of CompositeDisplacementMove: every way of combining displacement moves with + and *
    # must build that class (dispatch evaluated by the checker-owned interpreter of C17)
    from . import c17

    L.rule("D6", "every +/* combination of displacement moves (any parenthesisation, up to 4 operands) is a CompositeDisplacementMove")
    disp = c17.family_dispatch(prog, "D")
    wrong = [(txt, cls) for txt, cls in disp if cls != cd.name]
    L.check(not wrong, "D6", "DisplacementMove:+/*-dispatch", dm.where,
            "combinations of displacement moves that are not a CompositeDisplacementMove: " + "; ".join(f"{t} -> {c}" for t, c in wrong[:4]),
            f"`{wrong[0][0]}` is a {wrong[0][1]}: its children pick their targets independently, so one call can displace the same particle twice and number_of_moved_particles is not available" if wrong else "", "dispatch")
    L.extra["dispatch_expressions"] = len(disp)
    regs = cd.methods.get("register_success")
    regf = cd.methods.get("register_failure")
    oks = regs is not None and any(isinstance(c, ast.Call) and norm(c.func) == "self.displaced_labels.append" and norm(c.args[0]) == f"{regs.params()[1]}.displaced_labels" for c in calls_in(regs.node))
    okf = regf is not None and any(isinstance(c, ast.Call) and norm(c.func) == "self.displaced_labels.append" and norm(c.args[0]) == "None" for c in calls_in(regf.node))
    if regs is not None and len(rs_par) == 1 and rs_app == rs_par:
        oks = True  # records its argument; what the call site passes is decided above, case by case
    L.check(oks and okf, "D4", "CompositeDisplacementMove.register_*", cd.where, "register_success/failure do not append the displaced label / None", "", "append")
    ret = [s for s in body if isinstance(s, ast.Return)]
    L.check(len(ret) == 1 and norm(linl.inline(ret[0].value)) in ("self.number_of_moved_particles > 0", "self.number_of_moved_particles >= 1", "bool(self.number_of_moved_particles)", "self.number_of_moved_particles != 0"), "D4", "CompositeDisplacementMove.__call__:result", cc0.where, "result is not `number_of_moved_particles > 0`", "", norm(ret[0].value) if ret else "")
    nm = cd.methods.get("number_of_moved_particles")
    oknm = False
    if nm is not None:
        nmf = flat(prog, nm, cd)
        ninl = Inliner(nmf.node)
        r = [s for s in nmf.body() if isinstance(s, ast.Return)]
        rv_ = ninl.inline(r[0].value) if len(r) == 1 and r[0].value is not None else None
        if isinstance(rv_, ast.Call) and norm(rv_.func) in ("sum", "len") and len(rv_.args) == 1:
            r = [ast.Return(value=rv_)]
            g = ninl.inline(rv_.args[0])
            if isinstance(g, (ast.GeneratorExp, ast.ListComp)) and len(g.generators) == 1:
                gen = g.generators[0]
                tv = norm(gen.target)
                oknm = (
                    norm(gen.iter) == "self.displaced_labels"
                    and len(gen.ifs) == 1
                    and norm(gen.ifs[0]) == f"{tv} is not None"
                    and (norm(g.elt) in ("True", "1") or norm(r[0].value.func) == "len")
                )
    L.check(oknm, "D4", "CompositeDisplacementMove.number_of_moved_particles", nm.where if nm else cd.where, "moved-particle count is not the number of non-None entries", "", "count")

