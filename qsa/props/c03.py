"""C03 — a rejected or failed trial leaves the system exactly as it was.

Decided by the path-sensitive effect/typestate analysis (qsa.absim/trial): for every driver ×
move-table scenario and every abstract path of one move-loop iteration,
U1 after a *rejected* trial every atoms component (positions, momenta, other per-atom arrays /
   atom count and order, cell, constraints) carries its pre-trial version term
U2 after a *failed* trial (move returned falsy) likewise — the in-move undo is complete
U4 nothing leaks: pending insertions/deletions and the particle-count change are cleared, and the
   moves' one-shot pre-selections are None
U5 loop shape: a truthy move result is followed by exactly one of save_state/revert_state, a
   falsy one by neither; no exception on the way
(U3 — snapshots must be copies, not aliases of live storage — is enforced by the heap model: an
alias snapshot makes the restore a no-op and U1/U2 fail.)
"""

from __future__ import annotations

import ast

from ..absim import EMPTY_ATOMS, FreshAtoms, Idx, NoneV, Opaque, Ref, V, simp
from ..loader import AnalysisError, ClassInfo, Program, norm, walk_no_nested
from ..report import Ledger
from ..scenarios import run_all, scenarios
from .. import asetab

COMP_NAMES = {"P": "positions", "M": "momenta", "A": "per-atom arrays / atom count and order", "C": "cell", "K": "constraints"}


def one_shot_slots(prog: Program, ci: ClassInfo) -> tuple[set[str], set[str]]:
    """Move slots designed to be cleared after a call: assigned None in ``__init__`` and (a) assigned
    None in some register_* method, or (b) described in the class docstring as reset after each move.
    Returns (must be None after a failed call, must be None after a successful call)."""
    def assigned(f, want_none):
        out = set()
        for n in walk_no_nested(f.node):
            if isinstance(n, (ast.Assign, ast.AnnAssign)):
                val = n.value
                is_none = isinstance(val, ast.Constant) and val.value is None
                if val is not None and is_none == want_none:
                    for t in (n.targets if isinstance(n, ast.Assign) else [n.target]):
                        if isinstance(t, ast.Attribute) and norm(t.value) == "self":
                            out.add(t.attr)
        return out

    init_none: set[str] = set()
    for f in prog.super_chain(ci, "__init__"):
        init_none |= assigned(f, True)
    cleared: set[str] = set()
    set_on_success: set[str] = set()
    for name in ("register_success", "register_failure"):
        for f in prog.super_chain(ci, name):
            cleared |= assigned(f, True)
            if name == "register_success":
                set_on_success |= assigned(f, False)
    documented: set[str] = set()
    for c in prog.mro_classes(ci):
        doc = c.docstring() or ""
        lines = doc.splitlines()
        for i, ln in enumerate(lines):
            low = " ".join(lines[i:i + 2]).lower()
            head = ln.strip().split(":")[0].strip()
            if head.isidentifier() and ("reset after each move" in low or "reset to none after move" in low):
                documented.add(head)
    cand = (cleared | documented) & init_none
    return cand, cand - set_on_success


def _last_writer(rec, comp: str):
    w = None
    for ev in rec.events:
        if ev.kind in ("write", "raw-write") and isinstance(ev.data, dict) and ev.data.get("obj") == "atoms" and ev.data.get("comp") == comp:
            w = ev
    return w


def _first_writer(rec, comp: str):
    for ev in rec.events:
        if ev.kind in ("write", "raw-write") and isinstance(ev.data, dict) and ev.data.get("obj") == "atoms" and ev.data.get("comp") == comp:
            return ev
    return None


def check_trial(prog: Program, sc, rec) -> list[dict]:
    out = []
    scen = f"{rec.driver}×{rec.table}"
    path = " ; ".join(rec.path[-8:])

    def viol(rule, construct, where, detail, witness, stmt=""):
        out.append({"status": "violation", "rule": rule, "construct": construct, "where": where, "detail": detail, "witness": witness, "stmt": stmt})

    def ok(rule, construct):
        out.append({"status": "ok", "rule": rule, "construct": construct})

    if rec.outcome == "raised":
        viol("U5", f"{scen}:raises", "", f"a trial of {rec.move_cls} under {rec.driver} raises `{rec.raised}` on the path [{path}]",
             f"scenario {scen}, path {path}", rec.raised[:80])
        return out
    # ---- U5 loop shape
    evaluated = any(c.endswith(".evaluate") for c in rec.calls)
    if rec.both:
        viol("U5", f"{rec.driver}.step", "", "both save_state and revert_state ran for one trial", f"{scen}: {path}")
    elif evaluated and rec.outcome == "failed":
        viol("U5", f"{rec.driver}.step", "", "criteria were evaluated but the trial was neither saved nor reverted", f"{scen}: {path}")
    elif not evaluated and rec.outcome in ("accepted", "rejected"):
        viol("U5", f"{rec.driver}.step", "", "state saved/reverted for a trial that never reached its criteria", f"{scen}: {path}")
    else:
        ok("U5", f"{rec.driver}.step[{rec.move_cls}]")
    if rec.outcome not in ("rejected", "failed"):
        return out
    rule = "U1" if rec.outcome == "rejected" else "U2"
    # ---- components restored
    for comp, label in COMP_NAMES.items():
        b, a = simp(rec.before[comp]), simp(rec.after[comp])
        if a == b:
            ok(rule, f"{scen}:{label}")
            continue
        fw = _first_writer(rec, comp)
        lw = _last_writer(rec, comp)
        wfunc = fw.func if fw else "?"
        where = fw.where if fw else ""
        viol(rule, f"{wfunc}:{label}@{scen}", where,
             f"after a {rec.outcome} trial of {rec.move_cls} under {rec.driver} the {label} are not what they were: written by `{fw.detail if fw else '?'}` in {wfunc}"
             + (f", last touched by `{lw.detail}` in {lw.func} ({lw.where})" if lw and lw is not fw else "")
             + f"; version after = {str(a)[:120]}, before = {str(b)[:60]}",
             f"scenario {scen}; abstract path: {path}", f"{comp}")
    # ---- U4 nothing leaks
    ctx = rec.ctx_after
    for slot in ("_added_indices", "_deleted_indices"):
        if slot in ctx:
            v = ctx[slot]
            empty = (isinstance(v, list) and not v) or (isinstance(v, Idx) and v.empty)
            if empty:
                ok("U4", f"{sc.ctx_cls.name}.{slot}")
            else:
                viol("U4", f"{sc.ctx_cls.name}.{slot}", sc.ctx_cls.where, f"after a {rec.outcome} trial `{slot}` still holds {v!r}: the pending change leaks into the next move",
                     f"scenario {scen}; path {path}", slot)
    for slot in ("_added_atoms", "_deleted_atoms"):
        if slot in ctx:
            v = ctx[slot]
            if v == EMPTY_ATOMS:
                ok("U4", f"{sc.ctx_cls.name}.{slot}")
            else:
                viol("U4", f"{sc.ctx_cls.name}.{slot}", sc.ctx_cls.where, f"after a {rec.outcome} trial `{slot}` is not empty", f"scenario {scen}; path {path}", slot)
    if "particle_delta" in ctx:
        v = ctx["particle_delta"]
        if v == 0 or (isinstance(v, V) and v.term[0] == "count" and not v.term[1]):
            ok("U4", f"{sc.ctx_cls.name}.particle_delta")
        else:
            viol("U4", f"{sc.ctx_cls.name}.particle_delta", sc.ctx_cls.where, f"after a {rec.outcome} trial particle_delta is {v!r}, not 0", f"scenario {scen}; path {path}", "particle_delta")
    if "number_of_exchange_particles" in ctx:
        if ctx["number_of_exchange_particles"] == rec.ctx_before.get("number_of_exchange_particles"):
            ok("U4", f"{sc.ctx_cls.name}.number_of_exchange_particles")
        else:
            viol("U4", f"{sc.ctx_cls.name}.number_of_exchange_particles", sc.ctx_cls.where,
                 f"particle counter changed by a {rec.outcome} trial: {ctx['number_of_exchange_particles']!r}", f"scenario {scen}; path {path}", "number_of_exchange_particles")
    m = rec.machine

    def family(obj, seen=None):
        """the attempted move and the moves it is composed of"""
        seen = seen if seen is not None else set()
        if obj in seen:
            return seen
        seen.add(obj)
        kids = m.heap.get(obj, {}).get("moves")
        if isinstance(kids, list):
            for k in kids:
                if hasattr(k, "obj") and k.obj in m.heap:
                    family(k.obj, seen)
        return seen

    attempted = family(rec.move_obj)
    for obj in sc.move_objs:
        ci = m.cls_of[obj]
        after_fail, after_success = one_shot_slots(prog, ci)
        if obj not in attempted:
            # a move that was not part of this trial: its pre-selections must simply be untouched; its result records
            # (what it displaced last time) are not pre-selections of the next move
            after_fail = after_success = {s_ for s_ in (after_fail | after_success) if s_.startswith("to_")}
        for slot in sorted(after_fail if rec.outcome == "failed" else after_success):
            v = m.heap[obj].get(slot)
            if isinstance(v, NoneV):
                ok("U4", f"{ci.name}.{slot}")
            else:
                viol("U4", f"{ci.name}.{slot}", ci.where, f"after a {rec.outcome} trial the one-shot pre-selection `{slot}` of {ci.name} is still set ({v!r})",
                     f"scenario {scen}; path {path}: the next call silently reuses the stale target", slot)
        if "labels" in m.heap[obj]:
            before_labels = ("labels", ("init", "A"))
            v = m.heap[obj]["labels"]
            if isinstance(v, V) and v.term == before_labels:
                ok("U4", f"{ci.name}.labels")
            elif rec.index == 0:
                viol("U4", f"{ci.name}.labels", ci.where, f"labels of {ci.name} changed by a {rec.outcome} trial: {v!r}", f"scenario {scen}; path {path}", "labels")
    return out


_ATOMS_WRITES = {"positions": "positions", "set_positions": "positions", "set_cell": "cell", "cell": "cell", "set_array": "per-atom array", "set_momenta": "momenta",
                 "set_velocities": "momenta", "set_constraint": "constraints", "constraints": "constraints", "set_masses": "masses", "set_tags": "tags"}


def _snapshot_freshness(prog: Program, L: Ledger) -> None:
    """U6: what a rejected trial writes back must be the state *before that trial*.  The abstract heap starts each scenario
    with snapshots equal to the live state; that is true of a run only if every snapshot slot the context's revert_state
    chain writes back into the atoms is re-taken from the live atoms when a run starts (the driver's validate_simulation
    chain, called by irun) — otherwise whatever the user changed between construction / the last accepted trial and this run
    is silently undone by the first rejected trial."""
    import ast as _ast

    from ..loader import norm as _norm, walk_no_nested as _walk

    L.rule("U6", "every snapshot slot that a context's revert_state chain writes back into the atoms is re-taken from the live atoms on the run-start path of every driver using that context")
    drv = prog.cls("Driver")
    irun = prog.lookup_method(drv, "irun")
    if irun is None or not any(isinstance(c, _ast.Call) and _norm(c.func) == "self.validate_simulation" for c in _ast.walk(irun.node)):
        raise AnalysisError("Driver.irun no longer calls self.validate_simulation(): the run-start path of rule U6 is not recognised")
    n = 0
    for d in prog.subclasses(drv, strict=True):
        k = prog.classvar_class(d, "default_context")
        if k is None:
            continue
        restored: dict[str, tuple[str, str, int]] = {}
        for f in prog.super_chain(k, "revert_state"):
            for st in _walk(f.node):
                comp = None
                vals = []
                if isinstance(st, _ast.Assign):
                    for t in st.targets:
                        b = t
                        while isinstance(b, _ast.Subscript):
                            b = b.value
                        if isinstance(b, _ast.Attribute) and _norm(b.value) == "self.atoms" and b.attr in _ATOMS_WRITES:
                            comp = _ATOMS_WRITES[b.attr]
                            vals = [st.value]
                elif isinstance(st, _ast.Expr) and isinstance(st.value, _ast.Call) and isinstance(st.value.func, _ast.Attribute) and _norm(st.value.func.value) == "self.atoms" \
                        and st.value.func.attr in _ATOMS_WRITES:
                    comp = _ATOMS_WRITES[st.value.func.attr]
                    vals = list(st.value.args) + [kw.value for kw in st.value.keywords]
                    if st.value.func.attr == "set_array" and vals and isinstance(vals[0], _ast.Constant):
                        comp = str(vals[0].value)
                if comp is None:
                    continue
                for v in vals:
                    for a in _ast.walk(v):
                        if isinstance(a, _ast.Attribute) and isinstance(a.value, _ast.Name) and a.value.id == "self" and a.attr.startswith("last_"):
                            restored.setdefault(a.attr, (comp, f.qualname, st.lineno))
        refreshed = set()
        for f in prog.super_chain(d, "validate_simulation"):
            for st in _walk(f.node):
                if isinstance(st, (_ast.Assign, _ast.AnnAssign)):
                    for t in (st.targets if isinstance(st, _ast.Assign) else [st.target]):
                        if isinstance(t, _ast.Attribute) and _norm(t.value) == "self.context":
                            refreshed.add(t.attr)
                if isinstance(st, _ast.Expr) and isinstance(st.value, _ast.Call) and _norm(st.value.func) == "self.context.save_state":
                    refreshed |= set(restored)
        for slot, (comp, fq, line) in sorted(restored.items()):
            n += 1
            cons = f"{d.name}/{k.name}.{slot}"
            if slot in refreshed:
                L.ok("U6", cons, f"{k.module.relpath}:{line}")
            else:
                L.violation("U6", f"{cons}:stale-snapshot", f"{k.module.relpath}:{line}",
                            f"{fq} writes `{slot}` back into the atoms' {comp}, but no validate_simulation of {d.name} re-takes it when a run starts: the snapshot is as old as the construction or the last accepted trial",
                            f"build {d.name}, change the atoms' {comp} (or run, then change them), run again: the first rejected trial puts the old {comp} back instead of the pre-trial ones", slot)
    L.floor("restored snapshot slots × drivers (rule U6)", n, 6)


def run(prog: Program, L: Ledger) -> None:
    L.explanation = (
        "C03 decided by a path-sensitive effect/typestate analysis: the simulation state is abstracted to components "
        "(positions, momenta, other per-atom arrays incl. atom count/order, cell, constraints; calculator cache; context and move "
        "slots) holding symbolic version terms with an algebra for insert/delete/re-insert and cell scaling; aliases of live storage "
        "are distinguished from copies (ASE setters write in place — validated against the installed ASE source). quansino's own "
        "MonteCarlo.step, move __call__/attempt_* bodies, context save/revert/reset chains and driver revert overrides are "
        "interpreted over this heap for every discovered driver × move-table scenario (every shipped move compatible with the "
        "driver's context, composites built like m*2 (same object twice), a+b, and mixed tables); undecidable conditions (user "
        "check_move, random draws, acceptance, empty selections) branch both ways, retry loops are unrolled 0/1/2 times; every "
        "path is explored and each completed trial is checked. Not decided: bit equality of array contents beyond 'restored from a "
        "copy of the pre-trial value', per-atom array key sets added by Atoms.extend, user check_move callables that mutate atoms."
    )
    L.rule("U1", "after a rejected trial every atoms component carries its pre-trial version (driver-level undo covers the move's writes)")
    L.rule("U2", "after a failed trial (move returned falsy) every atoms component carries its pre-trial version (in-move undo complete; step() may skip revert_state)")
    L.rule("U4", "after a rejected/failed trial pending insertions/deletions, particle_delta, the particle counter, labels and the moves' one-shot pre-selections are clean")
    L.rule("U5", "MonteCarlo.step: truthy move result ⇒ criteria then exactly one of save_state/revert_state; falsy ⇒ neither; no exception on any explored path")
    for k, v in asetab.validate_atoms_setters().items():
        L.assume(f"ASE {k}: {v}")
    L.assume("reinsert_atoms(atoms, removed, indices) inverts `del atoms[indices]` when `removed` is the sub-structure taken before deletion (decided separately under C19)")
    L.assume("atoms appended in the current trial are not referenced by any constraint")

    # the lemma the term algebra rests on (reinsert inverts delete) is discharged here as well, so a
    # change that breaks it is reported under this property too
    from . import c19

    L.rule("UL", "lemma used by U1: reinsert_atoms(atoms, removed, indices) inverts `del atoms[indices]` (scatter/gather shape rules of C19/R1)")
    c19.check_reinsert(prog, L, "UL")
    scs = scenarios(prog, with_composites=True, iterations=1)
    if L.tier == "thorough":
        scs += [s for s in scenarios(prog, with_composites=False, iterations=2)]
        # two different moves in one table, two consecutive trials: what one move leaves behind meets the other
        scs += [s for s in scenarios(prog, with_composites=True, iterations=2) if len(s.table) == 2]
    L.floor("driver × move-table scenarios", len(scs), 20)
    results = run_all(prog, "qsa.props.c03", scs)
    tot_paths = tot_trials = 0
    per = {}
    for label, stats, findings, oks, err in results:
        if err:
            raise AnalysisError(f"scenario {label}: {err}")
        tot_paths += stats["paths"]
        tot_trials += stats["trials"]
        per[label] = stats
        for rule, construct, n in oks:
            L.ok(rule, construct, "", f"{n} trials")
        for f in findings:
            L.violation(f["rule"], f["construct"], f["where"], f["detail"], f["witness"], f.get("stmt", ""))
    L.extra["scenarios"] = per
    L.extra["abstract_paths"] = tot_paths
    L.extra["trials_checked"] = tot_trials
    L.floor("abstract trials checked", tot_trials, 500)
    # last: its instance floor must not pre-empt a violation the machine has already established (a revert_state that no
    # longer restores a component is U1's finding, not an analysis error of U6)
    _snapshot_freshness(prog, L)
