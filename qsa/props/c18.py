"""C18 — adaptive force-bias step length stays in range and shrinks with uncertainty.

For every update function registered in AdaptiveForceBias.update_functions (discovered), with
v ≥ 0 the variation coefficient and ref > 0 the reference variance:
R1 value 1 at v = 0, value 1/2 at v = ref, limit 0 for v → ∞          (symbolic folding)
R2 non-increasing in v: the derivative's sign is decided symbolically (tanh/atanh rewritten to
   exp/log), with a grid cross-check of the derivative formula
R3 delta = min + (max − min)·update(v)  (normal form), hence delta ∈ [min, max] for max ≥ min
R4 each fallback (no committee data) returns a value built only from reference_variance
R5 AdaptiveForceBias.step adapts delta before the inherited step uses it
"""

from __future__ import annotations

import ast

from ..cfg import build_cfg
from ..dataflow import Inliner
from ..derived import CacheResolver
from ..loader import AnalysisError, ClassInfo, FuncInfo, Program, norm, walk_no_nested
from ..normalize import flat
from ..report import Ledger
from ..sym import DIFFERENT, EQUAL, Translator, Unsupported, Vocabulary, monotone, same, sp


def _exception_path_returns(body, tr: ast.Try, handler: ast.ExceptHandler) -> list[ast.Return]:
    """Returns reachable on the path where `handler` of the top-level try `tr` ran.  Locals are tracked as
    None / an expression; `x is None` / `x is not None` tests on tracked locals are decided, other tests fork."""
    out: list[ast.Return] = []

    def resolve(e, env):
        seen = 0
        while isinstance(e, ast.Name) and e.id in env and env[e.id] is not None and seen < 8:
            e = env[e.id]
            seen += 1
        return e

    def decide(test, env):
        if isinstance(test, ast.Compare) and len(test.ops) == 1 and isinstance(test.ops[0], (ast.Is, ast.IsNot)) and isinstance(test.comparators[0], ast.Constant) \
                and test.comparators[0].value is None and isinstance(test.left, ast.Name) and test.left.id in env:
            v = resolve(test.left, env)
            if isinstance(v, ast.Constant) and v.value is None:
                return isinstance(test.ops[0], ast.Is)
            if isinstance(v, (ast.Call, ast.BinOp, ast.List, ast.Tuple, ast.Dict)) or (isinstance(v, ast.Constant) and v.value is not None):
                return None if isinstance(v, ast.Call) else isinstance(test.ops[0], ast.IsNot)
        return None

    def go(stmts, env) -> bool:
        """True when the block falls through"""
        for k, st in enumerate(stmts):
            if st is tr:
                if not go(handler.body, env):
                    return False
                continue
            if isinstance(st, (ast.Assign, ast.AnnAssign)) and st.value is not None:
                for t in (st.targets if isinstance(st, ast.Assign) else [st.target]):
                    if isinstance(t, ast.Name):
                        env[t.id] = st.value
            elif isinstance(st, ast.Return):
                r = ast.copy_location(ast.Return(value=resolve(st.value, env) if st.value is not None else None), st)
                out.append(r)
                return False
            elif isinstance(st, ast.Raise):
                return False
            elif isinstance(st, ast.If):
                d = decide(st.test, env)
                rest = stmts[k + 1:]
                if d is None:
                    e1, e2 = dict(env), dict(env)
                    if go(st.body, e1):
                        go(rest, e1)
                    if go(st.orelse, e2):
                        go(rest, e2)
                    return False
                if not go(st.body if d else st.orelse, env):
                    return False
        return True

    go(list(body), {})
    return out


_NONNEG_FUNCS = {"np.std", "np.var", "np.abs", "np.absolute", "np.fabs", "abs", "np.linalg.norm", "np.sqrt", "np.square", "len", "np.exp", "np.ptp", "np.nanstd", "np.nanvar"}
_SIGN_PRESERVING = {"np.mean", "np.sum", "np.max", "np.min", "np.amax", "np.amin", "np.median", "np.average", "np.nanmean", "np.asarray", "np.array", "float", "np.atleast_1d", "np.maximum", "np.minimum", "max", "min", "sum"}


def _sign(e: ast.expr, env: dict, depth: int = 0) -> str:
    """'nonneg' | 'any' (raw data / may be negative) | 'unknown' (a construct the analysis does not know)"""
    if depth > 12:
        return "unknown"
    if isinstance(e, ast.Constant):
        return "nonneg" if isinstance(e.value, (int, float)) and not isinstance(e.value, bool) and e.value >= 0 else ("any" if isinstance(e.value, (int, float)) else "unknown")
    if isinstance(e, ast.Name):
        if e.id in env:
            v_ = env[e.id]
            if isinstance(v_, list):  # bound in several places (branches of a try / if): every binding must be non-negative
                signs_ = [_sign(x_, env, depth + 1) for x_ in v_]
                return "unknown" if "unknown" in signs_ else ("nonneg" if all(s_ == "nonneg" for s_ in signs_) else "any")
            return _sign(v_, env, depth + 1)
        return "any"
    if isinstance(e, ast.Attribute):
        if norm(e) == "self.reference_variance":
            return "nonneg"  # a configured scale: assumed non-negative (stated in the evidence)
        if e.attr in ("T",):
            return _sign(e.value, env, depth + 1)
        return "any"
    if isinstance(e, ast.Subscript):
        return _sign(e.value, env, depth + 1) if not (isinstance(e.value, ast.Attribute) and e.value.attr == "results") else "any"
    if isinstance(e, ast.UnaryOp):
        if isinstance(e.op, ast.UAdd):
            return _sign(e.operand, env, depth + 1)
        return "any" if isinstance(e.op, ast.USub) else "unknown"
    if isinstance(e, ast.BinOp):
        a, b = _sign(e.left, env, depth + 1), _sign(e.right, env, depth + 1)
        if isinstance(e.op, ast.Pow) and isinstance(e.right, ast.Constant) and isinstance(e.right.value, int) and e.right.value % 2 == 0:
            return "nonneg" if a != "unknown" else "unknown"
        if "unknown" in (a, b):
            return "unknown"
        if isinstance(e.op, (ast.Add, ast.Mult, ast.Div, ast.FloorDiv)):
            return "nonneg" if a == b == "nonneg" else "any"
        return "any"
    if isinstance(e, ast.Call):
        fn = norm(e.func)
        if fn == "__unknown__":
            return "unknown"
        if fn in _NONNEG_FUNCS:
            return "nonneg"
        if fn in _SIGN_PRESERVING and e.args:
            signs = [_sign(a_, env, depth + 1) for a_ in e.args if not isinstance(a_, ast.Starred)]
            return "unknown" if "unknown" in signs else ("nonneg" if all(s_ == "nonneg" for s_ in signs) else "any")
        if fn in ("np.full", "np.full_like") and len(e.args) >= 2:
            return _sign(e.args[1], env, depth + 1)
        if isinstance(e.func, ast.Attribute) and e.func.attr in ("mean", "sum", "max", "min", "copy", "astype", "reshape", "ravel", "flatten"):
            return _sign(e.func.value, env, depth + 1)
        if isinstance(e.func, ast.Attribute) and e.func.attr in ("std", "var"):
            return "nonneg"
        # a helper of the package whose normal form is one returned expression: the sign of that expression
        prog_, fi_ = env.get("__prog__"), env.get("__fi__")
        if prog_ is not None and fi_ is not None:
            from ..normalize import resolve_callee

            r_ = resolve_callee(prog_, fi_, e, fi_.cls)
            if r_ is not None:
                hb = [b_ for b_ in flat(prog_, r_[0], r_[0].cls).body() if not (isinstance(b_, ast.Expr) and isinstance(b_.value, ast.Constant))]
                if len(hb) == 1 and isinstance(hb[0], ast.Return) and hb[0].value is not None:
                    params_ = [a_.arg for a_ in r_[0].node.args.args if a_.arg not in ("self", "cls")]
                    env2 = {k_: v_ for k_, v_ in env.items() if k_.startswith("__")}
                    for p_, a_ in zip(params_, e.args):
                        env2[p_] = ast.Constant(value=0) if _sign(a_, env, depth + 1) == "nonneg" else ast.Name(id="__signed__", ctx=ast.Load())
                    for k_ in e.keywords:
                        if k_.arg:
                            env2[k_.arg] = ast.Constant(value=0) if _sign(k_.value, env, depth + 1) == "nonneg" else ast.Name(id="__signed__", ctx=ast.Load())
                    return _sign(hb[0].value, env2, depth + 1)
        return "unknown"
    if isinstance(e, ast.IfExp):
        a, b = _sign(e.body, env, depth + 1), _sign(e.orelse, env, depth + 1)
        return "unknown" if "unknown" in (a, b) else ("nonneg" if a == b == "nonneg" else "any")
    return "unknown"


def _check_inputs_untouched(prog: Program, L: Ledger, afb, fns) -> None:
    """R7: the update functions and the schemes are functions of their arguments: they never change, in place, an array
    they were given (np.asarray / a slice / .T of an argument is the same memory) — the variance recorded by the driver, or
    the caller's array, would otherwise be rescaled by every evaluation."""
    from ..purity import array_params, inplace_writes

    n = 0
    for f0 in fns:
        if f0 is None:
            continue
        f = flat(prog, f0, afb, public_methods=True)
        allp, arr = array_params(f0.node)
        allp.discard("atoms")
        n += 1
        ws = inplace_writes(f.body(), params=allp, direct=arr | allp)  # every argument may be an array here (per-coordinate variance)
        for node, al in ws:
            L.violation("R7", f"{f0.qualname}:mutates-argument", f"{f0.module.relpath}:{node.lineno}",
                        f"`{norm(node)[:90]}` changes `{al}` in place, which may share storage with an argument of {f0.name} (np.asarray of a float array is that array)",
                        "call it twice on the same per-coordinate variance: the second call sees the rescaled values — delta leaves [min_delta, max_delta]; the variance the driver recorded no longer matches delta", norm(node)[:100])
        if not ws:
            L.ok("R7", f"{f0.qualname}:arguments-untouched", f0.where)
    L.floor("update functions / schemes checked for in-place changes of their arguments", n, 4)


def _check_nonnegative_schemes(prog: Program, L: Ledger, afb, schemes: ast.Dict) -> None:
    """R6: the update functions are monotone maps of [0, ∞) onto (0, 1]; a scheme that can return a negative coefficient
    leaves that domain (tanh/exp of a negative argument exceed 1 → delta above max_delta, non-monotone in the variance)."""
    n = 0
    for k, v in zip(schemes.keys, schemes.values):
        f0 = prog.lookup_method(afb, v.attr) if isinstance(v, ast.Attribute) else None
        if f0 is None:
            continue
        f = flat(prog, f0, afb, public_methods=True)
        # statements are followed in source order: a local that is bound again (`v = std(c); v = v / mean(|c|)`, the
        # rebinding form of `v /= …`) has, at each point, the sign of its latest binding; a name bound in several arms keeps
        # the weakest of them
        env: dict = {"__prog__": prog, "__fi__": f}
        returns: list[tuple[ast.Return, str]] = []

        def mark(sg_: str):
            return ast.Constant(value=0) if sg_ == "nonneg" else (ast.Name(id="__signed__", ctx=ast.Load()) if sg_ == "any" else ast.Call(func=ast.Name(id="__unknown__", ctx=ast.Load()), args=[], keywords=[]))

        def walk(stmts_, env_):
            for st in stmts_:
                if isinstance(st, (ast.Assign, ast.AnnAssign)) and st.value is not None:
                    tg_ = st.targets if isinstance(st, ast.Assign) else [st.target]
                    if len(tg_) == 1 and isinstance(tg_[0], ast.Name):
                        env_[tg_[0].id] = mark(_sign(st.value, env_))
                elif isinstance(st, ast.AugAssign) and isinstance(st.target, ast.Name):
                    env_[st.target.id] = mark(_sign(ast.BinOp(left=ast.Name(id=st.target.id, ctx=ast.Load()), op=st.op, right=st.value), env_))
                elif isinstance(st, ast.Return) and st.value is not None:
                    returns.append((st, _sign(st.value, env_)))
                elif isinstance(st, (ast.If, ast.Try, ast.For, ast.While, ast.With)):
                    arms = [getattr(st, fld) for fld in ("body", "orelse", "finalbody") if getattr(st, fld, None)] + [h.body for h in getattr(st, "handlers", []) or []]
                    outs = []
                    for arm in arms:
                        e2 = dict(env_)
                        walk(arm, e2)
                        outs.append(e2)
                    for k_ in {k for o_ in outs for k in o_}:
                        vals_ = [o_.get(k_, env_.get(k_)) for o_ in outs] + ([env_[k_]] if k_ in env_ and isinstance(st, (ast.If, ast.For, ast.While)) and not getattr(st, "orelse", None) else [])
                        if any(v_ is None for v_ in vals_):
                            env_.pop(k_, None)
                            continue
                        sgs_ = [_sign(v_, env_) if not isinstance(v_, (str,)) else v_ for v_ in vals_ if not k_.startswith("__")]
                        if k_.startswith("__"):
                            continue
                        env_[k_] = mark("unknown" if "unknown" in sgs_ else ("nonneg" if all(s_ == "nonneg" for s_ in sgs_) else "any"))

        walk(f.body(), env)
        for r, sg in returns:
            n += 1
            if sg == "unknown":
                raise AnalysisError(f"{f.qualname}: sign of the returned coefficient `{norm(r.value)[:80]}` is outside the sign rules")
            L.check(sg == "nonneg", "R6", f"{f.qualname}:non-negative", f"{f.module.relpath}:{r.lineno}",
                    f"the variation coefficient `{norm(r.value)[:110]}` can be negative (a spread divided / combined with a signed quantity): the update functions are only maps of [0, ∞) into (0, 1]",
                    "committee whose mean is negative or near zero (forces average out): update(v<0) > 1, delta exceeds max_delta and is no longer monotone in the variance", norm(r.value)[:120])
    L.floor("scheme return values sign-checked", n, 2)


def _stmt_index(body, node) -> int:
    """position of the top-level statement that contains `node`"""
    for i, st in enumerate(body):
        if any(x is node for x in ast.walk(st)):
            return i
    return -1


def _delta_alias_rule(prog: Program, L: Ledger) -> None:
    """R8: between two adaptations the stored delta is what update_delta computed: no method changes, in place, an object
    that may BE self.delta (a local bound to it, or to the value of a helper that can return it uncopied)."""
    L.rule("R8", "no method of the force-bias drivers changes in place a local that may be the stored delta itself (bound to self.delta, or to a helper's return value that can be self.delta uncopied)")
    fb = prog.cls("ForceBias")
    n = 0

    def is_delta(e):
        return isinstance(e, ast.Attribute) and e.attr in ("delta", "_delta") and norm(e.value) == "self"

    def returns_delta(ci, mname, depth=0):
        m = prog.lookup_method(ci, mname)
        if m is None or depth > 2:
            return False
        for r in walk_no_nested(m.node):
            if isinstance(r, ast.Return) and r.value is not None and may_be_delta(ci, m, r.value, r.lineno, depth + 1):
                return True
        return False

    def may_be_delta(ci, fi, e, line, depth=0):
        if is_delta(e):
            return True
        if isinstance(e, ast.IfExp):
            return may_be_delta(ci, fi, e.body, line, depth) or may_be_delta(ci, fi, e.orelse, line, depth)
        if isinstance(e, ast.Call) and isinstance(e.func, ast.Attribute) and norm(e.func.value) == "self" and not e.args and not e.keywords:
            return returns_delta(ci, e.func.attr, depth)
        if isinstance(e, ast.Call) and norm(e.func) in ("np.asarray", "np.asanyarray") and e.args:
            return may_be_delta(ci, fi, e.args[0], line, depth)
        if isinstance(e, ast.Name):
            binds = [st for st in walk_no_nested(fi.node) if isinstance(st, ast.Assign) and len(st.targets) == 1 and isinstance(st.targets[0], ast.Name)
                     and st.targets[0].id == e.id and st.lineno < line]
            if binds:
                last = max(binds, key=lambda st: st.lineno)
                return may_be_delta(ci, fi, last.value, last.lineno, depth)
        return False

    for ci in prog.subclasses(fb):
        for fi in ci.methods.values():
            for st in walk_no_nested(fi.node):
                tgt = None
                if isinstance(st, ast.AugAssign):
                    tgt = st.target
                elif isinstance(st, ast.Assign) and len(st.targets) == 1 and isinstance(st.targets[0], ast.Subscript):
                    tgt = st.targets[0]
                outs = [k.value for c in ([st.value] if isinstance(st, ast.Expr) and isinstance(st.value, ast.Call) else []) for k in c.keywords if k.arg == "out"]
                for t in ([tgt] if tgt is not None else []) + outs:
                    base = t
                    while isinstance(base, ast.Subscript):
                        base = base.value
                    if not isinstance(base, ast.Name):
                        continue
                    n += 1
                    if may_be_delta(ci, fi, base, st.lineno):
                        L.violation("R8", f"{fi.qualname}:{base.id}", f"{fi.module.relpath}:{st.lineno}",
                                    f"`{norm(st)[:80]}` changes `{base.id}` in place, and `{base.id}` may be the stored delta itself (it is bound to self.delta or to a helper that can return it uncopied): after the step the stored delta is no longer the value the adaptation computed",
                                    "array delta (forces scheme): delta after a step is delta·zeta, outside [min_delta, max_delta]", base.id)
                    else:
                        L.ok("R8", f"{fi.qualname}:{base.id}@{norm(st)[:40]}", f"{fi.module.relpath}:{st.lineno}")
    L.floor("in-place statements on locals in the force-bias drivers", n, 3)


def run(prog: Program, L: Ledger) -> None:
    L.explanation = (
        "C18 decided symbolically on AdaptiveForceBias: each update function found in the update_functions table is translated to a "
        "sympy expression u(v, ref) with v ≥ 0, ref > 0; the anchor values u(0)=1, u(ref)=1/2 and the limit u(∞)=0 are folded "
        "symbolically (tanh(atanh x)=x, exp(-log 2)=1/2); monotonicity is decided from the sign of ∂u/∂v after rewriting hyperbolic "
        "functions to exponentials (cross-checked on a grid of the derivative formula); delta is value-numbered to min+(max−min)·u, so "
        "delta ∈ [min,max], =max at v=0, midpoint at v=ref, →min; fallbacks must return reference_variance only. Not decided: "
        "floating-point saturation of tanh/exp."
    )
    L.rule("R1", "update(0) = 1, update(ref) = 1/2, lim_{v→∞} update(v) = 0")
    L.rule("R2", "∂update/∂v ≤ 0 for all v ≥ 0, ref > 0")
    L.rule("R3", "delta = min_delta + (max_delta − min_delta)·update(variation)")
    L.rule("R4", "without committee data each variation-coefficient getter returns reference_variance (broadcast)")
    L.rule("R5", "step() calls update_delta() before the inherited force-bias step on every path")
    _delta_alias_rule(prog, L)
    L.rule("R7", "update functions and schemes never change an argument in place (directly or through np.asarray / a view)")
    L.rule("R6", "every scheme returns a non-negative variation coefficient (structural sign analysis: spreads, absolute values, counts and their sums / products / quotients)")
    L.assume("reference_variance is configured non-negative")

    afb = prog.cls("AdaptiveForceBias")
    init = afb.methods.get("__init__")
    if init is None:
        raise AnalysisError("AdaptiveForceBias.__init__ missing")
    table = None
    schemes = None
    for st in walk_no_nested(init.node):
        if isinstance(st, ast.Assign) and isinstance(st.value, ast.Dict):
            t = norm(st.targets[0])
            if t == "self.update_functions":
                table = st.value
            elif t == "self.schemes":
                schemes = st.value
    if table is None or schemes is None:
        raise AnalysisError("AdaptiveForceBias: update_functions / schemes tables not found")
    funcs = []
    for k, v in zip(table.keys, table.values):
        if not (isinstance(k, ast.Constant) and isinstance(v, ast.Attribute) and norm(v.value) == "self"):
            raise AnalysisError(f"update_functions entry `{norm(k)}: {norm(v)}` is not name → self.method")
        f = prog.lookup_method(afb, v.attr)
        if f is None:
            raise AnalysisError(f"update function {v.attr} not found")
        funcs.append((k.value, f))
    L.floor("update functions in the table", len(funcs), 2)

    v_ = sp.Symbol("v", nonnegative=True)
    ref = sp.Symbol("ref", positive=True)
    for name, f in funcs:
        vp = f.params()[1]
        vocab = Vocabulary({vp: ("v", {"nonnegative": True}), "self.reference_variance": ("ref", {"positive": True})})
        vocab.symbols["v"] = v_
        vocab.symbols["ref"] = ref
        t = Translator(vocab)
        t.module = f.module
        caches = CacheResolver(prog, afb, vocab, lambda _v=vocab: Translator(_v))
        t.hooks.append(caches.hook)
        try:
            r = t.run_block(flat(prog, f, afb).body())
        except Unsupported as exc:
            raise AnalysisError(f"{f.qualname}: {exc}") from exc
        if r is None:
            raise AnalysisError(f"{f.qualname}: no return")
        u = sp.sympify(t.tr(r[1]))
        unknown = [k for k, s in vocab.unknown.items() if s in u.free_symbols]
        if unknown:
            raise AnalysisError(f"{f.qualname}: update function depends on unrecognised sources {unknown}")
        caches.check(L, "R1", f"{f.qualname}", "delta is no longer the midpoint at the (current) reference variance, while the no-committee fallback still uses the current one")
        cons = f"{f.qualname}"
        u0 = sp.simplify(u.subs(v_, 0))
        L.check(u0 == 1, "R1", f"{cons}[v=0]", f.where, f"update({name})(0) = {u0}, not 1: delta at zero variance is not max_delta", f"variance 0 → delta = min + (max−min)·{u0}", "v=0")
        uh = sp.simplify(u.subs(v_, ref).rewrite(sp.log))
        uh = sp.nsimplify(sp.simplify(uh))
        L.check(sp.simplify(uh - sp.Rational(1, 2)) == 0, "R1", f"{cons}[v=ref]", f.where, f"update({name})(ref) = {uh}, not 1/2: delta at the reference variance is not the midpoint",
                f"variance = reference → delta = min + (max−min)·{uh}", "v=ref")
        try:
            lim = sp.limit(u, v_, sp.oo)
        except Exception as exc:  # pragma: no cover
            raise AnalysisError(f"{f.qualname}: limit undecided: {exc}") from exc
        L.check(lim == 0, "R1", f"{cons}[v→∞]", f.where, f"update({name})(v→∞) = {lim}, not 0: delta does not tend to min_delta", f"huge variance → delta → min + (max−min)·{lim}", "v=inf")
        # monotone: abstract monotonicity domain first, derivative-formula grid as cross-check
        mono = monotone(u, v_)
        d = sp.diff(u, v_)
        grid_bad = None
        for a in [0, sp.Rational(1, 100), sp.Rational(1, 3), 1, 3, 25, 400]:
            for b in [sp.Rational(1, 50), sp.Rational(1, 2), 1, 7]:
                val = sp.N(d.subs({v_: a, ref: b}), 30)
                if val > sp.Float("1e-25"):
                    grid_bad = (a, b, val)
        if mono == "+" or grid_bad is not None:
            wit = f"∂u/∂v = {sp.N(grid_bad[2], 6)} at v={grid_bad[0]}, ref={grid_bad[1]}" if grid_bad else "the expression is non-decreasing in v by construction"
            L.violation("R2", cons, f.where, f"update({name}) increases with the variance: {wit}", f"a larger committee variance gives a larger delta ({wit})", "monotone")
        elif mono in ("-", "0"):
            L.ok("R2", cons, f.where, f"monotonicity domain: {mono}")
        else:
            raise AnalysisError(f"{f.qualname}: monotonicity of `{u}` in v is outside the structural rules (sum / signed product / increasing elementary function)")

    # ---------------------------------------------------------------- R3
    ud0 = afb.methods.get("update_delta")
    if ud0 is None:
        raise AnalysisError("update_delta missing")
    ud = flat(prog, ud0, afb, public_methods=True)  # extracted public helpers (an `interpolate_delta(weight)`) are seen through
    ucfg = build_cfg(ud.node)
    dnodes = [n_ for n_ in ucfg.nodes if n_.kind == "stmt" and isinstance(n_.ast, (ast.Assign, ast.AnnAssign)) and any(norm(t) == "self.delta" for t in (n_.ast.targets if isinstance(n_.ast, ast.Assign) else [n_.ast.target]))]
    every = bool(dnodes)
    skipping = None
    for path in ucfg.paths(max_back=1, include_exc=False):
        if path[-1][0] is ucfg.exit and not any(n_ in dnodes for n_, _ in path):
            every = False
            skipping = [norm(n_.ast)[:60] for n_, lab in path if n_.kind == "test"]
    L.check(every, "R3", "update_delta:every-path", ud0.where,
            f"a path through update_delta returns without recomputing delta (after testing {skipping})",
            "the step uses a delta that does not correspond to the current variance (e.g. the constructor's midpoint at zero variance instead of max_delta)", "delta")
    # the update function applied to the freshly computed variation coefficient (locals holding the table entry are seen through)
    uinl = Inliner(ud.node)
    calls = [c for c in walk_no_nested(ud.node) if isinstance(c, ast.Call) and norm(uinl.inline(c.func)).startswith("self.update_functions[")]
    if len(calls) != 1:
        raise AnalysisError("update_delta: update function application not found")
    call = calls[0]
    # … applied to the value this call computed from the scheme: `self.variation_coef` after its assignment, or the local
    # that the attribute is assigned from
    vc_defs = [st for st in walk_no_nested(ud.node) if isinstance(st, ast.Assign) and norm(st.targets[0]) == "self.variation_coef"]
    arg_txt = norm(uinl.inline(call.args[0])) if len(call.args) == 1 else ""
    fresh_arg = len(call.args) == 1 and ((norm(call.args[0]) == "self.variation_coef" and len(vc_defs) == 1 and _stmt_index(ud.body(), vc_defs[0]) <= _stmt_index(ud.body(), call)) or (len(vc_defs) == 1 and arg_txt == norm(uinl.inline(vc_defs[0].value)) and arg_txt.startswith("self.schemes[")))
    L.check(norm(uinl.inline(call.func)) == "self.update_functions[self.update_function]" and not call.keywords and fresh_arg, "R3", "update_delta:application", ud0.where,
            f"update function applied as `{norm(uinl.inline(call.func))}({', '.join(norm(a_) for a_ in call.args)})`", "delta computed from a stale or different quantity", norm(call))
    vocab2 = Vocabulary({"self.min_delta": ("dmin", {"real": True}), "self.max_delta": ("dmax", {"real": True})})
    t2 = Translator(vocab2)
    t2.module = ud0.module
    t2.hooks.append(lambda tr, node: sp.Symbol("U", real=True) if node is call else None)
    d_caches = CacheResolver(prog, afb, vocab2, lambda _v=vocab2: Translator(_v))
    t2.hooks.append(d_caches.hook)
    try:
        t2.run_block(ud.body())
    except Unsupported as exc:
        raise AnalysisError(f"update_delta: {exc}") from exc
    if "self.delta" not in vocab2.values:
        raise AnalysisError("update_delta does not assign self.delta")
    dv = sp.sympify(vocab2.values["self.delta"])
    U2 = sp.Symbol("U", real=True)
    refd = vocab2.sym("dmin", real=True) + (vocab2.sym("dmax", real=True) - vocab2.sym("dmin", real=True)) * U2
    d_caches.check(L, "R3", "AdaptiveForceBias.update_delta", "delta leaves [min_delta, max_delta] (and misses max_delta at zero variance / the midpoint) once the window is changed on the object")
    verdict, wit = same(dv, refd)
    if verdict == EQUAL:
        L.ok("R3", "update_delta:delta", ud0.where)
    elif verdict == DIFFERENT:
        L.violation("R3", "update_delta:delta", ud0.where, f"delta is not min + (max − min)·update: {wit}", f"{wit}", "delta")
    else:
        raise AnalysisError(f"update_delta: {wit}")
    # variation coefficient from the scheme table on the live atoms, assigned before the update function reads it
    vca = [st for st in walk_no_nested(ud.node) if isinstance(st, ast.Assign) and norm(st.targets[0]) == "self.variation_coef"]
    vval = uinl.inline(vca[0].value) if len(vca) == 1 else None
    okv = len(vca) == 1 and isinstance(vval, ast.Call) and norm(uinl.inline(vval.func)) == "self.schemes[self.scheme]" \
        and [norm(a_) for a_ in vval.args] == ["self.atoms"] and not vval.keywords
    L.check(okv, "R3", "update_delta:variation", ud0.where,
            "variation coefficient is not taken from the configured scheme on the current atoms before delta is computed", "", norm(vca[0].value) if vca else "")

    # ---------------------------------------------------------------- R4
    n = 0
    for k, v in zip(schemes.keys, schemes.values):
        f = prog.lookup_method(afb, v.attr) if isinstance(v, ast.Attribute) else None
        if f is None:
            raise AnalysisError(f"scheme `{norm(k)}` does not resolve to a method")
        f = flat(prog, f, afb, public_methods=True)
        tries = [s for s in walk_no_nested(f.node) if isinstance(s, ast.Try)]
        if len(tries) != 1:
            raise AnalysisError(f"{f.qualname}: expected one try/except around the committee lookup")
        tr = tries[0]
        caught = set()
        for h in tr.handlers:
            caught |= set(norm(h.type).replace("(", "").replace(")", "").replace(" ", "").split(",")) if h.type is not None else {"*"}
        L.check({"KeyError", "AttributeError"} <= caught or "*" in caught or "Exception" in caught, "R4", f"{f.qualname}:handlers", f.where,
                f"fallback catches {sorted(caught)}: a calculator without committee results (KeyError) or without results (AttributeError) must fall back", "no committee data → exception instead of reference variance", ",".join(sorted(caught)))
        # the value returned on the fallback path: `return e` in the handler, or `v = e` there with `return v` after the try
        for h in tr.handlers:
            # every return the function can reach once this handler ran (the handler may return itself, set a local that
            # is returned after the try, or set a "no data" marker that a later `is None` test turns into the fallback)
            rets = _exception_path_returns(f.body(), tr, h)
            for r in rets:
                n += 1
                val = r.value
                okv = False
                if val is not None:
                    txt = norm(val)
                    if txt == "self.reference_variance":
                        okv = True
                    elif isinstance(val, ast.Call) and norm(val.func) in ("np.full", "np.full_like") and len(val.args) >= 2 and norm(val.args[1]) == "self.reference_variance":
                        okv = True
                L.check(okv, "R4", f"{f.qualname}:fallback", f"{f.module.relpath}:{r.lineno}", f"fallback returns `{norm(val) if val is not None else None}`, not the reference variance",
                        "without committee data delta is not the midpoint", norm(r))
            if not rets:
                L.violation("R4", f"{f.qualname}:fallback", f.where, "except handler does not return the reference variance", "", "fallback")
    L.floor("fallback returns", n, 2)

    _check_nonnegative_schemes(prog, L, afb, schemes)
    _check_inputs_untouched(prog, L, afb, [f_ for _n, f_ in funcs] + [prog.lookup_method(afb, v_.attr) for v_ in schemes.values if isinstance(v_, ast.Attribute)])

    # ---------------------------------------------------------------- R5
    st = afb.methods.get("step")
    if st is None:
        raise AnalysisError("AdaptiveForceBias.step missing")
    cfg = build_cfg(st.node)
    upd = [n_ for n_ in cfg.nodes if n_.kind == "stmt" and isinstance(n_.ast, ast.Expr) and isinstance(n_.ast.value, ast.Call) and norm(n_.ast.value.func) == "self.update_delta"]
    sup = [n_ for n_ in cfg.nodes if n_.kind == "stmt" and any(isinstance(c, ast.Call) and norm(c.func) == "super().step" for c in ast.walk(n_.ast))]
    L.check(len(upd) == 1 and len(sup) == 1 and cfg.dominates(upd[0], sup[0]), "R5", "AdaptiveForceBias.step", st.where,
            "update_delta() does not precede the inherited step on every path", "the step uses the previous (or initial midpoint) delta", "step")
